"""Shared plumbing for every check: paths, seeds, scratch dirs, evidence, known findings, verdicts.

Conventions (see DESIGN.md section 2):
  * pymtl3 is imported from $VERIF_REPO (default /repo) -- never from a snapshot.
  * exit 0 = property held on everything explored; exit 1 = VIOLATION line printed;
    exit 2 = the machinery itself failed (TLC crash, canary accepted, parser failure on our files).
  * evidence/<id>.json is rewritten on every run.
"""
import contextlib
import hashlib
import json
import os
import random
import shutil
import sys
import tempfile
import time

VERIF = os.path.dirname(os.path.dirname(os.path.abspath(__file__)))
SPEC = os.path.join(VERIF, "spec")
REPO = os.environ.get("VERIF_REPO", "/repo")
GUARD = "PYMTL3_VERIF"


class MachineryError(Exception):
    """The check itself is broken (exit 2). Never reported as a property violation."""


def seed():
    try:
        return int(os.environ.get("VERIF_SEED", "0"))
    except ValueError:
        return 0


def use_repo():
    """Make `import pymtl3` / `import examples` resolve to $VERIF_REPO."""
    if REPO not in sys.path:
        sys.path.insert(0, REPO)
    # harness/bin holds a no-op xdg-open (dump_dag(view=True) shells out to it before
    # the acyclic-only schedulers raise UpblkCyclicError).
    b = os.path.join(VERIF, "harness", "bin")
    if b not in os.environ.get("PATH", "").split(os.pathsep):
        os.environ["PATH"] = b + os.pathsep + os.environ.get("PATH", "")
    os.environ[GUARD] = "1"


@contextlib.contextmanager
def scratch(prefix="verif_"):
    """Scratch directory outside /repo and /verif, removed afterwards. cwd is switched into it
    (translation passes write files into the cwd)."""
    base = os.environ.get("VERIF_SCRATCH") or tempfile.gettempdir()
    d = tempfile.mkdtemp(prefix=prefix, dir=base)
    old = os.getcwd()
    os.chdir(d)
    try:
        yield d
    finally:
        os.chdir(old)
        shutil.rmtree(d, ignore_errors=True)


def rng(tag=""):
    h = hashlib.sha256(("%d/%s" % (seed(), tag)).encode()).digest()
    return random.Random(int.from_bytes(h[:8], "big"))


# --------------------------------------------------------------------------------------
# known findings
# --------------------------------------------------------------------------------------

def known_findings(pid):
    """Entries of known_findings.jsonl with kind == 'finding' for this property.
    'fixed' entries suppress nothing."""
    out = []
    paths = [os.path.join(VERIF, "known_findings.jsonl")]
    if os.environ.get("VERIF_FINDINGS_EXTRA"):      # development only: proposals not yet merged
        paths.append(os.environ["VERIF_FINDINGS_EXTRA"])
    for p in paths:
        if not os.path.exists(p):
            continue
        for line in open(p):
            line = line.strip()
            if not line or line.startswith("#") or line.startswith("fixed:"):
                continue
            e = json.loads(line)
            if e.get("property") == pid and e.get("kind") == "finding":
                out.append(e)
    return out


# --------------------------------------------------------------------------------------
# result accumulation, evidence, verdict
# --------------------------------------------------------------------------------------

class Result:
    """Collects what a check covered and what it found."""

    def __init__(self, pid, tier, level="model_checking"):
        self.pid = pid
        self.tier = tier
        self.level = level
        self.t0 = time.time()
        self.violations = []      # dicts: {key, what, detail}
        self.known = []
        self.cov = {"states": 0, "transitions": 0, "traces_validated_against_impl": 0,
                    "evaluations": 0, "samples": []}
        self.assumptions = []
        self.notes = {}
        self._findings = known_findings(pid)
        self._distinct = set()

    # -- coverage bookkeeping
    def add_tlc(self, run):
        self.cov["states"] += run.distinct
        self.cov["transitions"] += run.generated
        self.cov.setdefault("tlc_runs", []).append(run.summary())

    def add_traces(self, n):
        self.cov["traces_validated_against_impl"] += n

    def add_evals(self, n=1):
        self.cov["evaluations"] += n

    def distinct(self, key):
        self._distinct.add(key if isinstance(key, (str, int, tuple)) else json.dumps(key, sort_keys=True))

    def sample(self, s, cap=6):
        if len(self.cov["samples"]) < cap:
            self.cov["samples"].append(s)

    def note(self, k, v):
        self.notes[k] = v

    def count(self, k, n=1):
        self.notes[k] = self.notes.get(k, 0) + n

    def assume(self, text):
        if text not in self.assumptions:
            self.assumptions.append(text)

    # -- violations
    def violation(self, key, what, detail=None):
        """key identifies the failing input / call site / history (matched against known findings)."""
        for f in self._findings:
            m = f.get("match")
            if m is not None and (m == key or (isinstance(m, str) and isinstance(key, str)
                                              and key.startswith(m.rstrip("*")) and m.endswith("*"))):
                if not any(k["key"] == key for k in self.known):
                    self.known.append({"key": key, "what": f.get("what", what)})
                return False
        if not any(v["key"] == key for v in self.violations):
            self.violations.append({"key": key, "what": what, "detail": detail})
        return True

    # -- finish
    def finish(self):
        wall = time.time() - self.t0
        cov = dict(self.cov)
        cov["distinct_nontrivial"] = len(self._distinct)
        cov.update(self.notes)
        if not cov["samples"]:
            cov["samples"] = ["(no sample recorded)"]
        ev = {"property_id": self.pid, "tier": self.tier, "seed": seed(), "level": self.level,
              "coverage": cov, "assumptions": self.assumptions, "wall_s": round(wall, 2),
              "violations": len(self.violations)}
        ev["coverage"]["known_findings_reproduced"] = [k["key"] for k in self.known]
        evdir = os.environ.get("VERIF_EVIDENCE_DIR") or os.path.join(VERIF, "evidence")
        os.makedirs(evdir, exist_ok=True)
        path = os.path.join(evdir, self.pid + ".json")
        tmp = path + ".tmp"
        with open(tmp, "w") as f:
            json.dump(ev, f, indent=1, sort_keys=True, default=str)
            f.write("\n")
        os.replace(tmp, path)
        for k in self.known:
            print("KNOWN-FINDING: property=%s %s [%s]" % (self.pid, k["what"], k["key"]))
        if self.violations:
            rdir = os.path.join(os.environ.get("VERIF_REPLAY_DIR") or os.path.join(VERIF, "replay"), self.pid)
            os.makedirs(rdir, exist_ok=True)
            for i, v in enumerate(self.violations[:5]):
                rp = os.path.join(rdir, "violation_%d.json" % i)
                with open(rp, "w") as f:
                    json.dump({"property": self.pid, "tier": self.tier, "seed": seed(), **v}, f,
                              indent=1, default=str)
                print("VIOLATION property=%s replay=%s" % (self.pid, rp))
                print("  what: %s" % v["what"])
            print("%s %s: %d violation(s) in %.1fs" % (self.pid, self.tier, len(self.violations), wall))
            return 1
        print("%s %s: held on everything explored (%d TLC states, %d impl traces, %d evaluations, "
              "%d distinct cases, %.1fs)" % (self.pid, self.tier, cov["states"],
                                             cov["traces_validated_against_impl"], cov["evaluations"],
                                             cov["distinct_nontrivial"], wall))
        return 0


def validate_evidence(ev):
    """Minimal local re-statement of EVIDENCE.schema.json (jsonschema is not in /venv)."""
    for k in ("property_id", "tier", "seed", "level", "coverage", "wall_s"):
        assert k in ev, k
    c = ev["coverage"]
    if ev["level"] == "model_checking":
        assert c["states"] >= 1 and c["transitions"] >= 1 and len(c["samples"]) >= 1
    if ev["level"] in ("exploration", "fault_enumeration"):
        assert c["evaluations"] >= 1 and c["distinct_nontrivial"] >= 2 and len(c["samples"]) >= 1
    if ev["level"] == "translation_validation":
        assert c["programs"] >= 1 and "disagreements_checked" in c and len(c["samples"]) >= 1
