"""Drivers for C18: harness-side sources / sinks with per-message random delays around the real
MagicMemoryCL and stream.MagicMemoryRTL, the FL-instance wrapper that logs the processing order, and
the event log in the vocabulary of spec/MagicMem.tla (Send / Process / Deliver + final image).

This module must stay a real .py file: its update blocks are parsed by pymtl3.

Event vocabulary (addresses are byte offsets into the observed window, wide values are little-endian
byte lists -- TLC integers are 32-bit):
  {"k":"send", "p":port, "t":type_, "o":opaque, "a":offset, "n":len field, "d":[b0..b3]}
  {"k":"proc", "op":"rd"|"wr"|"amo", "t":type_ (amo kind; 0 rd, 1 wr), "a":offset, "nb":nbytes,
               "d":[data bytes], "r":[returned bytes], "w":[the nb addressed bytes after the call]}
  {"k":"dlv",  "p":port, "t":type_, "o":opaque, "n":len field, "d":[b0..b3]}
  {"k":"offer", ...as send}   stream memory only: first cycle in which the request is presented
                              (val) -- the harness uses it instead of "send" (val & rdy) when it asks
                              whether a run is observably sequential
"""
from pymtl3 import (Component, CallerIfcCL, DefaultPassGroup, non_blocking, update_ff, update_once,
                    M, U)

BASE = 0x1000          # byte address of the observed window
MEM_NBYTES = 1 << 13   # size of the magic memory built by the harness


def le_bytes(v, n):
    v = int(v)
    return [(v >> (8 * i)) & 255 for i in range(n)]


def from_le(bs):
    return sum(b << (8 * i) for i, b in enumerate(bs))


# ----------------------------------------------------------------------------------------------
# CL source / sink with a delay list (one entry per message)
# ----------------------------------------------------------------------------------------------

class DelaySrcCL(Component):

    def construct(s, Type, msgs, delays, port, log):
        s.send = CallerIfcCL(Type=Type)
        s.msgs = list(msgs)
        s.delays = list(delays)
        s.idx = 0
        s.count = s.delays[0] if s.delays else 0
        s.port = port
        s.log = log

        @update_once
        def up_src_send():
            if s.count > 0:
                s.count -= 1
            elif not s.reset:
                if s.idx < len(s.msgs) and s.send.rdy():
                    m = s.msgs[s.idx]
                    s.log.send(s.port, m)
                    s.send(m)
                    s.idx += 1
                    s.count = s.delays[s.idx] if s.idx < len(s.delays) else 0

    def done(s):
        return s.idx >= len(s.msgs)

    def line_trace(s):
        return ""


class DelaySinkCL(Component):

    def construct(s, Type, nmsgs, delays, port, log):
        s.nmsgs = nmsgs
        s.delays = list(delays)
        s.idx = 0
        s.count = s.delays[0] if s.delays else 0
        s.recv_called = False
        s.port = port
        s.log = log

        @update_once
        def up_sink_count():
            if s.recv_called:
                s.count = s.delays[s.idx] if s.idx < len(s.delays) else 0
            elif s.count > 0:
                s.count -= 1
            s.recv_called = False

        s.add_constraints(
            U(up_sink_count) < M(s.recv),
            U(up_sink_count) < M(s.recv.rdy),
        )

    @non_blocking(lambda s: s.count == 0)
    def recv(s, msg):
        s.log.deliver(s.port, msg)
        s.idx += 1
        s.recv_called = True

    def done(s):
        return s.idx >= s.nmsgs

    def line_trace(s):
        return ""


class HarnessCL(Component):

    def construct(s, nports, types, msgs, src_delays, sink_delays, stall_prob, latency, log):
        from pymtl3 import connect
        from pymtl3.stdlib.mem.MagicMemoryCL import MagicMemoryCL
        s.srcs = [DelaySrcCL(types[i][0], msgs[i], src_delays[i], i, log) for i in range(nports)]
        s.mem = MagicMemoryCL(nports, types, stall_prob, latency, MEM_NBYTES)
        s.sinks = [DelaySinkCL(types[i][1], len(msgs[i]), sink_delays[i], i, log) for i in range(nports)]
        for i in range(nports):
            connect(s.srcs[i].send, s.mem.ifc[i].req)
            connect(s.mem.ifc[i].resp, s.sinks[i].recv)

    def done(s):
        return all(x.done() for x in s.srcs) and all(x.done() for x in s.sinks)

    def line_trace(s):
        return ""


# ----------------------------------------------------------------------------------------------
# RTL (stream val/rdy) source / sink with a delay list
# ----------------------------------------------------------------------------------------------

class DelaySrcRTL(Component):

    def construct(s, Type, msgs, delays):
        from pymtl3.stdlib.stream.ifcs import SendIfcRTL
        s.send = SendIfcRTL(Type)
        s.msgs = list(msgs)
        s.delays = list(delays)
        s.idx = 0
        s.count = 0

        @update_ff
        def up_src():
            if s.reset:
                s.idx = 0
                s.count = s.delays[0] if s.delays else 0
                s.send.val <<= 0
            else:
                if s.send.val & s.send.rdy:
                    s.idx += 1
                    s.count = s.delays[s.idx] if s.idx < len(s.delays) else 0
                if s.count > 0:
                    s.count -= 1
                    s.send.val <<= 0
                else:
                    if s.idx < len(s.msgs):
                        s.send.val <<= 1
                        s.send.msg <<= s.msgs[s.idx]
                    else:
                        s.send.val <<= 0

    def done(s):
        return s.idx >= len(s.msgs)

    def line_trace(s):
        return ""


class DelaySinkRTL(Component):

    def construct(s, Type, nmsgs, delays):
        from pymtl3.stdlib.stream.ifcs import RecvIfcRTL
        s.recv = RecvIfcRTL(Type)
        s.nmsgs = nmsgs
        s.delays = list(delays)
        s.idx = 0
        s.count = 0

        @update_ff
        def up_sink():
            if s.reset:
                s.idx = 0
                s.count = s.delays[0] if s.delays else 0
                s.recv.rdy <<= (s.idx < s.nmsgs) & (s.count == 0)
            else:
                if s.recv.val & s.recv.rdy:
                    s.idx += 1
                    s.count = s.delays[s.idx] if s.idx < len(s.delays) else 0
                if s.count > 0:
                    s.count -= 1
                    s.recv.rdy <<= 0
                else:
                    s.recv.rdy <<= (s.idx < s.nmsgs)

    def done(s):
        return s.idx >= s.nmsgs

    def line_trace(s):
        return ""


class HarnessRTL(Component):

    def construct(s, nports, types, msgs, src_delays, sink_delays, stall_prob, extra_latency):
        from pymtl3.stdlib.stream.magic_memory import MagicMemoryRTL
        s.srcs = [DelaySrcRTL(types[i][0], msgs[i], src_delays[i]) for i in range(nports)]
        s.mem = MagicMemoryRTL(nports, types, stall_prob, extra_latency, MEM_NBYTES)
        s.sinks = [DelaySinkRTL(types[i][1], len(msgs[i]), sink_delays[i]) for i in range(nports)]
        for i in range(nports):
            s.srcs[i].send //= s.mem.ifc[i].req
            s.mem.ifc[i].resp //= s.sinks[i].recv

    def done(s):
        return all(x.done() for x in s.srcs) and all(x.done() for x in s.sinks)

    def line_trace(s):
        return ""


# ----------------------------------------------------------------------------------------------
# Event log and FL wrapper
# ----------------------------------------------------------------------------------------------

class Log:
    """Events in the single Python thread's call order."""

    def __init__(s, window):
        s.ev = []
        s.window = window
        s.depth = 0          # nesting depth of wrapped FL calls (amo -> read + write)
        s.outside = []       # FL accesses that leave the observed window

    def send(s, p, m):
        s.ev.append({"k": "send", "p": p, "t": int(m.type_), "o": int(m.opaque),
                     "a": int(m.addr) - BASE, "n": int(m.len), "d": le_bytes(m.data, 4)})

    def deliver(s, p, m):
        s.ev.append({"k": "dlv", "p": p, "t": int(m.type_), "o": int(m.opaque),
                     "n": int(m.len), "d": le_bytes(m.data, 4)})

    def proc(s, op, t, addr, nb, data, ret, after):
        a = int(addr) - BASE
        e = {"k": "proc", "op": op, "t": int(t), "a": a, "nb": int(nb), "d": data, "r": ret, "w": after}
        if a < 0 or a + int(nb) > s.window:
            s.outside.append(e)
        s.ev.append(e)


def wrap_fl(fl, log):
    """Replace the read / write / amo attributes of the MagicMemoryFL *instance* by logging
    wrappers (the class and /repo are untouched).  Only the outermost call is logged: amo calls
    read and write through the instance, i.e. through these wrappers."""
    r0, w0, a0 = fl.read, fl.write, fl.amo

    def after(addr, nbytes):      # the addressed bytes right after the call returned
        return list(fl.mem[int(addr):int(addr) + int(nbytes)])

    def read(addr, nbytes):
        log.depth += 1
        try:
            ret = r0(addr, nbytes)
        finally:
            log.depth -= 1
        if log.depth == 0:
            log.proc("rd", 0, addr, nbytes, [], le_bytes(ret, int(nbytes)), after(addr, nbytes))
        return ret

    def write(addr, nbytes, data):
        d = le_bytes(data, int(nbytes))
        log.depth += 1
        try:
            ret = w0(addr, nbytes, data)
        finally:
            log.depth -= 1
        if log.depth == 0:
            log.proc("wr", 1, addr, nbytes, d, [], after(addr, nbytes))
        return ret

    def amo(kind, addr, nbytes, data):
        d = le_bytes(data, 4)
        log.depth += 1
        try:
            ret = a0(kind, addr, nbytes, data)
        finally:
            log.depth -= 1
        if log.depth == 0:
            log.proc("amo", int(kind), addr, nbytes, d, le_bytes(ret, int(nbytes)), after(addr, nbytes))
        return ret

    fl.read, fl.write, fl.amo = read, write, amo


def mk_types():
    from pymtl3.stdlib.mem.MemMsg import mk_mem_msg
    return mk_mem_msg(8, 32, 32)


def mk_msgs(ReqType, reqs):
    """reqs: list of dicts {t, o, a (window offset), n (len field), d (int)} -> request messages."""
    return [ReqType(r["t"], r["o"], BASE + r["a"], r["n"], r["d"]) for r in reqs]


def _image(top, window):
    return list(top.mem.read_mem(BASE, window))


def _rest_clean(top, window):
    m = top.mem.mem.mem
    return (not any(m[:BASE])) and (not any(m[BASE + window:]))


def run_cl(streams, cfg, window, init, max_cycles=20000):
    """Drive MagicMemoryCL.  streams: per port list of request dicts; cfg: dict(latency, stall_prob,
    src_delays, sink_delays).  Returns the trace dict (without tid)."""
    nports = len(streams)
    ReqT, RespT = mk_types()
    log = Log(window)
    msgs = [mk_msgs(ReqT, st) for st in streams]
    top = HarnessCL(nports, [(ReqT, RespT)] * nports, msgs, cfg["src_delays"], cfg["sink_delays"],
                    cfg["stall_prob"], cfg["latency"], log)
    top.elaborate()
    top.mem.write_mem(BASE, bytearray(init))
    wrap_fl(top.mem.mem, log)
    top.apply(DefaultPassGroup())
    top.sim_reset()
    n = 0
    while not top.done() and n < max_cycles:
        top.sim_tick()
        n += 1
    hung = not top.done()
    for _ in range(cfg["latency"] + 3):
        top.sim_tick()
    return {"impl": "cl", "np": nports, "W": window, "init": list(init), "ev": log.ev,
            "final": _image(top, window), "hung": hung, "cycles": n,
            "outside": len(log.outside), "rest_clean": _rest_clean(top, window)}


def run_rtl(streams, cfg, window, init, max_cycles=20000):
    """Drive stream.MagicMemoryRTL.  One sim_tick = clock edge followed by the combinational blocks
    of the new cycle (up_mem among them), so after every tick the val/rdy handshakes of the cycle
    are read from the ports; the cycle's events are emitted as Deliver*, Offer*, Send*, Process* (a
    request is accepted and processed in the same cycle; a response leaves at least one cycle
    later)."""
    nports = len(streams)
    ReqT, RespT = mk_types()
    log = Log(window)
    msgs = [mk_msgs(ReqT, st) for st in streams]
    top = HarnessRTL(nports, [(ReqT, RespT)] * nports, msgs, cfg["src_delays"], cfg["sink_delays"],
                     cfg["stall_prob"], cfg["extra_latency"])
    top.elaborate()
    top.mem.write_mem(BASE, bytearray(init))
    wrap_fl(top.mem.mem, log)
    top.apply(DefaultPassGroup())
    ev = []

    nsent = [0] * nports      # requests accepted so far (val & rdy)
    noffer = [0] * nports     # requests presented so far (val), accepted or not

    def cycle():
        procs, log.ev = log.ev, []
        for i in range(nports):
            ifc = top.mem.ifc[i]
            if int(ifc.resp.val) and int(ifc.resp.rdy):
                log.deliver(i, ifc.resp.msg)
        for i in range(nports):
            ifc = top.mem.ifc[i]
            if int(ifc.req.val) and noffer[i] == nsent[i]:
                log.send(i, ifc.req.msg)
                log.ev[-1]["k"] = "offer"
                noffer[i] += 1
        for i in range(nports):
            ifc = top.mem.ifc[i]
            if int(ifc.req.val) and int(ifc.req.rdy):
                log.send(i, ifc.req.msg)
                nsent[i] += 1
        ev.extend(log.ev)
        ev.extend(procs)
        log.ev = []

    top.sim_reset()
    cycle()
    n = 0
    while not top.done() and n < max_cycles:
        top.sim_tick()
        cycle()
        n += 1
    hung = not top.done()
    for _ in range(3):
        top.sim_tick()
        cycle()
    ev_inf = [dict(e, k="send") if e["k"] == "offer" else e for e in ev if e["k"] in ("offer", "dlv")]
    ev = [e for e in ev if e["k"] != "offer"]
    return {"impl": "rtl", "np": nports, "W": window, "init": list(init), "ev": ev, "ev_inf": ev_inf,
            "final": _image(top, window), "hung": hung, "cycles": n,
            "outside": len(log.outside), "rest_clean": _rest_clean(top, window)}
