"""Batch driver for C03 / C12: prepare designs in worker processes, validate the traces with TLC
(spec/SVSemTrace.tla), turn verdicts into violations with stable keys, canaries.

  run_batch(res, backend, specs, ...) -> Batch     translate / simulate / validate a list of design specs
  canaries(res, batch, R, ...)                     corrupted copies of accepted traces must be rejected
  check_coverage(res, batches)                     per-action / per-clause coverage must be non-vacuous

Violation keys (matched by known_findings.jsonl):
  syntax:<backend>:<design>:<message>              the emitted text is not well-formed
  drivers:<backend>:<design>:<variable>            a variable with more than one driver
  loop-wraps:<backend>:<design>                    a for loop whose 32-bit variable wraps around (never ends)
  signed-loopvar:<backend>:<design>                differs only under the signedness rules (see c12.py)
  behaviour:<backend>:<design>:<what>              outputs differ from the PyMTL simulation
<design> is the repo case / stdlib component name, or for generated designs `gen:<family>:<shape>` where the
shape is the operator / operand-shape tree of the expression driving the failing output (expression
families) or the name of the fixed structure with its parameters (structural families).  For the grid
families the shape is the shape class of the failing output, never a random size or index:
  nd   <construct>.d<dimensions>.<rd|wr>.<ub-const|ub-loop|ub-var|connect>  (internal constructs: wr.<m>+rd.<m>;
       whole-struct traffic: <construct>.d<n>.whole.<bits|upblk|connect>), e.g. behaviour:sv:gen:nd:ifc.d2.rd.ub-var
  lv   lv.<use>.<range form>, e.g. behaviour:sv:gen:lv:lv.castk.desc
An output mismatch does not end the validation of a run: every port that differs in any cycle gets its key
(a known finding on one port / in an early cycle cannot hide another port); a write through an out-of-range
index names the variable written (clause comb:out-of-range-write).
"""
import concurrent.futures as cf
import copy
import json
import multiprocessing as mp
import os
import re
import shutil
import tempfile
import time

import common
import svcorpus
import svharness as H
import tlc
from common import MachineryError


def _prep(args):
    try:
        return svcorpus.prepare(*args)
    except MachineryError as e:
        return {"spec": args[0][:2], "backend": args[1], "status": "machinery", "info": str(e), "traces": []}


def prepare_all(specs, backend, nrand, ncyc, seed_tag, cross=False, workers=None):
    workers = workers or min(os.cpu_count() or 4, 16)
    args = [(s, backend, nrand, ncyc, seed_tag, False, None, cross) for s in specs]
    # everything the workers need is imported once here; every design is then handled by a freshly forked
    # process, so that no state of the translation passes leaks from one design into the next
    import pymtl3                                        # noqa: F401
    import pymtl3.passes.backends.verilog                # noqa: F401
    import pymtl3.passes.backends.yosys                  # noqa: F401
    import pymtl3.passes.PassGroups                      # noqa: F401
    if any(s[0] == "repo" for s in specs):
        import pymtl3.passes.testcases.test_cases        # noqa: F401
    if any(s[0] == "stdlib" for s in specs):
        svcorpus._stdlib_table()
        svcorpus._examples_table()
    ctx = mp.get_context("fork")
    with ctx.Pool(workers, maxtasksperchild=1) as pool:
        return pool.map(_prep, args, chunksize=1)


WORK = [0]      # interpreter work done by validate() so far: sum of (AST nodes x events executed), see _weight


def _weight(t):
    return 40 + len(t["ev"]) * max(1, t.get("w", 1))


TLC_TIMEOUT = 3000      # seconds per TLC process (props/c03.py raises it for the thorough tier)


def validate(traces, timeout=None, coverage=False):
    """Validate `traces` with SVSemTrace in parallel single-worker TLC processes; chunks balanced by
    design size x cycles.  Returns (runs, [((err, pos), info)]).
    (TLC's -coverage instrumentation slows the deeply recursive interpreter down by orders of magnitude,
    so it is switched on only for the small dedicated run of check_coverage.)"""
    if not traces:
        return [], []
    timeout = timeout or TLC_TIMEOUT
    ncpu = min(os.cpu_count() or 4, 16)
    order = sorted(range(len(traces)), key=lambda i: -_weight(traces[i]))
    total = sum(_weight(t) for t in traces)
    # one JVM costs ~3 CPU-seconds before the first trace; ~4k weight units (AST nodes x cycles) are interpreted per second
    nchunks = max(1, min(len(traces), ncpu, total // 25000 + 1))
    bins = [[] for _ in range(nchunks)]
    load = [0] * nchunks
    for i in order:
        b = load.index(min(load))
        bins[b].append(i)
        load[b] += _weight(traces[i])
    verdicts = [None] * len(traces)
    infos = [None] * len(traces)
    runs = []
    tmp = tempfile.mkdtemp(prefix="svsem_")

    def one(b):
        idx = bins[b]
        if not idx:
            return None
        fn = os.path.join(tmp, "in_%d.json" % b)
        with open(fn, "w") as f:
            json.dump({"traces": [{"d": traces[i]["d"], "mode": traces[i]["mode"], "ev": traces[i]["ev"]} for i in idx]}, f)
        r = tlc.run("SVSemTrace", env={"VERIF_INPUT": fn}, workers=1, timeout=timeout, deadlock=False, light=True,
                    coverage=coverage)
        os.unlink(fn)
        if r.errors or r.violated:
            raise MachineryError("trace spec SVSemTrace failed: %s %s\n%s" % (r.errors, r.violated, r.out[-3000:]))
        vs, extra = {}, {}
        for p in r.prints:
            if not p:
                continue
            if p[0] == "V":
                if p[1] - 1 in vs:
                    raise MachineryError("two verdicts for one trace")
                vs[p[1] - 1] = (p[2], p[3])
            elif p[0] == "R":
                extra.setdefault(p[1] - 1, {})["R"] = p[2:]
            elif p[0] == "T":
                # <<"T", tid, k, ncmp, nflat, chunk of the differing entries>>: one line per chunk
                d = extra.setdefault(p[1] - 1, {})
                if "T" in d:
                    d["T"] = d["T"][:3] + (tuple(sorted(set(d["T"][3]) | set(p[5]))),)
                else:
                    d["T"] = tuple(p[2:5]) + (tuple(p[5]),)
        for j in range(len(idx)):
            if j not in vs:
                raise MachineryError("no verdict for trace %s\n%s" % (traces[idx[j]].get("tag"), r.out[-3000:]))
        return idx, r, vs, extra

    try:
        with cf.ThreadPoolExecutor(max_workers=ncpu) as ex:
            for res in ex.map(one, range(nchunks)):
                if res is None:
                    continue
                idx, r, vs, extra = res
                runs.append(r)
                for j, i in enumerate(idx):
                    verdicts[i] = vs[j]
                    infos[i] = extra.get(j, {})
    finally:
        shutil.rmtree(tmp, ignore_errors=True)
    for t, v in zip(traces, verdicts):
        if v is not None:
            steps = len(t["ev"]) if (v[0] == "ok" or v[0].startswith("mismatch")) and not t["d"].get("stop") else min(len(t["ev"]), max(1, v[1]))
            WORK[0] += 40 + steps * max(1, t.get("w", 1))
    return runs, list(zip(verdicts, infos))


def has_signed(flat):
    return any(v["ty"].get("sg") for v in flat["vars"].values())


def _norm(msg):
    msg = re.sub(r"line \d+: ", "", msg)
    return re.sub(r"\s+", " ", msg)


class Batch:
    """Results of one corpus run."""

    def __init__(self, backend, label):
        self.backend, self.label = backend, label
        self.preps = []
        self.traces = []      # trace dicts (with "owner": index into preps)
        self.vi = []          # ((err, pos), info) per trace
        self.lenient = {}     # trace index -> verdict with signedness ignored
        self.coverage = {}    # TLC action -> count
        self.ncmp = 0         # leaf comparisons made by TLC
        self.nflat = 0        # ... of which through a multi-leaf FlatMap layout
        self.clauses = {}     # err clause -> count (incl. "ok")


def design_key(p):
    if p["spec"][0] == "gen":
        m = p.get("meta") or {}
        return "gen:%s" % m.get("family", "?"), m
    return p.get("name", p["spec"][1]), None


# Input classes of generated expressions that get one key each (naming only; nothing is suppressed here).
# A shape is the operator / operand-shape tree of the expression driving the failing output, e.g.
# bin+(uarr,sext(slice)); the first matching class names the key, otherwise the whole shape does.
_REF = r"(?:port|slice|field|field\.arr|field\.nested|uarr|uarrdyn|sub\.\w+|tmp|bit|bitdyn|loopcast)\b"
SHAPE_CLASSES = [
    ("sext-of-array-element", re.compile(r"sext\((?:uarr|uarrdyn|field\.arr)\b")),
    ("sext-of-expression", re.compile(r"sext\((?!%s)" % _REF)),
    ("reduce-of-expression", re.compile(r"red_(?:and|or|xor)\((?!%s)" % _REF)),
    ("cast-of-expression", re.compile(r"cast\((?!%s)" % _REF)),
]


def shape_class(sig):
    for name, rx in SHAPE_CLASSES:
        if rx.search(sig):
            return name
    return None


def _gen_shape(meta, where):
    """family:shape of the failing output of a generated design"""
    fam = meta.get("family", "?")
    port = re.sub(r"\[\d+\]", "", where).split(".")[0]
    if port.startswith("__tmpvar__"):       # a temporary of the generated source: __tmpvar__<block>_<name>
        port = next((k for k in (meta.get("sigs") or {}) if port.endswith("_" + k)), port)
    else:
        port = port.split("__")[0]
    sig = (meta.get("sigs") or {}).get(port)
    wm = re.search(r"_w(\d+)", meta.get("shape", ""))
    if sig:
        c = shape_class(sig)
        if c:
            return c
        if meta.get("nowidth"):
            return "%s:%s" % (fam, sig)
        return "%s:%s:w%s" % (fam, sig, wm.group(1) if wm else "?")
    base, _, rest = _shape_key(meta).partition(":")
    return "%s:%s:%s%s" % (fam, base, port, ":" + rest if rest else "")


def _shape_key(meta):
    """struct_k1_w8 -> struct_k1:w8 (the structure first, its width / size parameters last)"""
    return re.sub(r"_w(\d+)", r":w\1", meta.get("shape", "?"), 1)


def _syntax_where(p):
    """the assignment target on the line a syntax error of the emitted text points at"""
    m = re.search(r"\[assignment to (\w+)\]", p.get("info", ""))
    if m:
        return m.group(1)
    m = re.search(r"line (\d+)", p.get("info", ""))
    if not m:
        return ""
    lines = p.get("text", "").splitlines()
    n = int(m.group(1))
    if not 0 < n <= len(lines):
        return ""
    m2 = re.match(r"\s*(?:assign\s+)?([A-Za-z_]\w*)", lines[n - 1])
    return m2.group(1) if m2 else ""


def run_batch(res, backend, specs, nrand, ncyc, seed_tag, label, cross=False, uns=False):
    """Translate, simulate and validate `specs`.  Adds evidence and violations to `res`.
    uns=True: every operand of the emitted text is taken as unsigned from the start (the signedness rules
    of 6.24.1 / 11.8 are then not applied at all; see STRICT_SIGNED_CAST in props/c12.py)."""
    B = Batch(backend, label)
    t0 = time.time()
    preps = B.preps = prepare_all(specs, backend, nrand, ncyc, seed_tag, cross=cross)
    res.note("wall_%s_translate_and_simulate_s" % label, round(time.time() - t0, 1))
    bad = [p for p in preps if p["status"] in ("unsupported", "machinery", "unresolvable") or
           (p["status"] == "unbuildable" and p["spec"][0] != "repo")]
    if bad:
        raise MachineryError("%s: %d design(s) could not be processed by the harness (never skipped), first: %s %s: %s"
                             % (label, len(bad), bad[0]["spec"][:2], bad[0]["status"], bad[0]["info"]))
    for pi, p in enumerate(preps):
        res.count("%s_status_%s" % (label, p["status"]))
        dk, meta = design_key(p)
        if p["status"] == "syntax":
            msg = re.sub(r" \[assignment to \w+\]", "", re.sub(r"module \w+: ", "", _norm(p["info"])))[:100]
            where = _syntax_where(p)
            if meta is None:
                skey = dk
            elif re.search(r"not declared|not of struct type|has no member", msg):
                # name / type errors describe themselves: the message with the names abstracted
                skey = "gen"
                msg = re.sub(r"'__\w+'", "'__<member>'", re.sub(r"select \.\w+", "select .<member>", msg))
            elif where:
                skey = "gen:" + _gen_shape(meta, where)     # a named shape class, or family + shape of the statement
            else:
                skey = "gen:" + meta.get("family", "?")
            res.violation("syntax:%s:%s:%s" % (backend, skey, msg),
                          "%s back end: the text emitted for %s is not valid: %s" % (backend, p.get("name"), p["info"]),
                          {"spec": list(p["spec"][:2]), "text": p.get("text", "")[-3000:]})
            res.count("programs")
        if p["status"] == "untranslatable":
            res.count("designs_rejected_by_the_translation_pass")
            if not p.get("expected_reject", True):
                res.count("%s_unexpected_translation_exception" % label)
                res.sample({"unexpected translation exception": p["info"], "design": p.get("name")})
        if p.get("nosim"):
            if p["spec"][0] == "gen":
                raise MachineryError("%s: generated design %s cannot be simulated by PyMTL (%s) - generator bug"
                                     % (label, p.get("name"), p["nosim"]))
            res.count("%s_designs_pymtl_cannot_simulate" % label)
        if p.get("tv_unsupported"):
            res.count("%s_hand_vector_sets_not_expressible" % label)
            res.note("%s_hand_vectors_not_expressible:%s" % (label, p.get("name")), p["tv_unsupported"])
        if p.get("tv_pymtl"):
            res.count("%s_hand_vectors_satisfied_by_pymtl_sim" % label, p["tv_pymtl"]["ok"])
            res.count("%s_hand_vectors_contradicted_by_pymtl_sim" % label, p["tv_pymtl"]["fail"])
        res.count("%s_stimulus_runs_cut_short_by_a_pymtl_exception" % label, p.get("aborted", 0))
        for t in p["traces"]:
            t["w"] = p.get("nodes", 1)
            t["owner"] = pi
            if uns and t["mode"] == "run":
                t["d"] = dict(t["d"], uns=True)
            elif t["mode"] == "run" and has_signed(t["d"]):
                # validated a second time with every operand unsigned if it fails: that run collects all mismatches
                t["d"] = dict(t["d"], stop=True)
            B.traces.append(t)
    traces = B.traces
    if label == "gen":
        wf = {}
        for t in traces:
            fam = (preps[t["owner"]].get("meta") or {}).get("family", "?")
            wf[fam] = wf.get(fam, 0) + _weight(t)
        res.note("interpreter_work_units_by_family", wf)
    # second opinion for designs with signed (integer) variables: the same run with signedness ignored.  Both
    # are validated in one batch (the first one stops at its first mismatch); the second verdict is used
    # only if the first one fails.
    twins = []
    for i, t in enumerate(traces):
        if t["mode"] == "run" and has_signed(t["d"]) and not t["d"]["uns"]:
            t2 = dict(t)
            t2["d"] = dict(t["d"], uns=True, stop=False)
            twins.append((i, t2))
    t0 = time.time()
    runs, vi_all = validate(traces + [t2 for (_i, t2) in twins])
    res.note("wall_%s_tlc_s" % label, round(time.time() - t0, 1))
    vi = B.vi = vi_all[:len(traces)]
    for r in runs:
        res.add_tlc(r)
    for (i, _t2), v2 in zip(twins, vi_all[len(traces):]):
        if vi[i][0][0] != "ok":
            B.lenient[i] = v2
    nprog, nsteps, ndis = 0, 0, 0
    failed_design = set()
    vec_fail = []
    for i, (t, (v, info)) in enumerate(zip(traces, vi)):
        p = preps[t["owner"]]
        err, pos = v
        name = p["name"]
        dk, meta = design_key(p)
        full = dk if meta is None else "%s:%s" % (dk, _shape_key(meta))
        if t["mode"] == "drv":
            nprog += 1
            r = info.get("R", (0, 0, 0))
            res.count("%s_undriven_variables" % label, r[2] if len(r) > 2 else 0)
            B.clauses["OneDriver:" + err] = B.clauses.get("OneDriver:" + err, 0) + 1
            if err == "multi-driver":
                k = info.get("T", (0,))[0]
                var = t["d"]["varorder"][k - 1] if k else "?"
                failed_design.add(t["owner"])
                res.violation("drivers:%s:%s:%s" % (backend, full, re.sub(r"\d+", "N", var) if meta else var),
                              "%s back end, design %s: variable %s has more than one driver (%d such variable(s))"
                              % (backend, name, var, r[1] if len(r) > 1 else 1),
                              {"spec": list(p["spec"])[:2]})
            elif err != "ok":
                raise MachineryError("%s: drivers check of %s ended with %s" % (label, name, err))
            continue
        tinfo = info.get("T", (0, 0, 0))
        B.ncmp += tinfo[1] if len(tinfo) > 1 else 0
        B.nflat += tinfo[2] if len(tinfo) > 2 else 0
        res.add_traces(1)
        nsteps += (len(t["ev"]) if err == "ok" else max(0, pos - 1))
        res.distinct((backend, t["tag"]))
        is_vec = t.get("kind") == "vectors"
        is_cross = t.get("kind") == "cross"
        if is_vec:
            res.count("%s_hand_vector_sets_run" % label)
            res.count("%s_hand_vectors_run" % label, p["tv"]["vectors"])
        if err == "ok":
            B.clauses["ok"] = B.clauses.get("ok", 0) + 1
            if is_vec:
                res.count("%s_hand_vector_sets_reproduced" % label)
                res.count("%s_hand_vectors_reproduced" % label, p["tv"]["vectors"])
                res.count("%s_hand_vector_expectations_reproduced" % label, p["tv"]["expectations"])
            if is_cross:
                res.count("%s_cross_sv_text_accepts_same_vectors" % label)
            continue
        lv = B.lenient.get(i)
        eff = err
        if lv is not None and lv[0][0] == "ok":
            eff = "signed-loopvar"
        elif lv is not None:
            # it fails with the signedness ignored as well: that failure names the (other) defect
            (err, pos), tinfo = lv[0], lv[1].get("T", (0, 0, 0))
            eff = err
        m_oor = re.match(r"(.*out-of-range-write):(.*)$", err)
        if m_oor:
            # a write through an index outside the declared range: the clause names the variable
            err = m_oor.group(1)
            eff = err if eff != "signed-loopvar" else eff
        B.clauses[eff] = B.clauses.get(eff, 0) + 1
        ks = list(tinfo[3]) if len(tinfo) > 3 and tinfo[3] else ([tinfo[0]] if tinfo[0] else [])
        wheres = []
        for k in ks:
            if err.startswith("mismatch"):
                e = t["ev"][pos - 1]["outc" if err == "mismatch-comb" else "outt"][k - 1]
                wheres.append(e["n"] + "".join("[%d]" % x for x in e["ix"]))
            elif err.startswith("port-map"):
                e = t["ev"][pos - 1]["in" if "input" in err else "outc"][k - 1]
                wheres.append(e["n"])
        if m_oor:
            wheres = [m_oor.group(2)]
        where = wheres[0] if wheres else ""
        if is_cross:
            # the SystemVerilog text on the vectors of the yosys check: C03's business, recorded only
            res.count("%s_cross_sv_text_rejects_same_vectors" % label)
            res.note("%s_cross_sv_disagreement:%s" % (label, full), "%s at cycle %d %s" % (err, pos, where))
            continue
        if is_vec:
            vec_fail.append((t["owner"], name, err, pos, where))
            continue
        failed_design.add(t["owner"])
        detail = {"spec": list(p["spec"])[:2], "trace": t["tag"], "clause": err, "cycle": pos, "port": where,
                  "event": t["ev"][pos - 1] if 0 < pos <= len(t["ev"]) else None}
        if p["spec"][0] == "gen":
            detail["source"] = p.get("src")
        if eff == "signed-loopvar":
            res.violation("signed-loopvar:%s:%s" % (backend, full),
                          "%s back end, design %s: the emitted text differs from the PyMTL simulation (%s at cycle %d "
                          "%s) under the IEEE 1800 signedness rules - a size cast N'(integer loop variable) is signed "
                          "(6.24.1), so an index with its top bit set is negative; it agrees when every operand is "
                          "taken as unsigned" % (backend, name, err, pos, where), detail)
            continue
        if err.endswith("loop-wraps"):
            res.violation("loop-wraps:%s:%s" % (backend, full),
                          "%s back end, design %s: a for loop of the emitted text does not terminate - its 32-bit "
                          "unsigned loop variable passes zero and the loop condition still holds (%s at cycle %d)"
                          % (backend, name, err, pos), detail)
            continue
        cls = "mismatch" if err.startswith("mismatch") else err
        seen_keys = set()
        for where in (wheres or [""]):
            if meta is not None:
                what = _gen_shape(meta, where) + ("" if cls == "mismatch" else ":" + cls)
                key = "behaviour:%s:gen:%s" % (backend, what)
            else:
                key = "behaviour:%s:%s:%s:%s" % (backend, dk, cls, re.sub(r"\[\d+\]", "[N]", where))
            if key in seen_keys:
                continue
            seen_keys.add(key)
            res.violation(key, "%s back end, design %s (%s): %s %s (first failure of the run: %s at cycle %d)"
                          % (backend, name, t["tag"], cls, where, err, pos), dict(detail, port=where))
    for (owner, name, err, pos, where) in vec_fail:
        if owner in failed_design:
            res.count("%s_hand_vector_sets_failing_like_the_pymtl_trace" % label)
        else:
            raise MachineryError("%s: the interpreter does not reproduce the maintainers' vectors of %s (%s at vector %d %s) "
                                 "although the PyMTL trace of the same design is accepted" % (label, name, err, pos - 3, where))
    res.count("programs", nprog)
    res.count("disagreements_checked", B.ncmp)
    res.count("cycles_validated", nsteps)
    res.add_evals(nsteps)
    return B


# --------------------------------------------------------------------------------------
# canaries
# --------------------------------------------------------------------------------------

def _spans(shape, lo=0, path=()):
    """(path, lo, width) of the direct children of a struct / list shape (first field / highest index
    most significant) - used only to BUILD port-map canaries, never to judge a trace."""
    if shape["k"] == "struct":
        kids = [(f["n"], f["t"]) for f in shape["fs"]]
    elif shape["k"] == "list":
        kids = [(str(i), shape["t"]) for i in range(shape["n"])][::-1]
    else:
        return []
    out = []
    off = lo + _nbits(shape)
    for n, t in kids:
        off -= _nbits(t)
        out.append((n, off, _nbits(t)))
    return out


def _nbits(shape):
    if shape["k"] == "leaf":
        return shape["w"]
    if shape["k"] == "struct":
        return sum(_nbits(f["t"]) for f in shape["fs"])
    return shape["n"] * _nbits(shape["t"])


def _strip(t):
    return {"d": t["d"], "mode": t["mode"], "ev": t["ev"], "w": t.get("w", 1)}


def _groups(shape, lo=0):
    """every composite node of a shape: (kind, spans of its children), recursively"""
    if shape["k"] == "leaf":
        return
    sp = _spans(shape, lo)
    yield shape["k"], sp
    kids = [f["t"] for f in shape["fs"]] if shape["k"] == "struct" else [shape["t"]] * shape["n"]
    for (n, klo, kw), kt in zip(sp, kids):
        for g in _groups(kt, klo):
            yield g


def _portmap_canary(t, R, want):
    """A copy of trace t whose port map is corrupted observably: two sibling struct fields of equal width
    (want = "struct") or two elements of a list inside a struct port (want = "list") exchange their
    positions - expressed on the recorded packed value, which is what a swapped / reversed map does to the
    value every leaf is compared with.  None if t has no such port with differing values."""
    cands = []
    for ei, e in enumerate(t["ev"]):
        for lst in ("outc", "outt"):
            for pi, ent in enumerate(e[lst]):
                if ent["ty"]["k"] == "leaf":
                    continue
                for kind, sp in _groups(ent["ty"]):
                    if kind != want:
                        continue
                    for a in range(len(sp)):
                        for b in range(a + 1, len(sp)):
                            if sp[a][2] != sp[b][2]:
                                continue
                            va = ent["v"][sp[a][1]:sp[a][1] + sp[a][2]]
                            vb = ent["v"][sp[b][1]:sp[b][1] + sp[b][2]]
                            if va != vb:
                                cands.append((ei, lst, pi, sp[a], sp[b]))
    if not cands:
        return None
    ei, lst, pi, A, B = R.choice(cands)
    c = copy.deepcopy(_strip(t))
    v = c["ev"][ei][lst][pi]["v"]
    va = v[A[1]:A[1] + A[2]]
    vb = v[B[1]:B[1] + B[2]]
    v[A[1]:A[1] + A[2]] = vb
    v[B[1]:B[1] + B[2]] = va
    return c


def _array_canary(t, R):
    """Two elements p__i / p__j of a flattened port array (yosys) exchange their recorded values."""
    cands = []
    for ei, e in enumerate(t["ev"]):
        for lst in ("outc", "outt"):
            byname = {}
            for pi, ent in enumerate(e[lst]):
                m = re.match(r"(.*)__(\d+)$", ent["n"])
                if m:
                    byname.setdefault(m.group(1), []).append(pi)
            for base, pis in byname.items():
                for x in range(len(pis)):
                    for y in range(x + 1, len(pis)):
                        if e[lst][pis[x]]["v"] != e[lst][pis[y]]["v"] and e[lst][pis[x]]["ty"] == e[lst][pis[y]]["ty"]:
                            cands.append((ei, lst, pis[x], pis[y]))
    if not cands:
        return None
    ei, lst, x, y = R.choice(cands)
    c = copy.deepcopy(_strip(t))
    L = c["ev"][ei][lst]
    L[x]["v"], L[y]["v"] = L[y]["v"], L[x]["v"]
    return c


_SWAP = {"+": "-", "-": "+", "&": "|", "|": "&", "^": "&", "<<": ">>", ">>": "<<", "==": "!=", "!=": "==",
         "<": ">=", ">=": "<", ">": "<=", "<=": ">", "*": "+", "~": "-", "/": "*", "%": "&"}


def _mutate_op(d, R):
    sites = []

    def walk(x):
        if isinstance(x, dict):
            if x.get("k") in ("bin", "un") and x.get("op") in _SWAP:
                sites.append(x)
            for v in x.values():
                walk(v)
        elif isinstance(x, list):
            for v in x:
                walk(v)
    walk(d["comb"])
    walk(d["ff"])
    if not sites:
        return False
    s = R.choice(sites)
    s["op"] = _SWAP[s["op"]]
    return True


def canaries(res, batches, R, n=12, portmap=False):
    """Corrupt recorded PyMTL outputs / emitted operators / (C12) the port map of accepted traces.
    Every output-bit and port-map canary must be rejected; operator canaries are rejected when the
    operator is observable on the recorded vectors (at least one must be)."""
    good = []
    for B in batches:
        for t, (v, info) in zip(B.traces, B.vi):
            if t["mode"] == "run" and v[0] == "ok" and t.get("kind") != "cross" and any(e["outc"] for e in t["ev"]):
                good.append(t)
    if not good:
        raise MachineryError("no accepted trace with outputs to derive canaries from")
    good.sort(key=lambda t: t["tag"])
    R.shuffle(good)
    can, kinds = [], []
    nbit = nop = 0
    for t in good:
        if nbit >= n and nop >= n:
            break
        if t.get("w", 1) * len(t["ev"]) > 40000:
            continue                        # keep the canary run cheap
        if nbit < n:
            c = copy.deepcopy(_strip(t))
            lst = "outc" if nbit % 2 == 0 else "outt"
            evs = [i for i, e in enumerate(c["ev"]) if e[lst]]
            if evs:
                ent = R.choice(c["ev"][R.choice(evs)][lst])
                ent["v"][R.randrange(len(ent["v"]))] ^= 1
                can.append(c)
                kinds.append("output-bit")
                nbit += 1
        if nop < n:
            c = copy.deepcopy(_strip(t))
            if _mutate_op(c["d"], R):
                can.append(c)
                kinds.append("operator")
                nop += 1
    if portmap:
        npm = {"swapped-struct-fields": 0, "reversed-array-index": 0, "exchanged-port-array-elements": 0}
        for t in good:
            if t.get("w", 1) * len(t["ev"]) > 40000:
                continue
            for kd, want in (("swapped-struct-fields", "struct"), ("reversed-array-index", "list")):
                if npm[kd] < 3:
                    c = _portmap_canary(t, R, want)
                    if c is not None:
                        can.append(c)
                        kinds.append(kd)
                        npm[kd] += 1
            if npm["exchanged-port-array-elements"] < 3:
                c = _array_canary(t, R)
                if c is not None:
                    can.append(c)
                    kinds.append("exchanged-port-array-elements")
                    npm["exchanged-port-array-elements"] += 1
        for kd, cnt in npm.items():
            if cnt == 0:
                raise MachineryError("no %s canary could be built (no accepted trace with such a port)" % kd)
    if not can:
        raise MachineryError("no canary could be built")
    t0 = time.time()
    runs, cv = validate(can)
    res.note("wall_canaries_tlc_s", round(time.time() - t0, 1))
    res.note("interpreter_work_units", WORK[0])
    rejected = {}
    for kd, (v, info) in zip(kinds, cv):
        if v[0] == "ok":
            if kd != "operator":
                raise MachineryError("canary (%s) accepted by SVSemTrace" % kd)
            res.count("canaries_operator_not_observable")
        else:
            rejected[kd] = rejected.get(kd, 0) + 1
            res.count("canaries_rejected")
            res.count("canaries_rejected_%s" % kd)
    if not rejected.get("output-bit"):
        raise MachineryError("no output canary")
    if not rejected.get("operator"):
        raise MachineryError("no operator canary was rejected (operator mutations never observable?)")
    return rejected


def check_coverage(res, batches, need_flat=False):
    cov, clauses, ncmp, nflat = {}, {}, 0, 0
    # per-action counts, read off the verdict lines the Finish action prints (l = number of Start / Step
    # transitions taken on that trace).  TLC's -coverage instrumentation cannot be used: it slows the
    # recursive interpreter down by orders of magnitude (a 4-trace run did not finish in 50 minutes).
    for B in batches:
        for t, (v, info) in zip(B.traces, B.vi):
            cov["Finish"] = cov.get("Finish", 0) + 1
            cov["Start"] = cov.get("Start", 0) + 1
            if t["mode"] == "run":
                cov["Step"] = cov.get("Step", 0) + (len(t["ev"]) if v[0] == "ok" else max(0, v[1] - 1))
    for B in batches:
        for c, n in B.clauses.items():
            clauses[c] = clauses.get(c, 0) + n
        ncmp += B.ncmp
        nflat += B.nflat
    res.note("tlc_action_coverage", cov)
    res.note("clause_counts", clauses)
    res.note("leaf_comparisons_through_flatmap_layout", nflat)
    for a in ("Start", "Step", "Finish"):
        if cov.get(a, 0) == 0:
            raise MachineryError("action %s of SVSemTrace never taken (vacuous)" % a)
    if clauses.get("ok", 0) == 0 or clauses.get("OneDriver:ok", 0) == 0:
        raise MachineryError("no trace was accepted / no OneDriver verdict (vacuous)")
    if ncmp == 0:
        raise MachineryError("no output comparison was made (vacuous)")
    if need_flat and nflat == 0:
        raise MachineryError("no comparison went through a multi-leaf FlatMap layout (clause FlatMap vacuous)")
