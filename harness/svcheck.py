"""Batch driver for C03 / C12: prepare designs in worker processes, validate the traces with TLC
(spec/SVSemTrace.tla), turn verdicts into violations."""
import concurrent.futures as cf
import copy
import multiprocessing as mp
import os
import re

import common
import svcorpus
import svharness as H
import tlc
from common import MachineryError


def _prep(args):
    try:
        return svcorpus.prepare(*args)
    except MachineryError as e:
        return {"spec": args[0][:2], "backend": args[1], "status": "machinery", "info": str(e), "traces": []}


def prepare_all(specs, backend, nrand, ncyc, seed_tag, workers=None):
    workers = workers or min(os.cpu_count() or 4, 16)
    args = [(s, backend, nrand, ncyc, seed_tag) for s in specs]
    if len(specs) <= 2:
        return [_prep(a) for a in args]
    ctx = mp.get_context("fork")
    with ctx.Pool(workers) as pool:
        return pool.map(_prep, args, chunksize=max(1, len(args) // (workers * 8)))


def _weight(t):
    return 1 + len(t["ev"]) * max(1, t.get("w", 1))


def validate(traces, timeout=3000):
    """tlc.validate_traces with chunks balanced by design size x cycles."""
    if not traces:
        return [], []
    ncpu = min(os.cpu_count() or 4, 16)
    order = sorted(range(len(traces)), key=lambda i: -_weight(traces[i]))
    total = sum(_weight(t) for t in traces)
    # one JVM costs ~3 CPU-seconds before the first trace; ~4k weight units (AST nodes x cycles) are interpreted per second
    nchunks = max(1, min(len(traces), ncpu, total // 40000 + 1))
    bins = [[] for _ in range(nchunks)]
    load = [0] * nchunks
    for i in order:
        b = load.index(min(load))
        bins[b].append(i)
        load[b] += _weight(traces[i])
    verdicts = [None] * len(traces)
    infos = [None] * len(traces)
    runs = []

    def one(b):
        idx = bins[b]
        if not idx:
            return None
        rs, vs = tlc.validate_traces("SVSemTrace", {"traces": [traces[i] for i in idx]}, chunk=len(idx),
                                     parallel=1, timeout=timeout,
                                     env={"JAVA_TOOL_OPTIONS": "-XX:ParallelGCThreads=2 -XX:CICompilerCount=2"})
        r = rs[0]
        extra = {}
        for p in r.prints:
            if p and p[0] in ("T", "R"):
                extra.setdefault(p[1] - 1, {})[p[0]] = p[2:]
        return idx, r, vs, extra

    with cf.ThreadPoolExecutor(max_workers=ncpu) as ex:
        for res in ex.map(one, range(nchunks)):
            if res is None:
                continue
            idx, r, vs, extra = res
            runs.append(r)
            for j, i in enumerate(idx):
                verdicts[i] = vs[j]
                infos[i] = extra.get(j, {})
    return runs, list(zip(verdicts, infos))


def _strip(t):
    """what goes to TLC"""
    return {"d": t["d"], "mode": t["mode"], "ev": t["ev"]}


def has_signed(flat):
    return any(v["ty"].get("sg") for v in flat["vars"].values())


def _norm(msg):
    return re.sub(r"line \d+: ", "", msg)


class Batch:
    """Results of one corpus run."""

    def __init__(self):
        self.preps = []
        self.results = []     # (prep, trace, err, pos, info)


def run_batch(res, pid, backend, specs, nrand, ncyc, seed_tag, label, keyfn=None):
    """Translate, simulate and validate `specs`.  Adds evidence and violations to `res`.
    Returns the list of (prep, [(trace, err, pos, info)])."""
    preps = prepare_all(specs, backend, nrand, ncyc, seed_tag)
    unsupported = [p for p in preps if p["status"] in ("unsupported", "machinery", "unresolvable") or
                   (p["status"] == "unbuildable" and p["spec"][0] != "repo")]
    if unsupported:
        raise MachineryError("%s: %d design(s) could not be processed by the harness, first: %s %s"
                             % (label, len(unsupported), unsupported[0]["spec"], unsupported[0]["info"]))
    traces, owner = [], []
    for pi, p in enumerate(preps):
        res.count("%s_status_%s" % (label, p["status"]))
        if p["status"] == "syntax":
            res.violation("syntax:%s:%s:%s" % (backend, _norm(p["info"])[:120], p["name"]),
                          "%s back end: emitted text for %s is not valid: %s" % (backend, p["name"], p["info"]),
                          {"spec": list(p["spec"]), "text": p.get("text", "")[-4000:]})
        if p["status"] == "untranslatable" and not p.get("expected_reject", True):
            res.count("%s_unexpected_translation_exception" % label)
            res.sample({"unexpected translation exception": p["info"], "design": p["name"]})
        for t in p["traces"]:
            t["w"] = p.get("nodes", 1)
            traces.append(t)
            owner.append(pi)
    runs, vi = validate([dict(_strip(t), w=t["w"]) for t in traces])
    for r in runs:
        res.add_tlc(r)
    out = [(p, []) for p in preps]
    # second opinion for designs with signed (integer) variables: signedness ignored
    retry = [i for i, (t, (v, info)) in enumerate(zip(traces, vi))
             if t["mode"] == "run" and v[0] != "ok" and has_signed(t["d"])]
    lenient = {}
    if retry:
        rt = []
        for i in retry:
            t = _strip(traces[i])
            t["d"] = dict(t["d"], uns=True)
            t["w"] = traces[i]["w"]
            rt.append(t)
        runs2, vi2 = validate(rt)
        for r in runs2:
            res.add_tlc(r)
        for i, (v, info) in zip(retry, vi2):
            lenient[i] = v
    nprog, nsteps, ndis = 0, 0, 0
    for i, (t, (v, info)) in enumerate(zip(traces, vi)):
        p = preps[owner[i]]
        err, pos = v
        out[owner[i]][1].append((t, err, pos, info))
        name = p["name"]
        if t["mode"] == "drv":
            nprog += 1
            r = info.get("R", (0, 0, 0))
            res.count("%s_undriven_variables" % label, r[2] if len(r) > 2 else 0)
            if err == "multi-driver":
                k = info.get("T", (0,))[0]
                var = t["d"]["varorder"][k - 1] if k else "?"
                res.violation("drivers:%s:%s:%s" % (backend, name, var),
                              "%s back end, design %s: variable %s has more than one driver (%d such variable(s))"
                              % (backend, name, var, r[1] if len(r) > 1 else 1),
                              {"spec": list(p["spec"])[:2]})
            elif err != "ok":
                raise MachineryError("%s: drivers check of %s ended with %s" % (label, name, err))
            continue
        res.add_traces(1)
        nsteps += len(t["ev"])
        ndis += sum(len(e["outc"]) + len(e["outt"]) for e in t["ev"][:max(0, pos - 1) if err != "ok" else None])
        res.distinct((backend, t["tag"]))
        if err == "ok":
            continue
        k = info.get("T", (0,))[0]
        where = ""
        if err.startswith("mismatch") and k:
            e = t["ev"][pos - 1]["outc" if err == "mismatch-comb" else "outt"][k - 1]
            where = e["n"] + "".join("[%d]" % x for x in e["ix"])
        elif err.startswith("port-map") and k:
            e = t["ev"][pos - 1]["in" if "input" in err else "outc"][k - 1]
            where = e["n"]
        if i in lenient and lenient[i][0] == "ok":
            res.violation("signed-loopvar:%s:%s" % (backend, name),
                          "%s back end, design %s: the emitted text differs from the PyMTL simulation (%s at cycle %d "
                          "%s) under IEEE 1800 signedness rules - a size cast N'(integer loop variable) is signed "
                          "(6.24.1), so an index / operand with its top bit set is negative; it agrees when every "
                          "operand is taken as unsigned" % (backend, name, err, pos, where),
                          {"spec": list(p["spec"])[:2], "trace": t["tag"]})
            continue
        key = "behaviour:%s:%s:%s:%s" % (backend, name, err, where)
        if keyfn:
            key = keyfn(p, t, err, where) or key
        res.violation(key,
                      "%s back end, design %s (%s): %s at cycle %d %s"
                      % (backend, name, t["tag"], err, pos, where),
                      {"spec": list(p["spec"])[:2], "event": t["ev"][pos - 1] if 0 < pos <= len(t["ev"]) else None})
    res.count("programs", nprog)
    res.count("disagreements_checked", ndis)
    res.count("cycles_validated", nsteps)
    res.add_evals(nsteps)
    return out, traces, vi


def canaries(res, traces, vi, R, n=12):
    """Corrupt recorded PyMTL outputs / emitted operators of accepted traces; all must be rejected."""
    good = [t for t, (v, info) in zip(traces, vi)
            if t["mode"] == "run" and v[0] == "ok" and any(e["outc"] for e in t["ev"])]
    if not good:
        raise MachineryError("no accepted trace with outputs to derive canaries from")
    R.shuffle(good)
    can = []
    kinds = []
    for t in good:
        if len(can) >= n:
            break
        c = copy.deepcopy(_strip(t))
        c["w"] = t.get("w", 1)
        kind = len(can) % 3
        if kind in (0, 1):
            # one recorded output bit flipped
            evs = [i for i, e in enumerate(c["ev"]) if e["outc"]]
            e = c["ev"][R.choice(evs)]
            lst = e["outc"] if kind == 0 else e["outt"]
            ent = R.choice(lst)
            b = R.randrange(len(ent["v"]))
            ent["v"][b] ^= 1
            can.append(c)
            kinds.append("output-bit")
        else:
            # one operator of the parsed text replaced (only if an output actually depends on it:
            # decided by running it - accepted mutants of this kind are not counted)
            if _mutate_op(c["d"], R):
                can.append(c)
                kinds.append("operator")
    if not can:
        raise MachineryError("no canary could be built")
    runs, cv = validate(can)
    rejected = 0
    for kd, (v, info) in zip(kinds, cv):
        if v[0] == "ok":
            if kd == "output-bit":
                raise MachineryError("canary (recorded output bit flipped) accepted by SVSemTrace")
        else:
            rejected += 1
    if not any(kd == "output-bit" for kd in kinds):
        raise MachineryError("no output canary")
    res.count("canaries_rejected", rejected)
    res.count("canaries_operator_equivalent", len(can) - rejected)
    return rejected


_SWAP = {"+": "-", "-": "+", "&": "|", "|": "&", "^": "&", "<<": ">>", ">>": "<<", "==": "!=", "!=": "==",
         "<": ">=", ">=": "<", ">": "<=", "<=": ">", "*": "+", "~": "-", "/": "*", "%": "&"}


def _mutate_op(d, R):
    sites = []

    def walk(x):
        if isinstance(x, dict):
            if x.get("k") in ("bin", "un") and x.get("op") in _SWAP:
                sites.append(x)
            for v in x.values():
                walk(v)
        elif isinstance(x, list):
            for v in x:
                walk(v)
    walk(d["comb"])
    walk(d["ff"])
    if not sites:
        return False
    s = R.choice(sites)
    s["op"] = _SWAP[s["op"]]
    return True
