"""Driving and observing the real pymtl3 simulator for the kernel properties (C01 C02 C07 C11).

Observation uses no source hook: `sys.setprofile` sees every call/return of the update-block,
net-block and flip functions, whatever tick function (iterative, unrolled, Mamba meta blocks, SCC
wrappers) calls them.
"""
import importlib.util
import itertools
import os
import random as _random
import sys

from common import MachineryError

MODES = ["dyn", "simple", "unroll", "heu", "mamba"]
CYCLE_CAPABLE = {"dyn": True, "mamba": True, "simple": False, "unroll": False, "heu": False, "forced": False}


def write_module(designs, path, order_rng=None):
    import designgen
    with open(path, "w") as f:
        f.write(designgen.module_source(designs, order_rng))


_modcount = [0]


def load_module(path):
    _modcount[0] += 1
    name = "verifgen_%d_%d" % (os.getpid(), _modcount[0])
    spec = importlib.util.spec_from_file_location(name, path)
    mod = importlib.util.module_from_spec(spec)
    sys.modules[name] = mod
    spec.loader.exec_module(mod)
    return mod


def build(mod, design, mode, tie_seed=0, forced=None, ff_perm=None):
    """Instantiate the design and apply a simulation pass group.

    mode: dyn (DefaultPassGroup) | simple (SimpleSimPass) | unroll | heu | mamba | forced
    forced: function(top, legal_blocks, constraints) -> list of blocks, used for mode 'forced'
    Returns (top, None) or (None, exception)."""
    from pymtl3.passes.PassGroups import DefaultPassGroup, SimpleSimPass
    from pymtl3.passes.mamba.PassGroups import HeuTopoUnrollSim, Mamba2020, UnrollSim
    from pymtl3.passes.sim.GenDAGPass import GenDAGPass
    from pymtl3.passes.sim.PrepareSimPass import PrepareSimPass
    from pymtl3.passes.sim.SimpleSchedulePass import SimpleSchedulePass
    from pymtl3.passes.sim.DynamicSchedulePass import DynamicSchedulePass
    from pymtl3.passes.sim.WrapGreenletPass import WrapGreenletPass
    try:
        # (a generated design is legal by construction: an elaboration error is recorded like a scheduling
        #  error - the specification expects the design to be schedulable - and not a crash of the harness)
        top = getattr(mod, design.cls_name(()))()
        top.elaborate()
    except Exception as e:      # noqa: BLE001
        return None, e
    _random.seed(tie_seed)
    try:
        if mode == "dyn" and ff_perm is None:
            top.apply(DefaultPassGroup())
        elif mode == "simple" and ff_perm is None:
            top.apply(SimpleSimPass())
        elif mode == "unroll":
            top.apply(UnrollSim(print_line_trace=False))
        elif mode == "heu":
            top.apply(HeuTopoUnrollSim(print_line_trace=False))
        elif mode == "mamba":
            top.apply(Mamba2020(print_line_trace=False))
        else:
            GenDAGPass()(top)
            WrapGreenletPass()(top)
            if mode == "dyn":
                DynamicSchedulePass()(top)
            else:
                SimpleSchedulePass()(top)
            if forced is not None:
                top._sched.update_schedule = forced(top)
            if ff_perm is not None:
                ffs = sorted(top._sched.schedule_ff, key=lambda f: f.__name__)
                top._sched.schedule_ff = [ffs[i] for i in ff_perm]
            PrepareSimPass(print_line_trace=False)(top)
    except Exception as e:  # noqa: BLE001
        return None, e
    return top, None


def linear_extensions(top, limit, rng):
    """Linear extensions of pymtl3's OWN constraint set over its comb blocks (what pymtl3 considers
    a legal schedule).  All of them if there are at most `limit`, else `limit` random ones."""
    V = sorted(top._dag.final_upblks - top.get_all_update_ff(), key=lambda f: _blk_name(top, f))
    E = {(u, v) for (u, v) in top._dag.all_constraints if u in V and v in V}
    pred = {v: {u for (u, w) in E if w == v} for v in V}
    out = []

    def rec(done, order):
        if len(out) > limit:
            return
        if len(order) == len(V):
            out.append(list(order))
            return
        for v in V:
            if v not in done and pred[v] <= done:
                done.add(v)
                order.append(v)
                rec(done, order)
                order.pop()
                done.discard(v)
    rec(set(), [])
    if len(out) <= limit:
        return out, True
    res = []
    for _ in range(limit):
        done, order = set(), []
        while len(order) < len(V):
            ready = [v for v in V if v not in done and pred[v] <= done]
            v = rng.choice(ready)
            done.add(v)
            order.append(v)
        res.append(order)
    return res, False


def _blk_name(top, blk):
    """spec-side name of a pymtl3 block: user blocks by function name, net blocks by writer and
    readers as reported by the generated block's metadata."""
    dag = top._dag
    if blk in dag.genblks:
        rd = dag.genblk_reads.get(blk)
        w = repr(rd[0]) if rd else "const"
        return "net:" + w + "->" + ",".join(sorted(repr(x) for x in dag.genblk_writes[blk]))
    return blk.__name__


class Recorder:
    def __init__(self, top, design, dj):
        self.top, self.design, self.dj = top, design, dj
        self.name2idx = {s["name"]: i + 1 for i, s in enumerate(dj["steps"])}
        self.kind = {i + 1: s["kind"] for i, s in enumerate(dj["steps"])}
        self.code2idx = {}
        self.ignored = set()
        blocks = set(top._dag.final_upblks) | set(top.get_all_update_ff())
        self.blocks = {}
        for blk in blocks:
            nm = _blk_name(top, blk)
            if nm.startswith("net:") and self._is_clk_reset(nm):
                self.ignored.add(id(blk.__code__))
                continue
            idx = self.name2idx.get(nm, 0)
            self.code2idx[id(blk.__code__)] = idx      # by identity: equal code objects of two generated blocks compare equal
            self.blocks[idx] = blk
            if idx == 0:
                self.unknown = nm
        self.paths = []
        for s in design.sigs:
            ix = s.arr[1] if s.arr else None
            if s.arr and len(s.arr) > 3:
                j, t = s.arr[1], []
                for dd in reversed(s.arr[3]):
                    t.append(j % dd)
                    j //= dd
                ix = tuple(reversed(t))
            self.paths.append((s.comp, s.arr[0] if s.arr else s.name, ix))
        self.events = []
        self.in_ff = False

    @staticmethod
    def _is_clk_reset(nm):
        w = nm[4:].split("->")[0]
        return w.endswith(".clk") or w.endswith(".reset")

    def snapshot(self):
        out = []
        top = self.top
        for comp, name, i in self.paths:
            o = top
            for c in comp:
                o = getattr(o, c)
            v = getattr(o, name)
            if i is not None:
                if isinstance(i, tuple):        # element of an n-dimensional list
                    for j in i:
                        v = v[j]
                else:
                    v = v[i]
            out.append(int(v.to_bits()) if hasattr(v, "to_bits") else int(v))
        return out

    def _prof(self, frame, event, arg):
        if event != "return":
            return
        code = frame.f_code
        idx = self.code2idx.get(id(code))
        if idx is not None:
            k = "ff" if self.kind.get(idx) == "ff" else "step"
            self.events.append({"k": k, "b": idx, "st": self.snapshot()})
        elif code.co_name in ("double_buffer", "no_double_buffer"):
            self.events.append({"k": "flip", "st": self.snapshot()})

    def call(self, fn, begin, end):
        """run fn() under the profiler, bracketed by begin / end events."""
        from pymtl3.dsl.errors import UpblkCyclicError
        import signal

        class _Hang(BaseException):
            pass

        def _alarm(signum, frame):
            raise _Hang()
        self.events.append({"k": begin})
        old = signal.signal(signal.SIGALRM, _alarm)
        signal.setitimer(signal.ITIMER_REAL, float(os.environ.get("VERIF_WATCHDOG_S", "60")))
        sys.setprofile(self._prof)
        try:
            fn()
        except _Hang:
            sys.setprofile(None)
            self.events = self.events[:400]     # the spec only needs to see the hang
            self.events.append({"k": "hang"})
            return False
        except UpblkCyclicError:
            sys.setprofile(None)
            self.events.append({"k": "raised", "cls": "UpblkCyclicError"})
            return False
        except Exception as e:  # noqa: BLE001
            sys.setprofile(None)
            self.events.append({"k": "raised", "cls": type(e).__name__})
            return False
        finally:
            sys.setprofile(None)
            signal.setitimer(signal.ITIMER_REAL, 0)
            signal.signal(signal.SIGALRM, old)
        self.events.append({"k": end, "st": self.snapshot()})
        return True

    def poke(self, sidx, value):
        s = self.design.sigs[sidx]
        port = getattr(self.top, s.name)
        if isinstance(s.ty, int):
            port @= value
        else:
            from pymtl3 import Bits
            T = port.__class__
            port @= T.from_bits(Bits(s.w, value))
        self.events.append({"k": "poke", "s": sidx + 1, "v": value})

    def recheck(self):
        """C01: re-running any update block after evaluation changes nothing."""
        for idx in sorted(self.blocks):
            if idx == 0 or self.kind.get(idx) == "ff":
                continue
            self.blocks[idx]()
            self.events.append({"k": "recheck", "b": idx, "st": self.snapshot()})


def run_stimulus(top, design, dj, stim, recheck=True):
    """stim: list of cycles; each cycle = dict(sig idx -> value) to poke, then eval, then tick."""
    rec = Recorder(top, design, dj)
    rec.events.append({"k": "init", "st": rec.snapshot()})
    for cyc in stim:
        for sidx, v in sorted(cyc.items()):
            rec.poke(sidx, v)
        if not rec.call(top.sim_eval_combinational, "beval", "eeval"):
            break
        if recheck:
            rec.recheck()
        if not rec.call(top.sim_tick, "btick", "etick"):
            break
        if recheck:
            rec.recheck()
    return rec.events


def input_sigs(design):
    return [s for s in design.sigs if s.kind == "in" and not s.comp]


def make_stimulus(design, rng, cycles, exhaustive_bits=6):
    ins = input_sigs(design)
    total = sum(s.w for s in ins)
    stim = []
    if total <= exhaustive_bits and cycles >= (1 << total):
        vals = list(range(1 << total))
        rng.shuffle(vals)
        seq = vals + [rng.randrange(1 << total) for _ in range(cycles - len(vals))]
    else:
        seq = [rng.getrandbits(total) if total else 0 for _ in range(cycles)]
        # boundary patterns
        if cycles >= 3 and total:
            seq[0], seq[1] = 0, (1 << total) - 1
    for x in seq:
        cyc = {}
        for s in ins:
            cyc[s.idx] = x & ((1 << s.w) - 1)
            x >>= s.w
        stim.append(cyc)
    return stim
