"""C15 helper: build / replace / project / sweep / simulate for the replace_component check.

Everything here talks to the real pymtl3 objects only through the public getters named in the
property (get_all_components, get_all_object_filter, get_all_value_nets, get_all_method_nets,
get_signal_adjacency_dict, get_all_update_blocks, get_all_upblk_metadata, get_all_update_ff,
get_all_update_once, get_all_explicit_constraints, get_update_block_host_component,
get_connect_order); the signal and method-port sets are get_all_object_filter(isinstance ...).  The
only container read directly is `_dsl.all_upblk_hostobj` (its getter answers one block at a time).

Projection = names only ("up to object identity"), but identity-aware in one respect: a name is
only reported plain when walking that name from the top reaches this very object.  An object whose
name now denotes a different object is reported as "<stale>name"; pymtl3 itself renames removed
signals / method ports to "<deleted>name".  Every field is a sorted list WITH duplicates, so two
objects projecting to the same entry are visible.

Family (c15_designs.FAMILIES) = one harness hierarchy with (possibly nested) positions and a palette
per position; Family.step mirrors NextCfg / NextArg of Replace.tla (replace_component on a hosting
position re-uses the constructor arguments of the removed object).  Simulation (simulate /
compare_sim): DefaultPassGroup, Mamba2020, SimpleSimPass; a row per cycle with the top-level outputs
and the value of every signal of the design built from scratch (looked up by name in the mutated
design), so that registers that do not commit are observed through behaviour only.
"""
import collections
import re
import types

FIELDS = ["comps", "sigs", "mports", "named", "consts", "funcs", "sinfo", "minfo", "phs",
          "conn", "adj", "nets", "mnets", "blks", "hosted", "rdk", "wrk", "ck", "rd", "wr", "calls",
          "ff", "once", "uu", "rdu", "wru", "mc"]
# fields of the specification's state (Replace.tla: Input.fields); `ifcs` is observed through `named`
PRIMARY = ["comps", "sigs", "mports", "ifcs", "consts", "funcs", "sinfo", "minfo", "phs", "conn",
           "blks", "rd", "wr", "calls", "ff", "once", "uu", "rdu", "wru", "mc"]
GLOBAL_FIELDS = ("nets", "mnets")       # not decomposable by owner

# human vocabulary for violation keys (one per container of the anchors)
FIELD_WORD = {
    "comps": "component-name", "sigs": "signal-name", "mports": "method-port-name",
    "named": "named-object", "conn": "connect-order-entry", "adj": "adjacency-edge", "nets": "value-net",
    "mnets": "method-net", "blks": "update-block", "hosted": "upblk-hostobj-entry",
    "rdk": "upblk-reads-key", "wrk": "upblk-writes-key", "ck": "upblk-calls-key",
    "rd": "upblk-read", "wr": "upblk-write", "calls": "upblk-call", "ff": "update-ff",
    "once": "update-once", "uu": "U-U-constraint", "rdu": "RD-U-constraint", "wru": "WR-U-constraint",
    "mc": "M-constraint", "consts": "adjacency-const", "funcs": "function-name", "sinfo": "signal-info",
    "minfo": "method-port-info", "phs": "placeholder-set", "clevel": "component-level",
}
KIND_FIELDS = ("named", "calls", "adj", "conn", "sigs", "rdu", "wru", "mc", "rd", "wr")
_SLICE = re.compile(r"\[\d+:\d+\]$")
# _dsl container  ->  projected field (used to fold a reachability finding into the metadata finding
# of the same container)
CONTAINER_FIELD = {
    "all_components": "comps", "all_signals": "sigs", "all_method_ports": "mports",
    "all_named_objects": "named", "all_adjacency": "adj", "all_value_nets": "nets",
    "all_method_nets": "mnets", "all_upblks": "blks", "all_upblk_hostobj": "hosted",
    "all_upblk_reads": "rd", "all_upblk_writes": "wr", "all_upblk_calls": "calls",
    "all_update_ff": "ff", "all_update_once": "once", "all_U_U_constraints": "uu",
    "all_RD_U_constraints": "rdu", "all_WR_U_constraints": "wru", "all_M_constraints": "mc",
    "connect_order": "conn", "upblk_reads": "rd", "upblk_writes": "wr", "upblk_calls": "calls",
    "adjacency": "adj",
}


class _NS:
    pass


_D = None


def _dsl():
    """the pymtl3 classes used here (imported lazily from $VERIF_REPO)"""
    global _D
    if _D is None:
        import pymtl3.dsl as d
        from pymtl3.dsl.NamedObject import NamedObject
        ns = _NS()
        for k in ("Component", "Const", "Signal", "InPort", "OutPort", "Wire", "Interface", "MethodPort",
                  "CalleePort", "CallerPort", "Placeholder"):
            setattr(ns, k, getattr(d, k))
        ns.NamedObject = NamedObject
        _D = ns
    return _D


# --------------------------------------------------------------------------------------
# families
# --------------------------------------------------------------------------------------

class Family:
    """one harness hierarchy: positions (possibly nested), a palette per position"""
    def __init__(self, name):
        import c15_designs as D
        d = D.FAMILIES[name]
        self.name = name
        self.top_cls = d["top"]
        self.positions = list(d["positions"])
        self.classes = dict(d["classes"])             # class name -> class
        self.palof = {p: list(d["palof"][p]) for p in self.positions}
        self.below = {p: list(d["below"].get(p, [])) for p in self.positions}
        self.nested = [q for p in self.positions for q in self.below[p]]
        self.hosts = [p for p in self.positions if self.below[p]]
        self.leaves = [p for p in self.positions if not self.below[p]]
        self.make = d["make"]
        self.driver = d["driver"]
        self.pass_groups = tuple(d["pass_groups"])
        self.palette = self.classes                   # every class of the family (name -> class)
        self.placeholders = {k for k, c in self.classes.items() if issubclass(c, _dsl().Placeholder)}
        self.base = {p: self.palof[p][0] for p in self.positions}
        # longest first so that "m.g" wins over "m"
        self._bases = sorted((("s." + p, p) for p in self.positions), key=lambda t: -len(t[0]))

    def build(self, cfg):
        top = self.top_cls(dict(cfg))
        top.elaborate()
        return top

    def new_obj(self, pos, cls, cfg):
        """an object built by the caller (replace_component_with_obj); a hosting class is given the
        classes that sit below it in cfg"""
        return self.make(pos, cls, cfg)

    def uniform(self, leaf_cls=None, host_cls=None):
        """configuration with one leaf class everywhere (hosting positions: their base class)"""
        g = dict(self.base)
        for p in self.positions:
            if leaf_cls is not None and leaf_cls in self.palof[p]:
                g[p] = leaf_cls
            if host_cls is not None and host_cls in self.palof[p]:
                g[p] = host_cls
        return g

    def random_cfg(self, R):
        return {p: R.choice(self.palof[p]) for p in self.positions}

    def moves(self, positions=None, palette=None):
        """(position, class) pairs of one step"""
        return [(p, c) for p in (positions or self.positions) for c in self.palof[p]
                if palette is None or c in palette]

    # ---- the configuration after a step (mirrors NextCfg / NextArg of Replace.tla)
    def step(self, cfg, arg, kind, pos, cls):
        g, a = dict(cfg), dict(arg)
        g[pos] = cls
        if kind == "Replace":
            for q in self.below[pos]:
                g[q] = arg[q]
        else:
            for q in self.below[pos]:
                a[q] = cfg[q]
        return g, a

    def init_arg(self, cfg):
        return {q: cfg[q] for q in self.nested}

    def final_cfg(self, init, steps):
        g, a = dict(init), self.init_arg(init)
        for (k, p, c) in steps:
            g, a = self.step(g, a, k, p, c)
        return g

    # ---- name -> (position tag, suffix)
    def split_name(self, raw):
        if raw.startswith("<"):
            return ["?", raw]
        for base, p in self._bases:
            if raw == base:
                return [p, ""]
            if raw.startswith(base) and raw[len(base)] in ".:":
                return [p, raw[len(base):]]
        return ["", raw]


_FAM = {}


def family(name):
    if name not in _FAM:
        _FAM[name] = Family(name)
    return _FAM[name]


# --------------------------------------------------------------------------------------
# safe name resolution (never creates slices / struct fields as a side effect)
# --------------------------------------------------------------------------------------

_TOK = re.compile(r"\.?([A-Za-z_][A-Za-z0-9_]*)|\[(\d+):(\d+)\]|\[(\d+)\]")


def resolve(top, name):
    if not name.startswith("s"):
        return None
    obj, i, n = top, 1, len(name)
    while i < n:
        m = _TOK.match(name, i)
        if not m or m.end() == i:
            return None
        i = m.end()
        if m.group(1) is not None:
            d = getattr(obj, "__dict__", None)
            if d is None or m.group(1) not in d:
                return None
            obj = d[m.group(1)]
        elif m.group(2) is not None:
            d = getattr(obj, "__dict__", None)
            k = (int(m.group(2)), int(m.group(3)))
            if d is None or k not in d:
                return None
            obj = d[k]
        else:
            k = int(m.group(4))
            if not isinstance(obj, list) or k >= len(obj):
                return None
            obj = obj[k]
    return obj


def component_at(top, pos):
    o = resolve(top, "s." + pos)
    if o is None:
        raise KeyError("no component at position %s" % pos)
    return o


# --------------------------------------------------------------------------------------
# projection
# --------------------------------------------------------------------------------------

class Projector:
    def __init__(self, top):
        self.top = top
        self.d = _dsl()
        self._names = {}
        self.kinds = {}                 # projected name -> kind of object
        adj = top.get_signal_adjacency_dict()
        self._const_nb = {}
        for k, vs in adj.items():
            if isinstance(k, self.d.Const):
                self._const_nb[id(k)] = sorted(self.name(v) for v in vs)

    def kind(self, o):
        D = self.d
        if isinstance(o, D.Const):
            return "Const"
        if isinstance(o, D.Component):
            return "Component"
        if isinstance(o, D.Signal):
            return "Signal"
        if isinstance(o, D.MethodPort):
            return "MethodPort"
        if isinstance(o, D.Interface):
            return "Interface"
        if isinstance(o, (types.FunctionType, types.MethodType)):
            return "Block"
        return type(o).__name__

    def name(self, o):
        k = id(o)
        r = self._names.get(k)
        if r is not None:
            return r
        D = self.d
        if isinstance(o, D.Const):
            host = getattr(o._dsl, "parent_obj", None)
            r = "const:%r@%s->%s" % (o, self.name(host) if host is not None else "<nohost>",
                                     ",".join(self._const_nb.get(k, ["<unconnected>"])))
        elif isinstance(o, D.NamedObject):
            r = repr(o)
            if not r.startswith("<") and resolve(self.top, r) is not o:
                r = "<stale>" + r
        elif isinstance(o, (types.FunctionType, types.MethodType)):
            r = self.func(o)
        else:
            r = "<obj %s>" % type(o).__name__
        self._names[k] = r
        self.kinds[r] = self.kind(o)
        return r

    def func(self, f):
        """update block / @s.func function: host name :: function name"""
        host = self.top._dsl.all_upblk_hostobj.get(f) if isinstance(f, types.FunctionType) else None
        if host is None:
            host = getattr(f, "__self__", None)
        if host is None and getattr(f, "__closure__", None):
            for var, cell in zip(f.__code__.co_freevars, f.__closure__):
                if var == "s":
                    try:
                        host = cell.cell_contents
                    except ValueError:
                        pass
        hn = self.name(host) if isinstance(host, self.d.NamedObject) else "<nohost>"
        return "%s::%s" % (hn, f.__name__)

    def host_of(self, x):
        """host component without touching the _dsl.host cache"""
        D = self.d
        o = x
        try:
            while not isinstance(o, D.Component):
                o = o._dsl.parent_obj
        except AttributeError:
            return "<nohost>"
        return self.name(o)

    def project(self):
        top, nm, D = self.top, self.name, self.d
        ds = top._dsl
        P = {}
        comps = top.get_all_components()
        P["comps"] = [nm(c) for c in comps]
        named = top.get_all_object_filter(lambda x: True)
        sigs = [x for x in named if isinstance(x, D.Signal)]
        mports = [x for x in named if isinstance(x, D.MethodPort)]
        P["sigs"] = [nm(x) for x in sigs]
        P["mports"] = [nm(x) for x in mports]
        P["named"] = [nm(x) for x in named]
        adj = top.get_signal_adjacency_dict()
        P["consts"] = [nm(k) for k in adj if isinstance(k, D.Const) and adj[k]]
        P["funcs"] = [nm(f) for c in comps for f in c._dsl.name_func.values()]
        sinfo = []
        for x in sigs:
            kind = "#in" if isinstance(x, D.InPort) else "#out" if isinstance(x, D.OutPort) else "#wire"
            par = getattr(x._dsl, "parent_obj", None)
            sl = x._dsl.slice
            sinfo.append([nm(x), kind, self.host_of(x), nm(par) if isinstance(par, D.Signal) else "#-",
                          "#%d:%d" % (sl.start, sl.stop) if sl is not None else "#-"])
        P["sinfo"] = sinfo
        minfo = []
        for x in mports:
            if isinstance(x, D.CallerPort):
                role = "#caller"
            else:
                role = "#callee-impl" if getattr(x, "method", None) is not None else "#callee"
            minfo.append([nm(x), role, self.host_of(x)])
        P["minfo"] = minfo
        P["phs"] = [nm(c) for c in comps if isinstance(c, D.Placeholder)]
        # hierarchy level of every component (public getter); compared mutated-vs-fresh only
        P["clevel"] = [[nm(c), "#L%d" % c.get_component_level()] for c in comps]
        conn = []
        for c in comps:
            for (a, b) in c.get_connect_order():
                conn.append([nm(c)] + sorted([nm(a), nm(b)]))
        P["conn"] = conn
        P["adj"] = [[nm(k), nm(v)] for k, vs in adj.items() for v in vs]
        P["nets"] = [[nm(w) if w is not None else "#<none>"] + sorted(nm(x) for x in net)
                     for (w, net) in top.get_all_value_nets()]
        P["mnets"] = [[nm(w) if w is not None else "#<none>"] + sorted(nm(x) for x in net)
                      for (w, net) in top.get_all_method_nets()]
        P["blks"] = [nm(b) for b in top.get_all_update_blocks()]
        P["hosted"] = [nm(b) for b in ds.all_upblk_hostobj]
        rd, wr, calls = top.get_all_upblk_metadata()
        P["rdk"] = [nm(b) for b in rd]
        P["wrk"] = [nm(b) for b in wr]
        P["ck"] = [nm(b) for b in calls]
        P["rd"] = [[nm(b), nm(x)] for b, xs in rd.items() for x in xs]
        P["wr"] = [[nm(b), nm(x)] for b, xs in wr.items() for x in xs]
        P["calls"] = [[nm(b), nm(x)] for b, xs in calls.items() for x in xs]
        P["ff"] = [nm(b) for b in top.get_all_update_ff()]
        P["once"] = [nm(b) for b in top.get_all_update_once()]
        uu, rdu, wru, mc = top.get_all_explicit_constraints()
        P["uu"] = [[nm(a), nm(b)] for (a, b) in uu]
        P["rdu"] = [[nm(b), "#lt" if sg == 1 else "#gt", nm(x)] for x, cs in rdu.items() for (sg, b) in cs]
        P["wru"] = [[nm(b), "#lt" if sg == 1 else "#gt", nm(x)] for x, cs in wru.items() for (sg, b) in cs]
        P["mc"] = [[nm(a), nm(b), "#eq" if e else "#lt"] for (a, b, e) in mc]
        for k in P:
            P[k] = sorted(P[k], key=lambda e: e if isinstance(e, list) else [e])
        return P


def project(top):
    """(projection, kinds): field -> sorted list of entries; projected name -> kind of object"""
    pj = Projector(top)
    P = pj.project()
    return P, pj.kinds


def entry_key(e):
    return "|".join(e) if isinstance(e, list) else e


def duplicates(P):
    """field -> entries occurring more than once"""
    out = {}
    for f, es in P.items():
        c = collections.Counter(entry_key(e) for e in es)
        d = sorted(k for k, n in c.items() if n > 1)
        if d:
            out[f] = d
    return out


def diff(P, Q):
    """(stale, missing): field -> entries (lists) of P not in Q / of Q not in P, compared as sets"""
    stale, missing = {}, {}
    for f in FIELDS:
        a = {entry_key(e): e for e in P.get(f, [])}
        b = {entry_key(e): e for e in Q.get(f, [])}
        if a.keys() - b.keys():
            stale[f] = [a[k] if isinstance(a[k], list) else [a[k]] for k in sorted(a.keys() - b.keys())]
        if b.keys() - a.keys():
            missing[f] = [b[k] if isinstance(b[k], list) else [b[k]] for k in sorted(b.keys() - a.keys())]
    return stale, missing


def _strip(x):
    while x.startswith("<stale>") or x.startswith("<deleted>"):
        x = x[x.index(">") + 1:]
    return x.replace("<stale>", "").replace("<deleted>", "")


def _marked(x):
    return "<stale>" in x or "<deleted>" in x or "<nohost>" in x


def _prefixes(name):
    """proper prefixes of a dotted / indexed name, longest first"""
    out = []
    for i in range(len(name) - 1, 0, -1):
        if name[i] in ".[" :
            out.append(name[:i])
    return out


def _levels_above(blk_host, obj, comps):
    """how many component levels the host of a block is above the component that owns obj (0 = the
    block's own component, 1 = its parent, ...); None when obj is not below the block's host"""
    own = next((p for p in _prefixes(obj) if p in comps), None)
    n = 0
    while own is not None:
        if own == blk_host:
            return n
        own = next((p for p in _prefixes(own) if p in comps), None)
        n += 1
    return None


def classify(stale, missing, dup, kinds_new, kinds_fresh):
    """Root-cause view of a metadata difference.

    Returns a list of findings (category, field, kind, entries) where category is one of
      stale            entry that a design built from scratch does not have
      missing          entry of the design built from scratch that is absent
      old-object-kept  entry that still refers to the removed object where the design built from
                       scratch refers to the object now carrying that name
      dup              two objects project to the same (legitimate) entry
    Differences of derived views are dropped when the view they are derived from already differs
    (named <- comps/sigs/mports, key sets <- blks, adj <- conn, consts <- adj, nets <- adj/sigs/wr,
    sinfo/minfo <- sigs/mports), so that one defect is reported under one key.
    """
    st = {f: [list(e) for e in es] for f, es in stale.items()}
    mi = {f: [list(e) for e in es] for f, es in missing.items()}
    anyd = lambda fs: any(st.get(f) or mi.get(f) for f in fs)  # noqa: E731
    pre_nets = anyd(["adj", "conn", "sigs", "wr", "sinfo", "phs", "consts"])
    pre_mnets = anyd(["adj", "conn", "mports", "minfo", "phs"])

    def names_in(fields, which):
        out = set()
        for f in fields:
            for e in which.get(f, []):
                out.update(e)
        return out

    for which in (st, mi):
        base = names_in(["comps", "sigs", "mports"], which)
        if "named" in which:
            which["named"] = [e for e in which["named"] if e[0] not in base]
        blk = names_in(["blks"], which)
        for f in ("hosted", "rdk", "wrk", "ck"):
            if f in which:
                which[f] = [e for e in which[f] if e[0] not in blk]
        pairs = {frozenset(e[1:]) for e in which.get("conn", [])}
        adjnames = names_in(["adj"], which)
        if "adj" in which:
            which["adj"] = [e for e in which["adj"] if frozenset(e) not in pairs]
        if "consts" in which:
            which["consts"] = [e for e in which["consts"] if e[0] not in adjnames]
        sg = names_in(["sigs"], which)
        mp = names_in(["mports"], which)
        cp = names_in(["comps"], which)
        if "sinfo" in which:
            which["sinfo"] = [e for e in which["sinfo"] if e[0] not in sg]
        if "minfo" in which:
            which["minfo"] = [e for e in which["minfo"] if e[0] not in mp]
        if "phs" in which:
            which["phs"] = [e for e in which["phs"] if e[0] not in cp]
        if pre_nets:
            which.pop("nets", None)
        if pre_mnets:
            which.pop("mnets", None)

    comps = {n for ks in (kinds_new, kinds_fresh) for n, k in ks.items() if k == "Component"}
    comps = {_strip(n) for n in comps}

    def kind_of(f, e, kinds):
        if f not in KIND_FIELDS:
            return None
        if f == "sigs":          # a slice object exists only once something mentions it
            return "slice" if _SLICE.search(e[0]) else None
        if f in ("rdu", "wru"):  # who declared the constraint: the signal's own component or one above it
            host, sig = _strip(e[0]).split("::")[0], _strip(e[2])
            own = sig.startswith(host + ".") and "." not in sig[len(host) + 1:]
            return None if own else "ancestor-block"
        if f == "mc":            # M-U / U-M constraint: the same question for the method port
            blk = [_strip(y).split("::")[0] for y in e[:2] if "::" in y]
            mth = [_strip(y) for y in e[:2] if "::" not in y]
            if not blk or not mth:
                return None
            own = mth[0].startswith(blk[0] + ".") and "." not in mth[0][len(blk[0]) + 1:]
            return None if own else "ancestor-block"
        if f in ("rd", "wr", "calls"):      # block of the parent / of a component further up / own block
            up = _levels_above(_strip(e[0]).split("::")[0], _strip(e[1]), comps)
            k0 = kinds.get(e[1], "?") if f == "calls" else None
            if up is not None and up >= 2:
                return (k0 + "/grandparent-block") if k0 else "grandparent-block"
            return k0
        if f == "named":
            x = e[0]
        elif f == "adj":
            x = e[0]
        else:
            m = [y for y in e[1:] if _marked(y)]
            x = m[0] if m else e[1]
        return kinds.get(x, "?")

    out = collections.OrderedDict()

    def add(cat, f, kind, e):
        out.setdefault((cat, f, kind), []).append(entry_key(e))

    for f in FIELDS:
        miss_keys = {entry_key(e): e for e in mi.get(f, [])}
        used = set()
        for e in st.get(f, []):
            k2 = entry_key([_strip(x) for x in e])
            if any(_marked(x) for x in e) and k2 in miss_keys:
                used.add(k2)
                add("old-object-kept", f, kind_of(f, e, kinds_new), e)
            else:
                add("stale", f, kind_of(f, e, kinds_new), e)
        for k2, e in miss_keys.items():
            if k2 not in used:
                add("missing", f, kind_of(f, e, kinds_fresh), e)
        for k in dup.get(f, []):
            if not _marked(k):
                add("dup", f, None, [k])
    return [(c, f, k, es) for (c, f, k), es in out.items()]


def finding_key(cat, field, kind):
    return "%s-%s%s" % (cat, FIELD_WORD[field], (":" + kind) if kind else "")


# --------------------------------------------------------------------------------------
# tagged form for TLC:  every name becomes [position tag, suffix]
# --------------------------------------------------------------------------------------

def _mangle(full):
    return full.replace(".", "_").replace("[", "_").replace("]", "_").replace(":", "_")


class Tagger:
    """raw projection -> entries whose elements are [tag, text] pairs.

    tag "" = harness, a position name = below that position, "#" = scalar, "?" = deleted / stale
    object.  Lambda block names embed the mangled full name of the signal; below a position the
    mangled position prefix is replaced by '$' so that the local name is position independent.
    """
    def __init__(self, fam):
        self.fam = fam
        self._cache = {}

    def name(self, raw):
        r = self._cache.get(raw)
        if r is None:
            r = self._cache[raw] = self._name(raw)
        return r

    def _name(self, raw):
        fam = self.fam
        if raw.startswith("#"):
            return ["#", raw[1:]]
        if "<" in raw:
            return ["?", raw]
        if raw.startswith("const:"):
            m = re.match(r"const:(.*?)@(.*?)->(.*)$", raw)
            val, host, tgt = m.group(1), m.group(2), m.group(3)
            ht = fam.split_name(host)
            tg = []
            for t in tgt.split(","):
                tt = fam.split_name(t)
                tg.append(tt[1] if tt[0] == ht[0] else "%s|%s" % (tt[0], tt[1]))
            return [ht[0], "const:%s@%s->%s" % (val, ht[1], ",".join(tg))]
        if "::" in raw:
            host, fn = raw.split("::", 1)
            ht = fam.split_name(host)
            if ht[0] != "" and fn.startswith("_lambda__"):
                pre = "_lambda__" + _mangle("s." + ht[0])
                if fn.startswith(pre):
                    fn = "_lambda__$" + fn[len(pre):]
            return [ht[0], ht[1] + "::" + fn]
        return fam.split_name(raw)

    def tag(self, P):
        T = {}
        for f, es in P.items():
            T[f] = [[self.name(x) for x in e] if isinstance(e, list) else [self.name(e)] for e in es]
        return T


def relativise(e, p):
    return [["$", x[1]] if x[0] == p else x for x in e]


def split_parts(T, positions):
    """tagged projection -> {owner tag: {field: [entries, own tag written '$']}}; the owner of an
    entry is the tag of its first element; nets / mnets are kept whole under the key '*'."""
    parts = {"": {}, "?": {}, "*": {}}
    for p in positions:
        parts[p] = {}
    for f, es in T.items():
        if f in GLOBAL_FIELDS:
            parts["*"][f] = es
            continue
        for e in es:
            t = e[0][0]
            if f == "mc":                   # M(port) < U(block): declared where the block lives
                blk = [x for x in e if "::" in x[1]]
                if blk and not any(x[0] == "?" for x in e):
                    t = blk[0][0]
            if t not in parts or t == "*":
                t = "?"
            parts[t].setdefault(f, []).append(relativise(e, t) if t not in ("", "?") else e)
    return parts


# --------------------------------------------------------------------------------------
# replace + bookkeeping of removed objects
# --------------------------------------------------------------------------------------

def collect_removed(comp):
    """every object belonging to the component that is about to be removed: (object, description)"""
    D = _dsl()
    out = []
    for o in comp._collect_all_single():
        out.append((o, "%s %s" % (type(o).__name__, repr(o))))
        if isinstance(o, D.Component):
            for b in o._dsl.upblks:
                out.append((b, "update block %s::%s" % (repr(o), b.__name__)))
            for f in o._dsl.name_func.values():
                out.append((f, "function %s::%s" % (repr(o), f.__name__)))
            for c in o._dsl.consts:
                out.append((c, "Const %r of %s" % (c, repr(o))))
    return out


def apply_step(fam, top, kind, pos, cls, cfg=None, obj=None, removed_out=None):
    """one API call on the real design; cfg = configuration before the step (needed to build the
    object of replace_component_with_obj for a hosting position); obj = an object built beforehand;
    removed_out: list that receives the objects of the removed component even if the call raises"""
    comp = component_at(top, pos)
    removed = collect_removed(comp)
    if removed_out is not None:
        removed_out.extend(removed)
    if kind == "Replace":
        top.replace_component(comp, fam.classes[cls])
    else:
        if obj is None:
            obj = fam.new_obj(pos, cls, cfg if cfg is not None else fam.base)
        top.replace_component_with_obj(comp, obj)
    return removed


# --------------------------------------------------------------------------------------
# reachability sweep
# --------------------------------------------------------------------------------------

_LEAF = (str, bytes, int, float, bool, type(None), types.FunctionType, types.MethodType,
         types.BuiltinFunctionType, type, types.ModuleType, types.CodeType)


def sweep(top, removed):
    """Walk __dict__ / _dsl containers from top.  Returns [(path, description)] for every removed
    object that is still reachable (first path found, breadth first)."""
    D = _dsl()
    from pymtl3.datatypes import Bits
    want = {id(o): d for (o, d) in removed}
    if not want:
        return []
    found = {}
    seen = {id(top)}
    q = collections.deque([(top, "top")])

    def push(o, path):
        i = id(o)
        if i in seen:
            return
        seen.add(i)
        if i in want:                       # entry point into the removed component: report, stop
            found[i] = path
            return
        if isinstance(o, _LEAF) or isinstance(o, Bits):
            return
        q.append((o, path))

    while q:
        o, path = q.popleft()
        if isinstance(o, dict):
            for k, v in o.items():
                push(k, path + "{key}")
                push(v, path + "{value}")
        elif isinstance(o, (list, tuple, set, frozenset, collections.deque)):
            for v in o:
                push(v, path + "[]")
        elif hasattr(o, "__dict__"):
            mod = type(o).__module__ or ""
            if isinstance(o, (D.NamedObject, D.Const)) or mod.startswith("pymtl3") or mod.startswith("c15_"):
                for k, v in vars(o).items():
                    push(v, "%s.%s" % (path, k) if isinstance(k, str) else "%s%r" % (path, k))
    return sorted((found[i], want[i]) for i in found)


def sweep_container(path):
    """'top._dsl.all_WR_U_constraints{key}' -> ('top', 'all_WR_U_constraints', 'key')"""
    m = None
    for m in re.finditer(r"_dsl\.([A-Za-z_0-9]+)", path):
        pass
    if m is None:
        return ("?", path, "")
    owner = "top" if path[:m.start()] == "top." else "component"
    rest = path[m.end():]
    role = "key" if rest.startswith("{key}") else "value"
    return (owner, m.group(1), role)


# --------------------------------------------------------------------------------------
# simulation
# --------------------------------------------------------------------------------------

def rtl_inputs(n, R):
    return [(R.randrange(256), R.randrange(2)) for _ in range(n)]


PASS_GROUPS = ("DefaultPassGroup", "Mamba2020", "SimpleSimPass")


def _pass_group(name):
    if name == "DefaultPassGroup":
        from pymtl3 import DefaultPassGroup
        return DefaultPassGroup()
    if name == "SimpleSimPass":
        from pymtl3.passes.PassGroups import SimpleSimPass
        return SimpleSimPass()
    from pymtl3.passes.mamba.PassGroups import Mamba2020
    return Mamba2020(print_line_trace=False)


def _val(x):
    try:
        return int(x)
    except (TypeError, ValueError):
        pass
    try:
        return int(x.to_bits())
    except Exception:          # noqa: BLE001
        return str(x)


def signal_names(top):
    """names of all signals that are not slices / fields of another signal (public getter)"""
    D = _dsl()
    out = []
    for x in top.get_all_object_filter(lambda o: isinstance(o, D.Signal)):
        if x._dsl.slice is None and not isinstance(getattr(x._dsl, "parent_obj", None), D.Signal):
            out.append(repr(x))
    return sorted(out)


def is_pure_rtl(top):
    D = _dsl()
    return not top.get_all_object_filter(lambda o: isinstance(o, D.MethodPort)) and not top.get_all_update_once()


def simulate(fam, top, inputs, pg="DefaultPassGroup", sigs=(), pure=True):
    """Trace of the design under one pass group (the design is consumed).  Every row is the list of
    top-level outputs followed by the value of every signal in `sigs` (looked up by name), so that a
    register that does not commit, or any other per-signal difference, is seen even when it does not
    reach an output within the run.  `pure` (no method port, no update_once block - decided on the
    design built from scratch) selects the driver: combinational evaluation before the clock edge
    is only offered for pure RTL designs."""
    top.apply(_pass_group(pg))
    top.sim_reset()
    tr = []
    sobj = [resolve(top, n) for n in sigs]

    def row():
        return [_val(x) for x in top.out] + [(_val(o) if o is not None else "<missing>") for o in sobj]
    if fam.driver == "rtl":
        for (a, e) in inputs:
            top.in_ @= a
            top.en @= e
            if pure:
                top.sim_eval_combinational()
                tr.append(row())
            top.sim_tick()
            if not pure:
                tr.append(row())
        tr.append(row())
    else:
        for _ in inputs:
            top.sim_tick()
            tr.append([len(top.log), top.count] + [(_val(o) if o is not None else "<missing>") for o in sobj])
        tr.append([list(map(str, top.log)), list(map(str, top.w.seen)), list(map(str, top.w.tags)),
                   list(map(str, top.tags))])
    return tr


# --------------------------------------------------------------------------------------
# model data for Replace.tla: harness part and per-class local parts of FRESH designs
# --------------------------------------------------------------------------------------

class NotCompositional(Exception):
    pass


def primary_parts(fam, P):
    """tagged projection of a design -> {owner tag: {primary field: sorted entry list}}"""
    T = Tagger(fam).tag(P)
    parts = split_parts(T, fam.positions)
    out = {}
    for t, fs in parts.items():
        if t == "*":
            continue
        other = {entry_key(["%s/%s" % tuple(x) for x in e]) for f in ("comps", "sigs", "mports") for e in fs.get(f, [])}
        d = {}
        for f in PRIMARY:
            if f == "ifcs":
                d[f] = [e for e in fs.get("named", [])
                        if entry_key(["%s/%s" % tuple(x) for x in e]) not in other]
            else:
                d[f] = fs.get(f, [])
            d[f] = sorted(d[f])
        out[t] = d
    return out


def range_overlaps(model):
    """pairs of overlapping slice ranges occurring anywhere in the model data (Input.rovl)"""
    rs = set()
    for part in [model["harness"]] + list(model["local"].values()):
        for e in part["sinfo"]:
            if e[4][1] != "-":
                rs.add(e[4][1])

    def rng(t):
        a, b = t.split(":")
        return int(a), int(b)
    out = []
    for x in sorted(rs):
        for y in sorted(rs):
            (a, b), (c, d) = rng(x), rng(y)
            if x != y and a < d and c < b:
                out.append([x, y])
    return out


def extract_model(fam, extra_cfgs=()):
    """Harness part and per-class local parts, extracted from designs built from scratch: every
    class alone in every position it fits (the other positions hold their base class), every uniform
    configuration and `extra_cfgs`.

    Local[c] = the entries below a position that are there in EVERY position holding c (written
    relative to the position).  Harness = the entries owned by the harness, and the entries below a
    position that some class sitting there does not declare itself (they exist only because the
    harness, or the class of the hosting position, mentions them: a slice / field of a child's
    port).  A class MAY declare such an entry too (Meta is a union).  The decomposition is then checked
    against every design built: NotCompositional unless
        projection(design(cfg)) = Harness + UNION Local[cfg[p]] renamed to p."""
    import json
    classes = list(fam.classes)
    cfgs = []
    for p in fam.positions:
        for c in fam.palof[p]:
            g = dict(fam.base)
            g[p] = c
            cfgs.append(g)
    for c in classes:
        cfgs.append(fam.uniform(c, c))
    cfgs.extend(extra_cfgs)
    built = []
    for g in cfgs:
        P, _ = project(fam.build(g))
        d = duplicates(P)
        if d:
            raise NotCompositional("freshly built %s has duplicate entries %s" % (g, d))
        parts = primary_parts(fam, P)
        if any(parts["?"][f] for f in PRIMARY):
            raise NotCompositional("freshly built %s has stale / deleted names: %s" % (g, parts["?"]))
        built.append((g, {t: {f: {json.dumps(e) for e in es} for f, es in fs.items()} for t, fs in parts.items()}))
    local = {}
    for g, parts in built:
        for p in fam.positions:
            c = g[p]
            if c not in local:
                local[c] = {f: set(parts[p][f]) for f in PRIMARY}
            else:
                for f in PRIMARY:
                    local[c][f] &= parts[p][f]

    def absolute(k, p):
        return json.dumps([[p, x[1]] if x[0] == "$" else x for x in json.loads(k)])
    harness = {f: set() for f in PRIMARY}
    for g, parts in built:
        for f in PRIMARY:
            harness[f] |= parts[""][f]
            for p in fam.positions:
                for k in parts[p][f] - local[g[p]][f]:
                    harness[f].add(absolute(k, p))
    for g, parts in built:
        for f in PRIMARY:
            full = set(parts[""][f])
            meta = set(harness[f])
            for p in fam.positions:
                full |= {absolute(k, p) for k in parts[p][f]}
                meta |= {absolute(k, p) for k in local[g[p]][f]}
            if full != meta:
                raise NotCompositional("configuration %s, field %s: design - Meta = %s, Meta - design = %s"
                                       % (g, f, sorted(full - meta)[:4], sorted(meta - full)[:4]))
    m = {"fields": list(PRIMARY),
         "harness": {f: sorted(json.loads(k) for k in harness[f]) for f in PRIMARY},
         "local": {c: {f: sorted(json.loads(k) for k in local[c][f]) for f in PRIMARY} for c in classes},
         "palof": {p: list(fam.palof[p]) for p in fam.positions},
         "below": {p: list(fam.below[p]) for p in fam.positions},
         "deep": [p for p in fam.positions if "." in p]}
    m["rovl"] = range_overlaps(m)
    return m


# --------------------------------------------------------------------------------------
# one history on the real code (runs inside worker processes)
# --------------------------------------------------------------------------------------

_FRESH = {}          # (family, cfg key) -> dict(P=, kinds=, sim=)   per process, never on disk
OFIELDS = [f for f in FIELDS if f not in GLOBAL_FIELDS]


def cfg_key(cfg):
    return "|".join("%s=%s" % (p, cfg[p]) for p in sorted(cfg))


def _where(exc):
    """pymtl3 call site of an exception: 'File.function' of the innermost pymtl3 frame, preceded by the
    first frame inside a pass when there is one ('GenDAGPass._process_value_constraints>NamedObject.get_parent_object')"""
    import os
    import traceback
    tb = traceback.extract_tb(exc.__traceback__)
    inner = outer = prev = None
    for fr in tb:
        if "/pymtl3/" in fr.filename:
            w = "%s.%s" % (os.path.basename(fr.filename)[:-3], fr.name)
            if inner is not None and inner != w:
                prev = inner
            inner = w
            if outer is None and "/pymtl3/passes/" in fr.filename and fr.name != "__call__":
                outer = w
    if inner is None:
        return "?"
    if outer is None:           # not inside a pass: the caller of the innermost function tells which check / step it was
        outer = prev
    return inner if outer in (None, inner) else "%s>%s" % (outer, inner)


def _exc_info(e):
    return {"exc": type(e).__name__, "where": _where(e), "msg": str(e)[:300]}


def fresh(fam, cfg, inputs):
    """oracle of the statement: the design built from scratch for cfg (projection, simulation)"""
    k = (fam.name, cfg_key(cfg), len(inputs))
    r = _FRESH.get(k)
    if r is None:
        if len(_FRESH) > 4000:
            _FRESH.clear()
        top = fam.build(cfg)
        P, kinds = project(top)
        r = {"P": P, "kinds": kinds, "sim": {}, "sigs": signal_names(top), "pure": is_pure_rtl(top)}
        _FRESH[k] = r
    return r


def fresh_sim(fam, cfg, inputs, pg="DefaultPassGroup"):
    r = fresh(fam, cfg, inputs)
    if pg not in r["sim"]:
        try:
            r["sim"][pg] = ("ok", simulate(fam, fam.build(cfg), inputs, pg, r["sigs"], r["pure"]))
        except Exception as e:          # noqa: BLE001
            r["sim"][pg] = ("raises", _exc_info(e))
    return r["sim"][pg]


def observation(fam, P):
    """tagged parts of a projection, ready for interning: {tag: {field: entries}}, nets, mnets"""
    parts = split_parts(Tagger(fam).tag(P), fam.positions)
    obs = {"parts": {t: {f: fs.get(f, []) for f in OFIELDS} for t, fs in parts.items() if t != "*"},
           "nets": parts["*"].get("nets", []), "mnets": parts["*"].get("mnets", [])}
    return obs


def check_state(fam, top, cfg, removed, inputs):
    """metadata of the mutated design against the design built from scratch + reachability sweep"""
    P, kinds = project(top)
    F = fresh(fam, cfg, inputs)
    stale, missing = diff(P, F["P"])
    dup = duplicates(P)
    findings = [(c, f, k, es[:6]) for (c, f, k, es) in classify(stale, missing, dup, kinds, F["kinds"])]
    # get_component_level() of every component that exists in both designs must agree (the level is
    # not part of the specification's state: it follows from the name, which is compared above)
    lv_new = {e[0]: e[1] for e in P.get("clevel", [])}
    lv_old = {e[0]: e[1] for e in F["P"].get("clevel", [])}
    bad = sorted([n, lv_new[n], lv_old[n]] for n in lv_new if n in lv_old and lv_new[n] != lv_old[n])
    if bad:
        findings.append(("stale", "clevel", "", bad[:6]))
    reach = []
    for path, desc in sweep(top, removed):
        owner, cont, role = sweep_container(path)
        fld = CONTAINER_FIELD.get(cont)
        folded = fld is not None and bool(stale.get(fld))
        key = "reachable:%s._dsl.%s{%s}" % (owner, cont, role) if owner != "?" else "reachable:" + cont
        reach.append({"key": key, "path": path, "object": desc, "folded_into": fld if folded else None})
    rawclauses = sorted([["stale", f] for f in stale if stale[f]] + [["missing", f] for f in missing if missing[f]])
    return {"findings": findings, "reach": reach, "obs": observation(fam, P), "P": P, "rawclauses": rawclauses}


def _column(fam, top_outs, sigs, j):
    return ("out[%d]" % j) if j < top_outs else sigs[j - top_outs] if j - top_outs < len(sigs) else "?"


def compare_sim(fam, ref, got, sigs, pg):
    """-> record {kind: same | differs | raises | fresh-raises | both-raise, pg, ...}"""
    if ref[0] == "ok" and got[0] == "ok":
        if ref[1] == got[1]:
            return {"kind": "same", "pg": pg}
        j = next((i for i, (a, b) in enumerate(zip(ref[1], got[1])) if a != b), min(len(ref[1]), len(got[1])))
        a = ref[1][j] if j < len(ref[1]) else None
        b = got[1][j] if j < len(got[1]) else None
        cols = []
        if isinstance(a, list) and isinstance(b, list) and len(a) == len(b) and len(a) > len(sigs):
            nout = len(a) - len(sigs)
            cols = [_column(fam, nout, sigs, i) for i in range(len(a)) if a[i] != b[i]]
            a, b = [a[i] for i in range(len(a)) if a[i] != b[i]], [b[i] for i in range(len(b)) if a[i] != b[i]]
        return {"kind": "differs", "pg": pg, "cycle": j, "where": cols[:8], "fresh": a[:8] if isinstance(a, list) else a,
                "replaced": b[:8] if isinstance(b, list) else b}
    if ref[0] == "ok":
        return dict(got[1], kind="raises", pg=pg)
    if got[0] == "ok":
        return dict(ref[1], kind="fresh-raises", pg=pg)
    return {"kind": "both-raise", "pg": pg, "fresh": ref[1], "replaced": got[1]}


def stale_holders(top, removed, pos):
    """which blocks still read / write / call an object of the removed component (public getters):
    sorted list of 'parent-block' / 'grandparent-block' (a block two or more levels above)"""
    want = {id(o) for (o, _) in removed}
    parent = ("s." + pos).rsplit(".", 1)[0]
    out = set()
    try:
        for d in top.get_all_upblk_metadata():
            for blk, xs in d.items():
                if any(id(x) in want for x in xs):
                    host = repr(top.get_update_block_host_component(blk))
                    out.add("parent-block" if host == parent else "grandparent-block")
    except Exception:                   # noqa: BLE001
        return ["?"]
    return sorted(out)


def _prebuilt(fam, init, steps):
    """the objects of all replace_component_with_obj steps, built before the design itself"""
    g, a = dict(init), fam.init_arg(init)
    objs = []
    for (k, p, c) in steps:
        objs.append(fam.new_obj(p, c, g) if k == "ReplaceWithObj" else None)
        g, a = fam.step(g, a, k, p, c)
    return objs


def replay_history(famname, init, steps, inputs, check="last", sim=True, pre=False,
                   pgs=None):
    """Replay one history with the real replace_component / replace_component_with_obj.

    check = "last": metadata / sweep / observation after the last step only (every prefix of an
    enumerated history is a history of its own); "all": after every step.
    pre: the objects handed to replace_component_with_obj are all built before the design is.
    The final design is simulated under every pass group of `pgs` (the history is re-executed for
    each, a simulated design cannot be reused) and compared, outputs and every signal, with the
    design built from scratch.
    Returns a JSON-able record."""
    fam = family(famname)
    pgs = fam.pass_groups if pgs is None else [p for p in pgs if p in fam.pass_groups]
    cfg, arg = dict(init), fam.init_arg(init)
    rec = {"fam": famname, "init": dict(init), "steps": [list(s) for s in steps], "checks": [],
           "raised": None, "sim": None, "cfg": None, "pre": bool(pre)}
    objs = _prebuilt(fam, init, steps) if pre else [None] * len(steps)
    top = fam.build(cfg)
    removed = []
    for i, (kind, pos, cls) in enumerate(steps):
        g2, a2 = fam.step(cfg, arg, kind, pos, cls)
        try:
            apply_step(fam, top, kind, pos, cls, cfg, objs[i], removed)
        except Exception as e:          # noqa: BLE001
            info = _exc_info(e)
            info["step"] = i + 1
            info["kept_by"] = stale_holders(top, removed, pos)
            try:
                fam.build(g2)
                info["fresh_builds"] = True
            except Exception as e2:     # noqa: BLE001
                info["fresh_builds"] = False
                info["fresh_exc"] = type(e2).__name__
            rec["raised"] = info
            rec["cfg"] = cfg
            return rec
        cfg, arg = g2, a2
        if check == "all" or (check == "last" and i == len(steps) - 1):
            c = check_state(fam, top, cfg, removed, inputs)
            c.pop("P")
            c["step"] = i + 1
            rec["checks"].append(c)
    rec["cfg"] = cfg
    if sim:
        if any(cfg[p] in fam.placeholders for p in cfg):
            rec["sim"] = {"kind": "skipped-placeholder"}
        else:
            F = fresh(fam, cfg, inputs)
            done = []
            for n, pg in enumerate(pgs):
                ref = fresh_sim(fam, cfg, inputs, pg)
                if ref[0] != "ok" and n > 0:
                    continue                # this pass group cannot simulate the design built from scratch
                try:
                    if n > 0:               # a second copy of the mutated design
                        objs = _prebuilt(fam, init, steps) if pre else [None] * len(steps)
                        top = fam.build(init)
                        g, a = dict(init), fam.init_arg(init)
                        for i, (kind, pos, cls) in enumerate(steps):
                            apply_step(fam, top, kind, pos, cls, g, objs[i])
                            g, a = fam.step(g, a, kind, pos, cls)
                    got = ("ok", simulate(fam, top, inputs, pg, F["sigs"], F["pure"]))
                except Exception as e:      # noqa: BLE001
                    got = ("raises", _exc_info(e))
                r = compare_sim(fam, ref, got, F["sigs"], pg)
                done.append(pg)
                if r["kind"] != "same" or n == len(pgs) - 1:
                    rec["sim"] = r
                    break
                rec["sim"] = r
            rec["sim"]["pgs"] = done
    return rec


def run_chunk(args):
    """worker entry: list of job dicts -> list of records; observations are interned per chunk"""
    import hashlib
    import json
    jobs, inputs_by_fam = args
    out, table = [], {}
    for j in jobs:
        try:
            rec = replay_history(j["fam"], j["init"], j["steps"], inputs_by_fam[j["fam"]],
                                 check=j.get("check", "last"), sim=j.get("sim", True), pre=j.get("pre", False),
                                 pgs=j.get("pgs"))
        except Exception:               # noqa: BLE001  (pymtl3 exceptions do not always survive pickling)
            import traceback
            out.append({"id": j["id"], "checks": [], "harness_error": traceback.format_exc()[-3000:],
                        "job": {k: j[k] for k in ("fam", "init", "steps")}})
            continue
        rec["id"] = j["id"]
        for c in rec["checks"]:
            o = c["obs"]
            ids = {}
            for t, part in o["parts"].items():
                s = json.dumps(part, sort_keys=True)
                h = hashlib.sha1(s.encode()).hexdigest()
                table.setdefault(h, part)
                ids[t] = h
            g = {}
            for k in ("nets", "mnets"):
                s = json.dumps(o[k], sort_keys=True)
                h = hashlib.sha1(s.encode()).hexdigest()
                table.setdefault(h, o[k])
                g[k] = h
            c["obs"] = {"parts": ids, "nets": g["nets"], "mnets": g["mnets"]}
        out.append(rec)
    return out, table
