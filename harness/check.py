#!/venv/bin/python
"""CLI of the verification machinery:   check.py <property id> --tier quick|thorough

exit 0  property held on everything explored (KNOWN-FINDING lines may be printed)
exit 1  VIOLATION property=<id> replay=<path>
exit 2  machinery failure (never a verdict about pymtl3)
"""
import argparse
import importlib
import json
import os
import sys
import traceback

sys.path.insert(0, os.path.dirname(os.path.abspath(__file__)))
import common  # noqa: E402


def main():
    ap = argparse.ArgumentParser()
    ap.add_argument("pid")
    ap.add_argument("--tier", default=os.environ.get("VERIF_TIER", "quick"), choices=["quick", "thorough"])
    ap.add_argument("--replay", default=None, help="path of a replay file written by an earlier run")
    a = ap.parse_args()
    pid = a.pid.upper()
    common.use_repo()
    os.environ.setdefault("PYTHONHASHSEED", "0")
    try:
        mod = importlib.import_module("props." + pid.lower())
    except ImportError:
        traceback.print_exc()
        print("no check for %s" % pid)
        return 2
    res = None
    try:
        if a.replay:
            if hasattr(mod, "replay"):
                return mod.replay(json.load(open(a.replay)))
            print(open(a.replay).read())
            return 0
        res = common.Result(pid, a.tier, getattr(mod, "LEVEL", "model_checking"))
        mod.run(res, a.tier)
        return res.finish()
    except common.MachineryError as e:
        print("MACHINERY-FAILURE %s: %s" % (pid, e))
        return _after_failure(res)
    except Exception:
        traceback.print_exc()
        print("MACHINERY-FAILURE %s: unexpected exception in the harness" % pid)
        return _after_failure(res)


def _after_failure(res):
    """A machinery failure (a canary that is not rejected, a crashed TLC run, ...) is never a verdict.  But
    violations that were recorded BEFORE it are real mismatches between the code and the specification (each
    has its own replay file) and are still reported: a change to pymtl3 that breaks a property often also
    breaks an assumption of a later self-test of the harness."""
    if res is not None and res.violations:
        print("(the violations recorded before the machinery failure are reported)")
        return res.finish()
    return 2


if __name__ == "__main__":
    sys.exit(main())
