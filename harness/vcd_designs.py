"""Designs, drivers and observers for C16 (waveform dumps replay the simulation).

  LIB_SRC            source text of the fixed design library (written to a scratch .py and imported:
                     update blocks need real files)
  gen_random(R, k)   source text of one random hierarchical design (class RandTop<k>)
  Session            builds a design under a tracing pass group, drives it through the public API
                     (set inputs; sim_eval_combinational(); snapshot; sim_tick()) and returns the
                     trace record validated by spec/VcdTrace.tla

Snapshot rule: the leaves of a signal are read field by field (declaration order, nested structs
flattened in order, list fields as packed arrays with element 0 least significant) from the value object the simulator exposes at `top.<path>`; the
packed string (first field most significant) is built by VcdTrace from the leaves, and compared here
against `to_bits()` as a cross-check of the layout rule itself.
"""
import importlib
import os
import sys

import vcdparse
from common import MachineryError

PERIOD, HALF = 100, 50

# ----------------------------------------------------------------------------------------------
# fixed library
# ----------------------------------------------------------------------------------------------

PRELUDE = '''
from pymtl3 import *

@bitstruct
class Pt:
  a: Bits1
  b: Bits3

@bitstruct
class Flag:
  val: Bits1

@bitstruct
class Nest:
  p: Pt
  q: Bits2
  r: [ Bits2 ] * 2

@bitstruct
class WideS:
  hi: Bits1
  w: Bits70
  lo: Bits2

class PassT( Component ):
  def construct( s, T ):
    s.in_ = InPort( T )
    s.out = OutPort( T )
    s.out //= s.in_

class RegT( Component ):
  def construct( s, T ):
    s.in_ = InPort( T )
    s.out = OutPort( T )
    @update_ff
    def ff():
      s.out <<= s.in_

class RegN( Component ):
  def construct( s, n, rv=0 ):
    s.in_ = InPort( mk_bits(n) )
    s.out = OutPort( mk_bits(n) )
    @update_ff
    def ff():
      if s.reset: s.out <<= rv
      else:       s.out <<= s.in_

class Inv( Component ):
  def construct( s, n ):
    s.in_ = InPort( mk_bits(n) )
    s.out = OutPort( mk_bits(n) )
    @update
    def up():
      s.out @= ~s.in_

class Cat( Component ):
  def construct( s, n1, n2 ):
    s.in0 = InPort( mk_bits(n1) )
    s.in1 = InPort( mk_bits(n2) )
    s.out = OutPort( mk_bits(n1+n2) )
    s.out[0:n1]     //= s.in0
    s.out[n1:n1+n2] //= s.in1

class Split( Component ):
  def construct( s, n, k ):
    s.in_ = InPort( mk_bits(n) )
    s.lo  = OutPort( mk_bits(k) )
    s.hi  = OutPort( mk_bits(n-k) )
    s.lo //= s.in_[0:k]
    s.hi //= s.in_[k:n]

class Cnt( Component ):
  def construct( s, n, rv ):
    s.en  = InPort( Bits1 )
    s.out = OutPort( mk_bits(n) )
    @update_ff
    def ff():
      if s.reset: s.out <<= rv
      elif s.en:  s.out <<= s.out + 1

class Cmp( Component ):
  # one-bit signals whose value object comes straight out of a comparison / reduction / bit select
  def construct( s, n ):
    s.a  = InPort( mk_bits(n) )
    s.b  = InPort( mk_bits(n) )
    s.eq = OutPort( Bits1 )
    s.lt = OutPort( Bits1 )
    s.ne_r = OutPort( Bits1 )
    s.ro = OutPort( Bits1 )
    s.lsb = OutPort( Bits1 )
    @update
    def up_cmp():
      s.eq  @= s.a == s.b
      s.lt  @= s.a < s.b
      s.ro  @= reduce_or( s.a ^ s.b )
      s.lsb @= s.a[0]
    @update_ff
    def ff_cmp():
      s.ne_r <<= s.a != s.b

class PackPt( Component ):
  def construct( s ):
    s.a = InPort( Bits1 )
    s.b = InPort( Bits3 )
    s.out = OutPort( Pt )
    @update
    def up():
      s.out.a @= s.a
      s.out.b @= s.b

class UnpackPt( Component ):
  def construct( s ):
    s.in_ = InPort( Pt )
    s.a = OutPort( Bits1 )
    s.b = OutPort( Bits3 )
    s.a //= s.in_.a
    s.b //= s.in_.b
'''

LIB_SRC = PRELUDE + '''
# ---- Tiny: the instance of spec/VcdMC.tla --------------------------------------------------
class TinySub( Component ):
  def construct( s ):
    s.c = InPort( Bits2 )

class Tiny( Component ):
  def construct( s ):
    s.a = InPort( Bits1 )
    s.b = InPort( Bits2 )
    s.d = InPort( Bits2 )
    s.sub = TinySub()
    s.sub.c //= s.b

# ---- Small2: 1- and 2-bit inputs through a register and a net (exhaustive input sequences) --
class Small2( Component ):
  def construct( s ):
    s.a = InPort( Bits1 )
    s.b = InPort( Bits2 )
    s.ra = OutPort( Bits1 )
    s.rb = OutPort( Bits2 )
    s.pb = OutPort( Bits2 )
    s.x  = OutPort( Bits3 )
    s.r1 = RegN( 1, 1 )
    s.r2 = RegN( 2, 2 )
    s.p  = PassT( Bits2 )
    s.r1.in_ //= s.a
    s.r2.in_ //= s.b
    s.p.in_  //= s.r2.out
    s.ra //= s.r1.out
    s.rb //= s.r2.out
    s.pb //= s.p.out
    @update
    def up():
      s.x @= concat( s.a, s.b ) ^ concat( s.rb, s.ra )

# ---- TwoLevel: shared nets between levels, struct ports, constants, slices, lists ------------
class TLInner( Component ):
  def construct( s ):
    s.in_ = InPort( Bits4 )
    s.out = OutPort( Bits4 )
    s.r = Wire( Bits4 )
    @update_ff
    def ff():
      if s.reset: s.r <<= 0
      else:       s.r <<= s.in_
    s.out //= s.r

class TLMid( Component ):
  def construct( s ):
    s.in_ = InPort( Bits4 )
    s.out = OutPort( Bits4 )
    s.inner = [ TLInner() for _ in range(2) ]
    s.inner[0].in_ //= s.in_
    s.inner[1].in_ //= s.inner[0].out
    s.out //= s.inner[1].out

class TwoLevel( Component ):
  def construct( s ):
    s.in_ = InPort( Bits4 )
    s.pt  = InPort( Pt )
    s.pto = OutPort( Pt )
    s.out = OutPort( Bits4 )
    s.never = Wire( Bits2 )
    s.never1 = Wire( Bits1 )
    s.konst = Wire( Bits3 )
    s.konst //= 5
    s.kone = Wire( Bits1 )
    s.kone //= 1
    s.wide = OutPort( Bits8 )
    s.lst = [ Wire( Bits1 ) for _ in range(2) ]
    s.mid = TLMid()
    s.mid.in_ //= s.in_
    s.out //= s.mid.out
    s.wide[0:4] //= s.mid.out
    s.wide[4:8] //= s.in_
    s.lst[0] //= s.in_[0]
    s.lst[1] //= s.in_[3]
    s.kp = PassT( Bits3 )
    s.kp.in_ //= 6
    s.kout = OutPort( Bits3 )
    s.kout //= s.kp.out
    @update
    def up():
      s.pto @= s.pt

# ---- StructNets: struct-typed nets through the hierarchy, nested / list / wide fields --------
class StructNets( Component ):
  def construct( s ):
    s.p = InPort( Pt )
    s.n = InPort( Nest )
    s.w = InPort( WideS )
    s.po = OutPort( Pt )
    s.no = OutPort( Nest )
    s.wo = OutPort( WideS )
    s.pa = OutPort( Bits1 )
    s.pb = Wire( Bits3 )
    s.nq = OutPort( Bits2 )
    s.nr1 = OutPort( Bits2 )
    s.mk = OutPort( Pt )
    s.wl = [ Wire( Pt ) for _ in range(2) ]
    s.pass_ = PassT( Pt )
    s.reg   = RegT( Pt )
    s.nreg  = RegT( Nest )
    s.wpass = PassT( WideS )
    s.wreg  = RegT( WideS )
    s.pk = PackPt()
    s.un = UnpackPt()
    s.pass_.in_ //= s.p
    s.reg.in_   //= s.pass_.out
    s.po //= s.reg.out
    s.nreg.in_ //= s.n
    s.no //= s.nreg.out
    s.wpass.in_ //= s.w
    s.wreg.in_  //= s.wpass.out
    s.wo //= s.wreg.out
    s.pa //= s.p.a
    s.pb //= s.p.b
    s.nq //= s.n.q
    s.nr1 //= s.n.r[1]
    s.wl[0] //= s.p
    s.wl[1] //= s.reg.out
    s.un.in_ //= s.reg.out
    s.pk.a //= s.un.a
    s.pk.b //= s.pb
    @update
    def up():
      s.mk.a @= s.p.b[0]
      s.mk.b @= concat( s.p.a, s.n.q )

# ---- Wide: widths 1, 2, 64, 65, 128, 200 ------------------------------------------------------
class Wide( Component ):
  def construct( s ):
    s.i1   = InPort( Bits1 )
    s.i2   = InPort( Bits2 )
    s.i64  = InPort( Bits64 )
    s.i65  = InPort( mk_bits(65) )
    s.i200 = InPort( mk_bits(200) )
    s.o128 = OutPort( Bits128 )
    s.o65  = OutPort( mk_bits(65) )
    s.o200 = OutPort( mk_bits(200) )
    s.o3   = OutPort( Bits3 )
    s.r64  = RegN( 64, 0xdeadbeef )
    s.r65  = RegN( 65, (1<<64)|1 )
    s.r200 = RegN( 200 )
    s.r64.in_ //= s.i64
    s.r65.in_ //= s.i65
    s.r200.in_ //= s.i200
    s.o128[0:64]   //= s.i64
    s.o128[64:128] //= s.r64.out
    s.o65  //= s.r65.out
    s.o200 //= s.r200.out
    s.o3[0:1] //= s.i1
    s.o3[1:3] //= s.i2
    s.t1 = Wire( Bits1 )
    s.t1 //= s.i200[199]
    s.t2 = Wire( Bits2 )
    s.t2 //= s.i65[63:65]

# ---- IfcTop: interfaces, lists of interfaces, nested lists of components ----------------------
class InIfc( Interface ):
  def construct( s, T ):
    s.msg = InPort( T )
    s.val = InPort( Bits1 )
    s.rdy = OutPort( Bits1 )

class OutIfc( Interface ):
  def construct( s, T ):
    s.msg = OutPort( T )
    s.val = OutPort( Bits1 )
    s.rdy = InPort( Bits1 )

class IfcStage( Component ):
  def construct( s, T ):
    s.recv = InIfc( T )
    s.send = OutIfc( T )
    s.full = Wire( Bits1 )
    s.buf  = Wire( T )
    @update_ff
    def ff():
      if s.reset:
        s.full <<= 0
      else:
        if s.recv.val & s.recv.rdy:
          s.buf <<= s.recv.msg
          s.full <<= 1
        elif s.send.rdy:
          s.full <<= 0
    @update
    def up():
      s.recv.rdy @= ~s.full | s.send.rdy
      s.send.val @= s.full
      s.send.msg @= s.buf

class IfcTop( Component ):
  def construct( s ):
    s.recv = [ InIfc( Bits3 ) for _ in range(2) ]
    s.send = [ OutIfc( Bits3 ) for _ in range(2) ]
    s.st = [ [ IfcStage( Bits3 ) for _ in range(2) ] for _ in range(2) ]
    for i in range(2):
      s.st[i][0].recv //= s.recv[i]
      s.st[i][1].recv //= s.st[i][0].send
      s.send[i] //= s.st[i][1].send

# ---- ManyNets: more nets than one-character VCD symbols (94) -----------------------------------
class ManyNets( Component ):
  def construct( s ):
    s.in_ = InPort( mk_bits(100) )
    s.w = [ Wire( Bits1 ) for _ in range(100) ]
    s.o = [ OutPort( Bits2 ) for _ in range(6) ]
    for i in range(100):
      s.w[i] //= s.in_[i]
    for i in range(6):
      s.o[i] //= s.in_[ 10*i : 10*i+2 ]

# ---- Deep: four levels, pass-through nets spanning all levels, non-zero reset values ----------
class L1( Component ):
  def construct( s ):
    s.in_ = InPort( Bits2 )
    s.out = OutPort( Bits2 )
    s.q   = OutPort( Bits2 )
    s.reg = RegN( 2, 2 )
    s.reg.in_ //= s.in_
    s.q   //= s.reg.out
    s.out //= s.in_

class L2( Component ):
  def construct( s ):
    s.in_ = InPort( Bits2 )
    s.out = OutPort( Bits2 )
    s.q = [ OutPort( Bits2 ) for _ in range(2) ]
    s.l1 = [ L1() for _ in range(2) ]
    s.l1[0].in_ //= s.in_
    s.l1[1].in_ //= s.l1[0].q
    s.out //= s.l1[1].out
    for i in range(2):
      s.q[i] //= s.l1[i].q

class L3( Component ):
  def construct( s ):
    s.in_ = InPort( Bits2 )
    s.out = OutPort( Bits2 )
    s.q0 = OutPort( Bits2 )
    s.q1 = OutPort( Bits2 )
    s.l2 = L2()
    s.l2.in_ //= s.in_
    s.out //= s.l2.out
    s.q0 //= s.l2.q[0]
    s.q1 //= s.l2.q[1]

class Deep( Component ):
  def construct( s ):
    s.in_ = InPort( Bits2 )
    s.en  = InPort( Bits1 )
    s.out = OutPort( Bits2 )
    s.cnt_out = OutPort( Bits3 )
    s.qq = OutPort( Bits4 )
    s.l3 = L3()
    s.cnt = Cnt( 3, 5 )
    s.free = Cnt( 2, 1 )
    s.free.en //= 1
    s.l3.in_ //= s.in_
    s.out //= s.l3.out
    s.cnt.en //= s.en
    s.cnt_out //= s.cnt.out
    s.qq[0:2] //= s.l3.q0
    s.qq[2:4] //= s.l3.q1

# ---- CmpTop: one-bit signals produced by comparisons, directly and through nets ----------------
class CmpTop( Component ):
  def construct( s ):
    s.a = InPort( Bits2 )
    s.b = InPort( Bits2 )
    s.eq = OutPort( Bits1 )
    s.lt = OutPort( Bits1 )
    s.ne_r = OutPort( Bits1 )
    s.flags = OutPort( Bits3 )
    s.ge = OutPort( Bits1 )
    s.c = Cmp( 2 )
    s.c.a //= s.a
    s.c.b //= s.b
    s.eq //= s.c.eq
    s.lt //= s.c.lt
    s.ne_r //= s.c.ne_r
    s.flags[0:1] //= s.c.ro
    s.flags[1:2] //= s.c.lsb
    s.flags[2:3] //= s.c.eq
    @update
    def up_ge():
      s.ge @= s.a >= s.b

# ---- FlagTop: signals whose type is a bitstruct of total width ONE (a net that is one bit wide without being
# Bits1), through ports, registers, children and nets, next to Bits1 signals carrying the same values
# (added after seeded change C16-E: one-bit nets dumped by the truth value of the object - every bitstruct
# instance is truthy)
class FlagStage( Component ):
  def construct( s ):
    s.in_ = InPort( Flag )
    s.out = OutPort( Flag )
    s.state = Wire( Flag )
    s.raw = OutPort( Bits1 )
    @update_ff
    def ff():
      s.state <<= s.in_
    s.out //= s.state
    @update
    def up_raw():
      s.raw @= s.state.val

class FlagTop( Component ):
  def construct( s ):
    s.in_ = InPort( Flag )
    s.b = InPort( Bits1 )
    s.out = OutPort( Flag )
    s.mid = Wire( Flag )
    s.both = OutPort( Bits1 )
    s.made = OutPort( Flag )
    s.st = [ FlagStage() for _ in range(2) ]
    s.st[0].in_ //= s.in_
    s.mid //= s.st[0].out
    s.st[1].in_ //= s.mid
    s.out //= s.st[1].out
    @update
    def up_both():
      s.both @= s.st[0].raw & s.b
    @update
    def up_made():
      s.made @= Flag( s.b ^ s.st[1].raw )
'''

LIB = ["Tiny", "Small2", "TwoLevel", "StructNets", "Wide", "IfcTop", "ManyNets", "Deep", "CmpTop", "FlagTop"]

# ----------------------------------------------------------------------------------------------
# random hierarchical designs
# ----------------------------------------------------------------------------------------------

_BW = [1, 1, 2, 2, 3, 4, 4, 7, 8, 16, 33, 64, 65, 100]
_ST = {"Pt": 4, "Nest": 10, "WideS": 73, "Flag": 1}


def _tt(t):
    return "mk_bits(%d)" % t[1] if t[0] == "b" else t[1]


def _leaf_specs(R):
    """(ctor text, [(in name, type)], [(out name, type)])"""
    n = R.choice(_BW)
    k = R.choice(["pass", "pass", "reg", "regn", "inv", "cat", "split", "cnt", "pack", "unpack", "spass", "sreg", "cmp"])
    b = lambda w: ("b", w)
    if k == "pass":
        return "PassT( mk_bits(%d) )" % n, [("in_", b(n))], [("out", b(n))]
    if k == "reg":
        return "RegT( mk_bits(%d) )" % n, [("in_", b(n))], [("out", b(n))]
    if k == "regn":
        return "RegN( %d, %d )" % (n, R.randrange(1 << min(n, 8))), [("in_", b(n))], [("out", b(n))]
    if k == "inv":
        return "Inv( %d )" % n, [("in_", b(n))], [("out", b(n))]
    if k == "cat":
        m = R.choice(_BW[:9])
        return "Cat( %d, %d )" % (n, m), [("in0", b(n)), ("in1", b(m))], [("out", b(n + m))]
    if k == "split":
        n = max(n, 2)
        c = R.randrange(1, n)
        return "Split( %d, %d )" % (n, c), [("in_", b(n))], [("lo", b(c)), ("hi", b(n - c))]
    if k == "cnt":
        w = R.choice([1, 2, 3])
        return "Cnt( %d, %d )" % (w, R.randrange(1 << w)), [("en", b(1))], [("out", b(w))]
    if k == "cmp":
        return "Cmp( %d )" % n, [("a", b(n)), ("b", b(n))], [("eq", b(1)), ("lt", b(1)), ("ne_r", b(1)), ("ro", b(1)), ("lsb", b(1))]
    if k == "pack":
        return "PackPt()", [("a", b(1)), ("b", b(3))], [("out", ("s", "Pt"))]
    if k == "unpack":
        return "UnpackPt()", [("in_", ("s", "Pt"))], [("a", b(1)), ("b", b(3))]
    st = R.choice(sorted(_ST))
    if k == "spass":
        return "PassT( %s )" % st, [("in_", ("s", st))], [("out", ("s", st))]
    return "RegT( %s )" % st, [("in_", ("s", st))], [("out", ("s", st))]


def _gen_composite(R, name, lower, lines):
    """Append the class text of one composite to `lines`; returns its spec."""
    body = []
    ins, outs = [], []
    sources = []        # (expr, type, sliceable)
    cnt = {"i": 0, "o": 0, "w": 0, "c": 0}

    def new_in(t):
        nm = "i%d" % cnt["i"]
        cnt["i"] += 1
        ins.append((nm, t))
        body.append("s.%s = InPort( %s )" % (nm, _tt(t)))
        add_source("s." + nm, t)
        return "s." + nm

    def add_source(expr, t, sliceable=True):
        sources.append((expr, t, sliceable))
        if t == ("s", "Pt") and R.random() < 0.5:
            sources.append((expr + ".a", ("b", 1), False))
            sources.append((expr + ".b", ("b", 3), False))
        if t == ("s", "Nest") and R.random() < 0.5:
            sources.append((expr + ".q", ("b", 2), False))
            sources.append((expr + ".r[1]", ("b", 2), False))
            sources.append((expr + ".p", ("s", "Pt"), False))

    def pick(t):
        same = [s for s in sources if s[1] == t]
        if same and R.random() < 0.8:
            return R.choice(same)[0]
        if t[0] == "b":
            wider = [s for s in sources if s[1][0] == "b" and s[1][1] > t[1] and s[2]]
            if wider and R.random() < 0.7:
                e, tt, _ = R.choice(wider)
                lo = R.randrange(0, tt[1] - t[1] + 1)
                return "%s[%d:%d]" % (e, lo, lo + t[1])
        return new_in(t)

    for _ in range(R.randint(1, 2)):
        new_in(("b", R.choice(_BW)) if R.random() < 0.75 else ("s", R.choice(sorted(_ST))))
    for _ in range(R.randint(1, 4)):
        if lower and R.random() < 0.45:
            ctor, cin, cout = R.choice(lower)
        else:
            ctor, cin, cout = _leaf_specs(R)
        cn = "c%d" % cnt["c"]
        cnt["c"] += 1
        chain = R.random() < 0.3 and len(cin) == 1 and len(cout) >= 1 and cin[0][1] == cout[0][1]
        if chain:
            m = R.randint(2, 3)
            body.append("s.%s = [ %s for _ in range(%d) ]" % (cn, ctor, m))
            body.append("s.%s[0].%s //= %s" % (cn, cin[0][0], pick(cin[0][1])))
            for j in range(1, m):
                body.append("s.%s[%d].%s //= s.%s[%d].%s" % (cn, j, cin[0][0], cn, j - 1, cout[0][0]))
            for j in range(m):
                for (on, ot) in cout:
                    if j == m - 1 or (on, ot) != cout[0]:
                        add_source("s.%s[%d].%s" % (cn, j, on), ot)
            add_source("s.%s[0].%s" % (cn, cout[0][0]), cout[0][1])
        else:
            body.append("s.%s = %s" % (cn, ctor))
            for (pn, pt) in cin:
                if R.random() < 0.08 and pt[0] == "b":
                    body.append("s.%s.%s //= %d" % (cn, pn, R.randrange(1 << min(pt[1], 10))))
                else:
                    body.append("s.%s.%s //= %s" % (cn, pn, pick(pt)))
            for (on, ot) in cout:
                add_source("s.%s.%s" % (cn, on), ot)
    # outputs / wires
    for _ in range(R.randint(1, 3)):
        e, t, _s = R.choice(sources)
        nm = "o%d" % cnt["o"]
        cnt["o"] += 1
        outs.append((nm, t))
        body.append("s.%s = OutPort( %s )" % (nm, _tt(t)))
        body.append("s.%s //= %s" % (nm, e))
    bits = [s for s in sources if s[1][0] == "b"]
    if len(bits) >= 2 and R.random() < 0.5:
        (e1, t1, _a), (e2, t2, _b) = R.sample(bits, 2)
        nm = "o%d" % cnt["o"]
        cnt["o"] += 1
        outs.append((nm, ("b", t1[1] + t2[1])))
        body.append("s.%s = OutPort( mk_bits(%d) )" % (nm, t1[1] + t2[1]))
        body.append("s.%s[0:%d] //= %s" % (nm, t1[1], e1))
        body.append("s.%s[%d:%d] //= %s" % (nm, t1[1], t1[1] + t2[1], e2))
    for _ in range(R.randint(0, 3)):
        r = R.random()
        nm = "w%d" % cnt["w"]
        cnt["w"] += 1
        if r < 0.2:       # never driven
            body.append("s.%s = Wire( %s )" % (nm, _tt(("b", R.choice(_BW)))))
        elif r < 0.4:     # constant
            w = R.choice(_BW)
            body.append("s.%s = Wire( mk_bits(%d) )" % (nm, w))
            body.append("s.%s //= %d" % (nm, R.randrange(1 << min(w, 12))))
        elif r < 0.6 and bits:   # list of 1-bit wires from bit slices
            e, t, sl = R.choice(bits)
            if sl:
                m = min(t[1], 3)
                body.append("s.%s = [ Wire( Bits1 ) for _ in range(%d) ]" % (nm, m))
                for j in range(m):
                    body.append("s.%s[%d] //= %s[%d]" % (nm, j, e, (j * 7) % t[1]))
        else:
            e, t, _s = R.choice(sources)
            body.append("s.%s = Wire( %s )" % (nm, _tt(t)))
            body.append("s.%s //= %s" % (nm, e))
    if bits and R.random() < 0.6:   # an update block
        e, t, _s = R.choice(bits)
        nm = "o%d" % cnt["o"]
        cnt["o"] += 1
        outs.append((nm, t))
        body.append("s.%s = OutPort( mk_bits(%d) )" % (nm, t[1]))
        e2 = R.choice([b for b in bits if b[1] == t])[0]
        body.append("@update\ndef up():\n  s.%s @= ~%s ^ %s" % (nm, e, e2))
    lines.append("class %s( Component ):\n  def construct( s ):\n" % name)
    for b in body:
        for ln in b.split("\n"):
            lines.append("    " + ln + "\n")
    lines.append("\n")
    return ("%s()" % name, ins, outs)


def gen_random(R, k):
    """Source text (without PRELUDE) of a random design; the top class is RandTop<k>."""
    lines = []
    lower = []
    depth = R.randint(1, 3)
    for lvl in range(depth):
        for j in range(R.randint(1, 2)):
            lower.append(_gen_composite(R, "R%d_L%d_%d" % (k, lvl, j), list(lower), lines))
    _gen_composite(R, "RandTop%d" % k, lower, lines)
    return "".join(lines)


# ----------------------------------------------------------------------------------------------
# loading
# ----------------------------------------------------------------------------------------------

_modcount = [0]


def load_source(src, scratch_dir, stem="c16_designs"):
    """Write `src` into the scratch dir and import it as a fresh module."""
    _modcount[0] += 1
    name = "%s_%d_%d" % (stem, os.getpid(), _modcount[0])
    path = os.path.join(scratch_dir, name + ".py")
    with open(path, "w") as f:
        f.write(src)
    if scratch_dir not in sys.path:
        sys.path.append(scratch_dir)
    importlib.invalidate_caches()
    return importlib.import_module(name)


# ----------------------------------------------------------------------------------------------
# observation
# ----------------------------------------------------------------------------------------------

def mangle(name):
    """The documented VCD naming rule: a[0] is written a(0); ':' cannot appear in a VCD name."""
    return name.replace("[", "(").replace("]", ")").replace(":", "__")


def leaves_of(v):
    """Field leaves of a value, most significant first, as msb-first bit strings: fields in
    declaration order (first field most significant); a list field is a packed array, element 0
    least significant (bitstructs.py: "The packing order is LSB")."""
    if isinstance(v, list):
        out = []
        for x in reversed(v):
            out += leaves_of(x)
        return out
    fields = getattr(type(v), "__bitstruct_fields__", None)
    if fields is not None:
        out = []
        for fname in fields:
            out += leaves_of(getattr(v, fname))
        return out
    n = v.nbits
    return [format(int(v), "0%db" % n)]


def type_width(T):
    fields = getattr(T, "__bitstruct_fields__", None)
    if fields is None:
        return T.nbits

    def w(ft):
        if isinstance(ft, list):
            return sum(w(x) for x in ft)
        return type_width(ft)
    return sum(w(ft) for ft in fields.values())


def pool_of(T, R):
    """A small pool of values of type T (revisits are frequent): 1-2-bit types get their full domain."""
    fields = getattr(T, "__bitstruct_fields__", None)
    if fields is not None:
        def mk(ft, sel):
            if isinstance(ft, list):
                return [mk(x, sel) for x in ft]
            sub = getattr(ft, "__bitstruct_fields__", None)
            if sub is not None:
                return ft(*[mk(x, sel) for x in sub.values()])
            n = ft.nbits
            return ft(sel(n))
        return [mk_struct(T, fields, mk, s) for s in
                (lambda n: 0, lambda n: (1 << n) - 1, lambda n: R.getrandbits(n), lambda n: R.getrandbits(n) | 1)]
    n = T.nbits
    if n <= 2:
        return [T(x) for x in range(1 << n)]
    return [T(0), T((1 << n) - 1), T(R.getrandbits(n) | (1 << (n - 1))), T(R.getrandbits(n) >> (n // 2))]


def mk_struct(T, fields, mk, sel):
    return T(*[mk(ft, sel) for ft in fields.values()])


class Session:
    """One simulation run of one design under one tracing pass group."""

    def __init__(self, cls, args=(), group="default", vcdname="dump", textwave=True):
        from pymtl3.dsl import Signal
        from pymtl3.passes.PassGroups import DefaultPassGroup, SimpleSimPass
        from pymtl3.passes.tracing.PrintTextWavePass import PrintTextWavePass
        from pymtl3.passes.tracing.VcdGenerationPass import VcdGenerationPass
        self.group, self.textwave = group, textwave
        top = self.top = cls(*args)
        top.elaborate()
        sigs = sorted(top.get_all_object_filter(lambda x: isinstance(x, Signal) and x.is_top_level_signal()),
                      key=repr)
        # clock net members: top.clk and everything get_all_value_nets() puts into its net
        clkset = {"s.clk"}
        for _w, net in top.get_all_value_nets():
            names = {repr(x) for x in net}
            if "s.clk" in names:
                clkset |= names
        self.sigs = []
        self.paths = []
        for x in sigs:
            full = repr(x)
            host = repr(x.get_host_component())
            if not full.startswith(host + "."):
                raise MachineryError("signal %s is not below its host %s" % (full, host))
            comps = host.split(".")
            path = ["top"] + [mangle(c) for c in comps[1:]]
            fname = full.rsplit(".", 1)[1]
            intw = textwave and (full == "s.reset" or fname not in ("clk", "reset"))
            if full == "s.clk":
                intw = False
            self.sigs.append({"name": full, "path": path, "vname": mangle(full[len(host) + 1:]),
                              "w": type_width(x.get_type()), "clk": full in clkset, "tw": intw})
            self.paths.append(full)
        tin = [x for x in sigs if x.get_host_component() is top and x.is_input_value_port()]
        self.inports = [repr(x) for x in tin if repr(x) not in ("s.clk", "s.reset")]
        self.intypes = {repr(x): x.get_type() for x in tin}
        self.vcdfile = vcdname + ".vcd"
        if group == "default":
            top.apply(DefaultPassGroup(vcdwave=vcdname, textwave=textwave))
        elif group == "simple":
            top.set_metadata(VcdGenerationPass.vcd_file_name, vcdname)
            if textwave:
                top.set_metadata(PrintTextWavePass.enable, True)
            top.apply(SimpleSimPass())
        else:
            raise MachineryError("unknown pass group %s" % group)
        self._tw_key = PrintTextWavePass.textwave_dict
        self.snap = []
        self.ncyc = 0
        self.layout_disagreements = []
        self._code = [compile(p, "<sig>", "eval") for p in self.paths]

    def set_input(self, name, value):
        # top.<port> @= value through the public attribute path
        obj = eval(name, {"s": self.top})
        obj @= value

    def observe(self):
        row = []
        env = {"s": self.top}
        for p, c, sg in zip(self.paths, self._code, self.sigs):
            v = eval(c, env)
            lv = leaves_of(v)
            row.append(lv)
            tb = v.to_bits()
            ref = format(int(tb), "0%db" % tb.nbits)
            if "".join(lv) != ref:
                self.layout_disagreements.append((p, self.ncyc, lv, ref))
        return row

    def cycle(self, inputs=None, reset=None, observe=True):
        top = self.top
        if reset is not None:
            top.reset @= reset
        for k, v in (inputs or {}).items():
            self.set_input(k, v)
        if observe:
            top.sim_eval_combinational()
            self.snap.append(self.observe())
        else:
            self.snap.append([])
        top.sim_tick()
        self.ncyc += 1

    def sim_reset(self):
        """top.sim_reset(): three dumps that cannot be observed from outside."""
        self.top.sim_reset()
        self.snap += [[], [], []]
        self.ncyc += 3

    def finish(self, name):
        vf = vcdparse.parse_file(self.vcdfile)
        tw = []
        d = {}
        if self.textwave and self.top.has_metadata(self._tw_key):
            d = self.top.get_metadata(self._tw_key)
        for sg in self.sigs:
            tw.append(list(d.get(sg["name"], [])))
        return {"name": name, "group": self.group, "ncyc": self.ncyc, "period": PERIOD, "half": HALF,
                "sigs": self.sigs, "snap": self.snap, "tw": tw, "ev": vf.events}
