"""Shared driver of the kernel properties C01 / C02 / C07 / C11: corpus -> real simulator runs ->
recorded traces -> TLC validation against spec/SimKernelTrace.tla, plus the TLC model check of
spec/SimKernel.tla and the canaries."""
import copy
import itertools
import json
import os
import random as _random

import designgen
import kernel
import tlc
from common import MachineryError, rng, scratch
from designgen import Design, Net, View


# ------------------------------------------------------------------------------------------
# corpora
# ------------------------------------------------------------------------------------------

def rand_designs(tag, n, want="acyclic", opts=None):
    R = rng(tag)
    out = []
    i = 0
    while len(out) < n and i < 20 * n:
        d = designgen.gen_design(R, "%s%d" % (tag.replace(":", "_").replace("-", "_"), i), opts, want=want)
        i += 1
        if d is not None:
            out.append(d)
    return out


def _mk(name):
    return Design(name)


def lit(w, v):
    return {"k": "lit", "v": v, "w": w}


def rd(v):
    return {"k": "sig", "v": v}


def xor(a, b, w):
    return {"k": "bin", "op": "xor", "a": a, "b": b, "w": w}


def add(a, b, w):
    return {"k": "bin", "op": "add", "a": a, "b": b, "w": w}


def as_(t, e):
    return {"k": "as", "t": t, "e": e}


def blk(d, name, comp, stmts, kind="comb"):
    d.blocks.append({"name": name, "kind": kind, "comp": comp, "stmts": stmts})


def conn(d, src, sink, host):
    n = None
    for x in d.nets:
        if isinstance(x.writer, View) and x.writer.key() == src.key():
            n = x
    if n is None:
        n = Net(src)
        d.nets.append(n)
    n.members.append(sink)
    n.conns.append((src, sink, host))


BITS_PARTS = [[None], [(0, 4), (4, 8)], [(0, 2), (2, 8)], [(0, 3), (3, 5), (5, 8)]]
BITS_READS = [None, (0, 4), (2, 6), (4, 8), (3, 4), (0, 1), (1, 8)]
STRUCT_PARTS = [[()], [("p",), ("c",)], [("p", "a"), ("p", "b"), ("c",)]]
STRUCT_READS = [("p",), ("p", "a"), ("p", "b"), ("c",)]


def grid_designs():
    """K-grid: writer shape x reader shape x propagation kind x placement.  Every partition element of
    the observed signal x is driven by its own block (or net), the reader is its own block, and a
    second-stage block reads the reader's output: maximal scheduling freedom around every
    whole/slice/field/nested-field overlap pattern."""
    out = []
    k = 0
    for placement in ("same", "child"):
        for via in ("blk", "net"):
            # ---- Bits8 signal
            for parts in BITS_PARTS:
                for rsl in BITS_READS:
                    d = _mk("G%d" % k)
                    k += 1
                    comp = ()
                    if placement == "child":
                        d.comps.append(("c0",))
                    xin = d.add_sig((), "a", "in", 8)
                    yin = d.add_sig((), "b", "in", 8)
                    if placement == "same":
                        x = d.add_sig((), "x", "wire", 8)
                        xhost = ()
                    else:
                        x = d.add_sig(("c0",), "x", "in", 8)     # parent drives the child's in-port
                        xhost = ()
                    o = d.add_sig((), "o", "out", 8)
                    o2 = d.add_sig((), "o2", "out", 8)
                    for j, sl in enumerate(parts):
                        tv = View(x, (), sl)
                        w = tv.w
                        sv = View(xin, (), sl)
                        if via == "net" and j == 0:
                            conn(d, sv, tv, xhost)
                        else:
                            blk(d, "w%d" % j, xhost, [as_(tv, xor(rd(sv), rd(View(yin, (), sl)), w))])
                    rv = View(x, (), rsl)
                    rhost = () if placement == "same" else ("c0",)
                    if placement == "child":
                        co = d.add_sig(("c0",), "y", "out", 8)
                        blk(d, "r0", rhost, [as_(View(co), {"k": "zext", "a": rd(rv), "w": 8} if rv.w < 8 else rd(rv))])
                        conn(d, View(co), View(o), ())
                    else:
                        blk(d, "r0", rhost, [as_(View(o), {"k": "zext", "a": rd(rv), "w": 8} if rv.w < 8 else rd(rv))])
                    blk(d, "r1", (), [as_(View(o2), add(rd(View(o)), lit(8, 1), 8))])
                    d.family = "grid"
                    out.append(d)
            # ---- struct signal N10 (p: P8 {a,b}, c: Bits2)
            for parts in STRUCT_PARTS:
                for rp in STRUCT_READS:
                    d = _mk("G%d" % k)
                    k += 1
                    if placement == "child":
                        d.comps.append(("c0",))
                    xin = d.add_sig((), "a", "in", "N10")
                    yin = d.add_sig((), "b", "in", 8)
                    if placement == "same":
                        x = d.add_sig((), "x", "wire", "N10")
                    else:
                        x = d.add_sig(("c0",), "x", "in", "N10")
                    o = d.add_sig((), "o", "out", 8)
                    o2 = d.add_sig((), "o2", "out", 8)
                    for j, path in enumerate(parts):
                        tv = View(x, path)
                        sv = View(xin, path)
                        if via == "net" and j == 0 or not isinstance(tv.leafty, int):
                            conn(d, sv, tv, ())
                        else:
                            blk(d, "w%d" % j, (), [as_(tv, xor(rd(sv), rd(View(yin, (), (0, tv.w))), tv.w))])
                    rv = View(x, rp)
                    if not isinstance(rv.leafty, int):
                        rv = View(x, rp + ("a",))
                    rhost = () if placement == "same" else ("c0",)
                    ze = {"k": "zext", "a": rd(rv), "w": 8} if rv.w < 8 else rd(rv)
                    if placement == "child":
                        co = d.add_sig(("c0",), "y", "out", 8)
                        blk(d, "r0", rhost, [as_(View(co), ze)])
                        conn(d, View(co), View(o), ())
                    else:
                        blk(d, "r0", rhost, [as_(View(o), ze)])
                    blk(d, "r1", (), [as_(View(o2), add(rd(View(o)), lit(8, 1), 8))])
                    d.family = "grid"
                    out.append(d)
    out += index_designs(k)
    out += vslice_designs()
    out += branchy_comb_designs()
    out += barelist_designs()
    out += func_designs(k + 1000)
    out += deep_designs(k + 2000)
    return out


def deep_designs(k0=0):
    """K-grid, nesting-depth cells: the written objects lie two or three levels below the top-level
    signal (slices of a nested field, nested fields), the reader reads a strictly INTERMEDIATE level
    (the nested leaf, the inner struct as a whole) or the whole signal."""
    out = []
    k = k0
    for via in ("blk", "net"):
        for reader in ("leaf", "inner", "whole", "leafslice"):
            for split in ("slices", "fields"):
                d = _mk("G%d" % k)
                k += 1
                xin = d.add_sig((), "a", "in", "N10")
                yin = d.add_sig((), "b", "in", 8)
                x = d.add_sig((), "x", "wire", "N10")
                if split == "slices":
                    parts = [View(x, ("p", "a"), (0, 2)), View(x, ("p", "a"), (2, 4)), View(x, ("p", "b")), View(x, ("c",))]
                    srcs = [View(xin, ("p", "a"), (0, 2)), View(xin, ("p", "a"), (2, 4)), View(xin, ("p", "b")), View(xin, ("c",))]
                else:
                    parts = [View(x, ("p", "a")), View(x, ("p", "b")), View(x, ("c",))]
                    srcs = [View(xin, ("p", "a")), View(xin, ("p", "b")), View(xin, ("c",))]
                for j, (tv, sv) in enumerate(zip(parts, srcs)):
                    if via == "net" and j == 0:
                        conn(d, sv, tv, ())
                    else:
                        blk(d, "w%d" % j, (), [as_(tv, xor(rd(sv), rd(View(yin, (), (0, tv.w))), tv.w))])
                if reader == "leaf":
                    o = d.add_sig((), "o", "out", 4)
                    blk(d, "r0", (), [as_(View(o), rd(View(x, ("p", "a"))))])
                    nxt = rd(View(o))
                elif reader == "leafslice":
                    o = d.add_sig((), "o", "out", 4)
                    blk(d, "r0", (), [as_(View(o), {"k": "zext", "a": rd(View(x, ("p", "a"), (1, 3))), "w": 4})])
                    nxt = rd(View(o))
                elif reader == "inner":
                    o = d.add_sig((), "o", "out", "P8")
                    blk(d, "r0", (), [as_(View(o), rd(View(x, ("p",))))])
                    nxt = rd(View(o, ("a",)))
                else:
                    o = d.add_sig((), "o", "out", "N10")
                    blk(d, "r0", (), [as_(View(o), rd(View(x)))])
                    nxt = rd(View(o, ("p", "a")))
                o2 = d.add_sig((), "o2", "out", 4)
                blk(d, "r1", (), [as_(View(o2), add(nxt, lit(4, 1), 4))])
                d.family = "grid"
                out.append(d)
    return out


def func_designs(k0=0):
    """K-grid, helper-function cells: a read-only @s.func helper (optionally reached through a second
    helper) reads a signal another block (or a net) writes and is called by two or three blocks of the
    component; the only thing ordering the writer before EVERY caller is the footprint each caller
    inherits from the helper."""
    out = []
    k = k0
    for chain in ("direct", "nested", "mixed"):
        for nrd in (2, 3):
            for sl in (None, (0, 4), (3, 7)):
                for via in ("blk", "net"):
                    d = _mk("G%d" % k)
                    k += 1
                    a = d.add_sig((), "a", "in", 8)
                    b = d.add_sig((), "b", "in", 8)
                    x = d.add_sig((), "x", "wire", 8)
                    if via == "blk":
                        blk(d, "w0", (), [as_(View(x), add(rd(View(a)), lit(8, 1), 8))])
                    else:
                        conn(d, View(a), View(x), ())
                    rv = rd(View(x, (), sl))
                    body = {"k": "zext", "a": rv, "w": 8} if sl else rv
                    d.funcs.append({"name": "hf", "comp": (), "e": add(body, lit(8, 3), 8)})
                    d.funcs.append({"name": "hg", "comp": (), "e": xor({"k": "fcall", "f": 0}, rd(View(b)), 8)})
                    for j in range(nrd):
                        o = d.add_sig((), "o%d" % j, "out", 8)
                        f = {"direct": 0, "nested": 1, "mixed": j % 2}[chain]
                        blk(d, "r%d" % j, (), [as_(View(o), add({"k": "fcall", "f": f}, lit(8, 16 * j + 5), 8))])
                    oz = d.add_sig((), "oz", "out", 8)
                    blk(d, "r9", (), [as_(View(oz), add(rd(View(d.sigs[3])), lit(8, 1), 8))])
                    d.family = "grid"
                    out.append(d)
    return out


def index_designs(k0=0):
    """K-grid, variable-index cells: a list of wires read as arr[sel] and arr[sel][lo:hi] (the index in
    an inner position of the reference), with the index and the elements each produced by their own
    block or net, so that the only thing ordering producer and consumer is the dependency through the
    *index* resp. through an *element*."""
    out = []
    k = k0
    for n in (2, 4):
        for sl in (None, (0, 4), (2, 6), (7, 8)):
            for sel_via in ("blk", "net", "slice"):
                for el_via in ("blk", "net"):
                    d = _mk("G%d" % k)
                    k += 1
                    iw = {2: 1, 4: 2}[n]
                    a = d.add_sig((), "a", "in", 8)
                    b = d.add_sig((), "b", "in", 8)
                    si = d.add_sig((), "si", "in", 4)
                    arr = [d.add_sig((), "arr%d" % j, "wire", 8, arr=("arr", j, n)) for j in range(n)]
                    o = d.add_sig((), "o", "out", 8)
                    o2 = d.add_sig((), "o2", "out", 8)
                    if sel_via == "slice":       # the index is a slice of a wider wire written by a block
                        selw = d.add_sig((), "selw", "wire", 4)
                        blk(d, "ws", (), [as_(View(selw), xor(rd(View(si)), rd(View(b, (), (0, 4))), 4))])
                        selv = View(selw, (), (1, 1 + iw))
                    else:
                        sel = d.add_sig((), "sel", "wire", iw)
                        selv = View(sel)
                        if sel_via == "blk":
                            blk(d, "ws", (), [as_(selv, xor(rd(View(si, (), (0, iw))), rd(View(b, (), (0, iw))), iw))])
                        else:
                            conn(d, View(si, (), (0, iw)), selv, ())
                    for j in range(n):
                        if el_via == "net" and j == 0:
                            conn(d, View(a), View(arr[j]), ())
                        else:
                            blk(d, "we%d" % j, (), [as_(View(arr[j]), add(rd(View(a)), add(rd(View(b)), lit(8, 37 * j + 1), 8), 8))])
                    e = {"k": "idx", "arr": arr, "i": rd(selv)}
                    if sl:
                        e["sl"] = sl
                        e = {"k": "zext", "a": e, "w": 8} if sl[1] - sl[0] < 8 else e
                    blk(d, "r0", (), [as_(View(o), e)])
                    blk(d, "r1", (), [as_(View(o2), add(rd(View(o)), lit(8, 1), 8))])
                    d.family = "grid"
                    out.append(d)
    return out


def branchy_comb_designs():
    """Many data-dependent (branchy) COMBINATIONAL blocks that are schedulable together: Mamba2020 packs them
    into trace-breaking meta blocks of bounded branchiness (6 branchy blocks / branchiness 20); every block -
    the one at a meta-block boundary included - must run exactly once, before its reader.
    Added after seeded change C02-E (the block popped when the bound is reached was appended nowhere)."""
    out = []
    for k, n in enumerate((8, 13, 20)):
        d = _mk("B%d" % k)
        a = d.add_sig((), "a", "in", 4)
        b = d.add_sig((), "b", "in", 4)
        xs = [d.add_sig((), "x%d" % j, "wire", 4) for j in range(n)]
        ys = [d.add_sig((), "y%d" % j, "out", 4) for j in range(n)]
        o = d.add_sig((), "o", "out", 4)
        for j in range(n):
            cond = rd(View(a, (), (j % 4, j % 4 + 1)))
            inner = {"k": "if", "c": rd(View(b, (), ((j + 1) % 4, (j + 1) % 4 + 1))),
                     "th": [as_(View(xs[j]), xor(rd(View(b)), lit(4, (3 * j + 1) % 16), 4))],
                     "el": [as_(View(xs[j]), add(rd(View(a)), rd(View(b)), 4))]}
            blk(d, "s%d" % j, (), [{"k": "if", "c": cond, "th": [as_(View(xs[j]), add(rd(View(a)), lit(4, (j + 1) % 16), 4))],
                                    "el": [inner] if j % 3 == 0 else [as_(View(xs[j]), xor(rd(View(b)), lit(4, j % 16), 4))]}])
            blk(d, "r%d" % j, (), [as_(View(ys[j]), add(rd(View(xs[j])), lit(4, 1), 4))])
        acc = rd(View(ys[0]))
        for j in range(1, n):
            acc = xor(acc, rd(View(ys[j])), 4)
        blk(d, "c0", (), [as_(View(o), acc)])
        d.family = "grid"
        out.append(d)
    return out


def barelist_designs():
    """A list of signals (1, 2 and 3 dimensions) read through its BARE NAME (`for plane in s.g: for row in plane:
    for x in row: acc = acc + x`): every element is in the read set of the block, so every block driving an
    element runs before it.  Elements driven by their own blocks and by a net.
    Added after seeded change C01-E (the flattening of deep lists cut at two levels)."""
    out = []
    for k, dims in enumerate(((4,), (2, 3), (2, 2, 3), (2, 1, 2, 2))):
        d = _mk("BL%d" % k)
        n = 1
        for dd in dims:
            n *= dd
        a = d.add_sig((), "a", "in", 4)
        b = d.add_sig((), "b", "in", 4)
        g = [d.add_sig((), "g%d" % j, "wire", 4, arr=("g", j, n, dims) if len(dims) > 1 else ("g", j, n)) for j in range(n)]
        o = d.add_sig((), "o", "out", 4)
        o2 = d.add_sig((), "o2", "out", 4)
        for j in range(n):
            if j == 1:
                conn(d, View(b), View(g[j]), ())
            else:
                blk(d, "w%d" % j, (), [as_(View(g[j]), add(rd(View(a)), lit(4, (5 * j + 1) % 16), 4))])
        acc = rd(View(g[0]))
        for j in range(1, n):
            acc = add(acc, rd(View(g[j])), 4)
        st = as_(View(o), add(lit(4, 0), acc, 4)) if False else as_(View(o), acc)
        st["render"], st["arr"] = "bareloop", g
        blk(d, "r0", (), [st])
        blk(d, "r1", (), [as_(View(o2), add(rd(View(o)), lit(4, 1), 4))])
        d.family = "grid"
        out.append(d)
    return out


def vslice_designs(k0=0):
    """Slices whose BOUNDS are computed from signals (`s.data[ b : b + 4 ]`, legal in simulation): the signals
    in the bounds are read by the block, and the whole sliced signal counts as read / written.  The base is
    produced by its own block, by a net, or is a slice of a wider wire written by a block, so that the only
    thing ordering producer and consumer is the dependency through the BOUND; read in an expression and used as
    the target of an assignment (after a whole-signal default in the same block).
    Added after seeded change C02-F (reads inside slice bounds dropped from the read set of a block)."""
    out = []
    k = k0
    for lo_via in ("blk", "net", "slice"):
        for use in ("read", "write", "both"):
            for w in (4, 2):
                d = _mk("V%d" % k)
                k += 1
                a = d.add_sig((), "a", "in", 8)
                b = d.add_sig((), "b", "in", 8)
                si = d.add_sig((), "si", "in", 4)
                data = d.add_sig((), "data", "wire", 8)
                word = d.add_sig((), "word", "out", 8)
                o = d.add_sig((), "o", "out", w)
                o2 = d.add_sig((), "o2", "out", 8)
                if lo_via == "slice":
                    low = d.add_sig((), "low", "wire", 4)
                    blk(d, "wl", (), [as_(View(low), xor(rd(View(si)), rd(View(b, (), (0, 4))), 4))])
                    lov = View(low, (), (1, 3))
                else:
                    lo = d.add_sig((), "lo", "wire", 2)
                    lov = View(lo)
                    if lo_via == "blk":
                        blk(d, "wl", (), [as_(lov, xor(rd(View(si, (), (0, 2))), rd(View(b, (), (0, 2))), 2))])
                    else:
                        conn(d, View(si, (), (0, 2)), lov, ())
                base = {"k": "zext", "a": rd(lov), "w": 4}          # 0..3, so base + w <= 8
                blk(d, "wd", (), [as_(View(data), add(rd(View(a)), lit(8, 17), 8))])
                if use in ("read", "both"):
                    blk(d, "r0", (), [as_(View(o), {"k": "vsl", "sig": data, "b": base, "w": w})])
                else:
                    blk(d, "r0", (), [as_(View(o), rd(View(data, (), (0, w))))])
                if use in ("write", "both"):
                    blk(d, "m0", (), [as_(View(word), rd(View(b))),
                                      {"k": "asv", "sig": word, "b": base, "w": w, "e": rd(View(data, (), (8 - w, 8)))}])
                else:
                    blk(d, "m0", (), [as_(View(word), rd(View(data)))])
                blk(d, "r1", (), [as_(View(o2), add(rd(View(word)), {"k": "zext", "a": rd(View(o)), "w": 8}, 8))])
                d.family = "grid"
                out.append(d)
    return out


def explicit_designs():
    """C02: explicit constraints.  (a) an explicit U(reader) < U(writer) inverts the value dependency
    (the reader sees the previous value; no fixed point is claimed: checkfix = False); (b) extra
    constraints between unrelated blocks; (c) cycles of explicit constraints that carry no signal:
    every scheduler must refuse them."""
    out = []
    k = 0
    for inv in (True, False):
        for sl in (None, (0, 4), (2, 6)):
            for chain in (1, 2, 3):
                d = _mk("E%d" % k)
                k += 1
                a = d.add_sig((), "a", "in", 8)
                x = d.add_sig((), "x", "wire", 8)
                o = d.add_sig((), "o", "out", 8)
                blk(d, "w0", (), [as_(View(x), add(rd(View(a)), lit(8, 1), 8))])
                rv = View(x, (), sl)
                blk(d, "r0", (), [as_(View(o), {"k": "zext", "a": rd(rv), "w": 8} if rv.w < 8 else rd(rv))])
                prev = View(o)
                for j in range(chain):
                    t = d.add_sig((), "t%d" % j, "out", 8)
                    blk(d, "c%d" % j, (), [as_(View(t), xor(rd(prev), rd(View(a)), 8))])
                    prev = View(t)
                if inv:
                    d.explicit.append(("r0", "w0"))
                    d.checkfix = False
                else:
                    # unrelated extra constraint: an independent block ordered against the chain
                    z = d.add_sig((), "z", "out", 8)
                    blk(d, "ind", (), [as_(View(z), {"k": "not", "a": rd(View(a)), "w": 8})])
                    d.explicit.append(("c%d" % (chain - 1), "ind") if sl else ("ind", "w0"))
                d.family = "explicit"
                out.append(d)
    # signal-free cycles
    for n in (2, 3):
        for extra in (False, True):
            d = _mk("E%d" % k)
            k += 1
            a = d.add_sig((), "a", "in", 4)
            for j in range(n):
                t = d.add_sig((), "t%d" % j, "out", 4)
                blk(d, "n%d" % j, (), [as_(View(t), add(rd(View(a)), lit(4, j), 4))])
            for j in range(n):
                d.explicit.append(("n%d" % j, "n%d" % ((j + 1) % n)))
            if extra:
                u = d.add_sig((), "u", "out", 4)
                blk(d, "rr", (), [as_(View(u), rd(View(d.sigs[1])))])
            d.checkfix = False
            d.family = "novarcycle"
            out.append(d)
    return out


def ff_designs():
    """C07: register structures: swaps, rotations, enabled / twice-assigned / never-assigned paths,
    struct registers, list registers with a variable index, register outputs forwarded through
    nets (whole-signal aliasing and slice nets), a comb block reading registers in the same tick."""
    out = []
    k = 0
    for n in (2, 3, 4, 5):
        d = _mk("F%d" % k)
        k += 1
        a = d.add_sig((), "a", "in", 4)
        en = d.add_sig((), "en", "in", 1)
        regs = [d.add_sig((), "r%d" % j, "out", 4) for j in range(n)]
        o = d.add_sig((), "o", "out", 4)
        for r_ in regs:
            r_.reg = True
        for j in range(n):                     # rotation: r_j <<= r_{j-1} (+ input at the head)
            src = rd(View(regs[j - 1])) if j else add(rd(View(regs[n - 1])), rd(View(a)), 4)
            st = as_(View(regs[j]), src)
            if j == 1:
                st = {"k": "if", "c": rd(View(en)), "th": [st], "el": []}
            blk(d, "f%d" % j, (), [st], "ff")
        blk(d, "c0", (), [as_(View(o), xor(rd(View(regs[0])), rd(View(regs[n - 1])), 4))])
        d.family = "ff"
        out.append(d)
    # many data-dependent (branchy) flip-flop blocks: Mamba2020 partitions them into meta blocks
    for n in (8, 10, 15):
        d = _mk("F%d" % k)
        k += 1
        a = d.add_sig((), "a", "in", 4)
        regs = [d.add_sig((), "r%d" % j, "out", 4) for j in range(n)]
        o = d.add_sig((), "o", "out", 4)
        for r_ in regs:
            r_.reg = True
        for j in range(n):
            src = add(rd(View(regs[j - 1])), lit(4, 1), 4) if j else add(rd(View(a)), rd(View(regs[n - 1])), 4)
            cond = rd(View(a, (), (j % 4, j % 4 + 1)))
            st = {"k": "if", "c": cond, "th": [as_(View(regs[j]), src)],
                  "el": [as_(View(regs[j]), xor(rd(View(regs[j])), lit(4, 1), 4))] if j % 3 == 0 else []}
            blk(d, "f%d" % j, (), [st], "ff")
        acc = rd(View(regs[0]))
        for j in range(1, n):
            acc = xor(acc, rd(View(regs[j])), 4)
        blk(d, "c0", (), [as_(View(o), acc)])
        d.family = "ff"
        out.append(d)
    # swap + twice assigned + struct + list + nets
    d = _mk("F%d" % k)
    k += 1
    d.comps.append(("c0",))
    a = d.add_sig((), "a", "in", 4)
    sel = d.add_sig((), "sel", "in", 2)
    si = d.add_sig((), "si", "in", "P8")
    p = d.add_sig((), "p", "out", 4)
    q = d.add_sig((), "q", "out", 4)
    rs = d.add_sig((), "rs", "out", "P8")
    fw = d.add_sig((), "fw", "out", 4)         # whole-signal net from register p (aliased)
    fs = d.add_sig((), "fs", "out", 2)         # slice net from register q
    ci = d.add_sig(("c0",), "i0", "in", 4)     # child's in-port aliased with register p
    co = d.add_sig(("c0",), "o0", "out", 4)
    arr = [d.add_sig((), "arr%d" % j, "wire", 4, arr=("arr", j, 4)) for j in range(4)]
    ro = d.add_sig((), "ro", "out", 4)
    for r_ in [p, q, rs] + arr:
        r_.reg = True
    blk(d, "fa", (), [as_(View(p), rd(View(q)))], "ff")
    blk(d, "fb", (), [as_(View(q), rd(View(p))),
                      {"k": "if", "c": rd(View(sel, (), (0, 1))), "th": [as_(View(q), add(rd(View(p)), rd(View(a)), 4))], "el": []}], "ff")
    blk(d, "fc", (), [as_(View(rs), rd(View(si)))], "ff")
    blk(d, "fd", (), [{"k": "asi", "arr": arr, "i": rd(View(sel)), "e": add(rd(View(fw)), rd(View(rs, ("a",))), 4)}], "ff")
    blk(d, "cr", (), [as_(View(ro), {"k": "idx", "arr": arr, "i": rd(View(sel))})])
    conn(d, View(p), View(fw), ())
    conn(d, View(p), View(ci), ())
    conn(d, View(q, (), (1, 3)), View(fs), ())
    blk(d, "cc", ("c0",), [as_(View(co), add(rd(View(ci)), lit(4, 3), 4))])
    d.family = "ff"
    out.append(d)
    # a list of signals in which element 0 is NOT a register (driven by a net) while the later elements are
    # registers written through constant indices, enable-guarded and without a reset branch: a register that is
    # not assigned in the first cycles must hold (added after seeded change C07-E: the double-buffer flag of a
    # list read once, from element 0)
    d = _mk("F%d" % k)
    k += 1
    a = d.add_sig((), "a", "in", 4)
    en = d.add_sig((), "en", "in", 1)
    pipe = [d.add_sig((), "pipe%d" % j, "wire", 4, arr=("pipe", j, 3)) for j in range(3)]
    o = d.add_sig((), "o", "out", 4)
    pipe[1].reg = pipe[2].reg = True
    conn(d, View(a), View(pipe[0]), ())
    blk(d, "fp", (), [{"k": "if", "c": rd(View(en)), "th": [as_(View(pipe[1]), rd(View(pipe[0]))), as_(View(pipe[2]), rd(View(pipe[1])))],
                       "el": []}], "ff")
    blk(d, "co", (), [as_(View(o), xor(rd(View(pipe[2])), rd(View(pipe[0])), 4))])
    d.family = "ff"
    out.append(d)
    # presets: registers and wires loaded with literals written as BitsN(v), as the int v and as the
    # negative int v - 2^w (`s.cnt <<= -1` = all ones); added after seeded change C07-B (the two's
    # complement mask of an int assigned with <<= dropped: the committed value left [0, 2^n))
    d = _mk("F%d" % k)
    k += 1
    a = d.add_sig((), "a", "in", 4)
    pre = d.add_sig((), "pre", "in", 2)
    cnt = d.add_sig((), "cnt", "out", 8)
    r4 = d.add_sig((), "r4", "out", 4)
    r1 = d.add_sig((), "r1", "out", 1)
    snap = d.add_sig((), "snap", "out", 8)
    o = d.add_sig((), "o", "out", 4)
    for r_ in (cnt, r4, r1, snap):
        r_.reg = True
    sub = lambda x, y, w: {"k": "bin", "op": "sub", "a": x, "b": y, "w": w}  # noqa: E731
    blk(d, "fcnt", (), [{"k": "if", "c": rd(View(pre, (), (0, 1))), "th": [as_(View(cnt), lit(8, 255))],      # -1
                         "el": [as_(View(cnt), sub(rd(View(cnt)), lit(8, 1), 8))]}], "ff")
    blk(d, "fr4", (), [as_(View(r4), rd(View(a))),
                       {"k": "if", "c": rd(View(pre, (), (1, 2))), "th": [as_(View(r4), lit(4, 13))], "el": []},   # -3
                       {"k": "if", "c": rd(View(pre, (), (0, 1))), "th": [as_(View(r4), lit(4, 9))], "el": []}], "ff")  # 9
    blk(d, "fr1", (), [as_(View(r1), lit(1, 1))], "ff")                                                          # -1 on Bits1
    blk(d, "fsnap", (), [as_(View(snap), rd(View(cnt)))], "ff")          # sees only the pre-edge counter
    blk(d, "co", (), [{"k": "if", "c": rd(View(r1)), "th": [as_(View(o), lit(4, 10))],                           # -6
                       "el": [as_(View(o), rd(View(r4)))]}])
    d.family = "ff"
    out.append(d)
    return out


def loop_designs():
    """C11: cyclic groups.  false loops (bit-level acyclic) through slices / struct fields / list
    elements / nets that need several passes; convergent true loops; divergent loops; loops that
    contain an update_once block."""
    out = []
    k = 0
    # ripple false loop: A writes x[i] from y[i-1], B copies y = x : needs ~w passes
    for w in (2, 4, 6):
        for via_net in (False, True):
            d = _mk("L%d" % k)
            k += 1
            a = d.add_sig((), "a", "in", 1)
            x = d.add_sig((), "x", "wire", w)
            y = d.add_sig((), "y", "wire", w)
            o = d.add_sig((), "o", "out", w)
            ss = [as_(View(x, (), (0, 1)), rd(View(a)))]
            for j in range(1, w):
                ss.append(as_(View(x, (), (j, j + 1)), {"k": "not", "a": rd(View(y, (), (j - 1, j))), "w": 1}))
            blk(d, "A", (), ss)
            if via_net:
                # y's low half by a block, high half through slice nets: the loop passes through net steps
                h = w // 2
                blk(d, "B", (), [as_(View(y, (), (0, h)), rd(View(x, (), (0, h))))])
                conn(d, View(x, (), (h, w)), View(y, (), (h, w)), ())
            else:
                blk(d, "B", (), [as_(View(y), rd(View(x)))])
            blk(d, "C", (), [as_(View(o), rd(View(y)))])
            d.family = "falseloop"
            out.append(d)
    # false loop through struct fields, across a child component
    d = _mk("L%d" % k)
    k += 1
    d.comps.append(("c0",))
    a = d.add_sig((), "a", "in", 4)
    s_ = d.add_sig((), "s_", "wire", "P8")
    ci = d.add_sig(("c0",), "i0", "in", 4)
    co = d.add_sig(("c0",), "o0", "out", 4)
    o = d.add_sig((), "o", "out", 8)
    blk(d, "A", (), [as_(View(s_, ("a",)), rd(View(a))), as_(View(s_, ("b",)), rd(View(co)))])
    conn(d, View(s_, ("a",)), View(ci), ())
    blk(d, "B", ("c0",), [as_(View(co), add(rd(View(ci)), lit(4, 5), 4))])
    blk(d, "C", (), [as_(View(o), {"k": "cat", "hi": rd(View(s_, ("a",))), "lo": rd(View(s_, ("b",))), "low": 4})])
    d.family = "falseloop"
    out.append(d)
    # convergent true loops
    for variant in range(3):
        d = _mk("L%d" % k)
        k += 1
        a = d.add_sig((), "a", "in", 2)
        b = d.add_sig((), "b", "in", 2)
        x = d.add_sig((), "x", "wire", 2)
        y = d.add_sig((), "y", "wire", 2)
        o = d.add_sig((), "o", "out", 2)
        if variant == 0:      # x = a | y ; y = x & b      (monotone, settles)
            blk(d, "A", (), [as_(View(x), {"k": "bin", "op": "or", "a": rd(View(a)), "b": rd(View(y)), "w": 2})])
            blk(d, "B", (), [as_(View(y), {"k": "bin", "op": "and", "a": rd(View(x)), "b": rd(View(b)), "w": 2})])
        elif variant == 1:    # cross-coupled NOR latch on slices of one wire
            blk(d, "A", (), [as_(View(x, (), (0, 1)), {"k": "not", "a": {"k": "bin", "op": "or", "a": rd(View(a, (), (0, 1))),
                                                                        "b": rd(View(x, (), (1, 2))), "w": 1}, "w": 1})])
            blk(d, "B", (), [as_(View(x, (), (1, 2)), {"k": "not", "a": {"k": "bin", "op": "or", "a": rd(View(a, (), (1, 2))),
                                                                        "b": rd(View(x, (), (0, 1))), "w": 1}, "w": 1}),
                             as_(View(y), rd(View(b)))])
        else:                 # saturating: x = min-like: x = y if y < a else a ; y = x
            blk(d, "A", (), [as_(View(x), {"k": "ite", "c": {"k": "cmp", "op": "lt", "a": rd(View(y)), "b": rd(View(a))},
                                           "a": rd(View(y)), "b": rd(View(a))})])
            blk(d, "B", (), [as_(View(y), {"k": "bin", "op": "and", "a": rd(View(x)), "b": rd(View(b)), "w": 2})])
        blk(d, "C", (), [as_(View(o), xor(rd(View(x)), rd(View(y)), 2))])
        d.bitacyclic = False
        d.family = "trueloop"
        out.append(d)
    # divergent loops: x = ~y ; y = x   (1..3 blocks, through a net)
    for variant in range(3):
        d = _mk("L%d" % k)
        k += 1
        a = d.add_sig((), "a", "in", 1)
        x = d.add_sig((), "x", "wire", 2)
        y = d.add_sig((), "y", "wire", 2)
        z = d.add_sig((), "z", "wire", 2)
        o = d.add_sig((), "o", "out", 2)
        blk(d, "A", (), [as_(View(x), {"k": "not", "a": rd(View(y)), "w": 2})])
        if variant == 0:
            blk(d, "B", (), [as_(View(y), rd(View(x)))])
        elif variant == 1:
            blk(d, "B", (), [as_(View(z), rd(View(x)))])
            blk(d, "B2", (), [as_(View(y), add(rd(View(z)), {"k": "zext", "a": rd(View(a)), "w": 2}, 2))])
        else:
            blk(d, "B", (), [as_(View(z), rd(View(x)))])
            conn(d, View(z, (), (0, 1)), View(y, (), (0, 1)), ())
            conn(d, View(z, (), (1, 2)), View(y, (), (1, 2)), ())
        blk(d, "C", (), [as_(View(o), rd(View(y)))])
        d.bitacyclic = False
        d.family = "divergent"
        out.append(d)
    # large cyclic groups (>= 10 blocks, alternating branchy / branch-free stages): Mamba2020 partitions
    # the body of such a group into several meta blocks.  A ring whose loop closes through saturation:
    # stage 0 takes max(a, last stage), every other stage passes its predecessor on (odd stages through
    # an `if`), so the ring settles after two passes.
    for n in (10, 12, 15):
        d = _mk("L%d" % k)
        k += 1
        a = d.add_sig((), "a", "in", 3)
        st = [d.add_sig((), "s%d" % j, "wire", 3) for j in range(n)]
        o = d.add_sig((), "o", "out", 3)
        last = rd(View(st[n - 1]))
        blk(d, "t0", (), [{"k": "if", "c": {"k": "cmp", "op": "lt", "a": last, "b": rd(View(a))},
                           "th": [as_(View(st[0]), rd(View(a)))], "el": [as_(View(st[0]), last)]}])
        for j in range(1, n):
            prev = rd(View(st[j - 1]))
            if j % 2:
                blk(d, "t%d" % j, (), [{"k": "if", "c": {"k": "cmp", "op": "ne", "a": prev, "b": lit(3, 0)},
                                         "th": [as_(View(st[j]), prev)], "el": [as_(View(st[j]), lit(3, 0))]}])
            else:
                blk(d, "t%d" % j, (), [as_(View(st[j]), prev)])
        blk(d, "C", (), [as_(View(o), rd(View(st[n // 2])))])
        d.bitacyclic = False
        d.family = "trueloop"
        out.append(d)
    # a value cycle containing an update_once block: must be refused by every scheduler
    d = _mk("L%d" % k)
    k += 1
    a = d.add_sig((), "a", "in", 2)
    x = d.add_sig((), "x", "wire", 2)
    y = d.add_sig((), "y", "wire", 2)
    blk(d, "A", (), [as_(View(x), add(rd(View(y)), rd(View(a)), 2))])
    blk(d, "B", (), [as_(View(y), rd(View(x)))])
    d.blocks[-1]["once"] = True
    d.bitacyclic = False
    d.family = "oncecycle"
    out.append(d)
    return out


CHANNEL_SHAPES = ("whole", "parts", "rdslice", "fa", "fb", "nested", "arr", "lst")


def _channel(d, st, shape, j):
    """storage of one 4-bit quantity passed between the two blocks of a loop design.
    Returns (list of target views written in order, read expression builder)."""
    if shape in ("whole", "parts", "rdslice"):
        x = d.add_sig((), "x%d" % j, "wire", 4)
        tv = [View(x)] if shape != "parts" else [View(x, (), (0, 2)), View(x, (), (2, 4))]
        if shape == "rdslice":
            rdx = {"k": "cat", "hi": rd(View(x, (), (1, 4))), "lo": rd(View(x, (), (0, 1))), "low": 1}
        else:
            rdx = rd(View(x))
        return tv, rdx
    if shape in ("fa", "fb"):                      # two fields of ONE struct wire shared by the channels
        if "P8" not in st:
            st["P8"] = d.add_sig((), "st", "wire", "P8")
        v = View(st["P8"], ("a",) if shape == "fa" else ("b",))
        return [v], rd(v)
    if shape == "nested":
        if "N10" not in st:
            st["N10"] = d.add_sig((), "sn", "wire", "N10")
        v = View(st["N10"], ("p", "a"))
        return [v], rd(v)
    if shape == "lst":
        # a struct wire with a LIST field, written as a whole (from a Bits value) and read as a whole (copied to
        # a second struct wire by the reading block, which then reads the list elements of its copy): the
        # signal that carries the cycle is struct-typed and the part that changes lives in the list field
        # (seeded change C11-C: clone() of a bitstruct did not copy the Bits leaves of list fields, so the
        # snapshot taken around an iteration of the cyclic group aliased the live value)
        sl = d.add_sig((), "sl%d" % j, "wire", "L6")
        sm = d.add_sig((), "sm%d" % j, "wire", "L6")
        st.setdefault("pre", {})[j] = as_(View(sm), rd(View(sl)))
        rdx = {"k": "cat", "hi": rd(View(sm, ("v[1]",))), "lo": rd(View(sm, ("v[0]",))), "low": 2}
        return [View(sl)], rdx
    if shape == "arr":
        if "arr" not in st:
            st["arr"] = [d.add_sig((), "arr%d" % i, "wire", 4, arr=("arr", i, 4)) for i in range(4)]
            st["arrn"] = 0
        v = View(st["arr"][st["arrn"]])
        st["arrn"] += 1
        return [v], rd(v)
    raise ValueError(shape)


def loop_channel_designs(quick=False):
    """C11: two blocks W and R that pass a value back and forth through three channels
    (a -> c1 -> c2 -> c3 -> o; c1, c3 : W -> R, c2 : R -> W), every channel stored in one of the
    shapes of CHANNEL_SHAPES (whole wire, wire written in parts and read whole, wire read in
    slices, two fields of one shared struct, nested field, list element).  Block-level cyclic, bit-
    level acyclic: the cyclic-capable schedulers need two passes and must notice a change that
    travels through ANY of the shapes.  The divergent variants close the loop with an inversion
    (c1 = ~(c1 + even constant) has no fixed point): an error must be raised."""
    out = []
    k = 0
    combos = [(s1, s2, s3) for s1 in CHANNEL_SHAPES for s2 in CHANNEL_SHAPES for s3 in CHANNEL_SHAPES
              if not (s1 == s2 and s1 in ("fa", "fb", "nested")) and not (s1 == s3 and s1 in ("fa", "fb", "nested"))
              and not (s2 == s3 and s2 in ("fa", "fb", "nested"))]
    for ci, (s1, s2, s3) in enumerate(combos):
        for divergent in (False, True):
            if divergent and ci % 4:
                continue
            if quick and (ci % 5) not in (0, 3) and not ({s1, s3} in ({"fa", "fb"}, {"parts", "whole"}, {"parts", "fa"},
                                                                          {"lst"}, {"lst", "whole"})):
                continue
            d = _mk("LC%d" % k)
            k += 1
            a = d.add_sig((), "a", "in", 4)
            o = d.add_sig((), "o", "out", 4)
            st = {}
            (t1, r1), (t2, r2), (t3, r3) = _channel(d, st, s1, 1), _channel(d, st, s2, 2), _channel(d, st, s3, 3)

            def wr(tvs, e):
                if len(tvs) == 1 and tvs[0].w > 4:
                    return [as_(tvs[0], {"k": "zext", "a": e, "w": tvs[0].w})]
                if len(tvs) == 1:
                    return [as_(tvs[0], e)]
                # written in parts: low part, then high part of the same expression
                return [as_(tvs[0], {"k": "trunc", "a": e, "w": 2}),
                        as_(tvs[1], {"k": "trunc", "a": {"k": "bin", "op": "shr", "a": e, "b": lit(4, 2), "w": 4}, "w": 2})]

            src = rd(View(a))
            if divergent:
                src = {"k": "not", "a": r3, "w": 4}
            pre = lambda j: [st["pre"][j]] if j in st.get("pre", {}) else []  # noqa: E731
            blk(d, "W", (), wr(t1, add(src, lit(4, 1), 4)) + pre(2) + wr(t3, add(r2, lit(4, 2), 4)))
            blk(d, "R", (), pre(1) + wr(t2, add(r1, lit(4, 5), 4)) + pre(3) + [as_(View(o), add(r3, lit(4, 7), 4))])
            d.shapes = (s1, s2, s3)
            if divergent:
                d.bitacyclic = False
                d.family = "divergent"
            else:
                d.family = "falseloop"
            out.append(d)
    return out


def model_designs():
    """Tiny designs (input widths <= 2) for the exhaustive TLC run over ALL interleavings."""
    out = []
    # M0: two writers of disjoint slices, overlapping reader, second stage, a register swap pair
    d = _mk("M0")
    a = d.add_sig((), "a", "in", 2)
    x = d.add_sig((), "x", "wire", 2)
    y = d.add_sig((), "y", "wire", 2)
    o = d.add_sig((), "o", "out", 2)
    r0 = d.add_sig((), "r0", "out", 2)
    r1 = d.add_sig((), "r1", "out", 2)
    r0.reg = r1.reg = True
    blk(d, "w0", (), [as_(View(x, (), (0, 1)), rd(View(a, (), (0, 1))))])
    blk(d, "w1", (), [as_(View(x, (), (1, 2)), {"k": "not", "a": rd(View(a, (), (1, 2))), "w": 1})])
    blk(d, "r", (), [as_(View(y), add(rd(View(x)), rd(View(r0)), 2))])
    blk(d, "s", (), [as_(View(o), xor(rd(View(y)), rd(View(r1)), 2))])
    blk(d, "f0", (), [as_(View(r0), rd(View(r1)))], "ff")
    blk(d, "f1", (), [as_(View(r1), add(rd(View(r0)), rd(View(a)), 2))], "ff")
    out.append(d)
    # M1: false loop through disjoint slices (block-level cycle, bit-level acyclic) + net
    d = _mk("M1")
    a = d.add_sig((), "a", "in", 2)
    x = d.add_sig((), "x", "wire", 2)
    y = d.add_sig((), "y", "wire", 1)
    o = d.add_sig((), "o", "out", 2)
    blk(d, "p", (), [as_(View(x, (), (0, 1)), rd(View(a, (), (0, 1)))),
                     as_(View(x, (), (1, 2)), xor(rd(View(y)), rd(View(a, (), (1, 2))), 1))])
    blk(d, "q", (), [as_(View(y), {"k": "not", "a": rd(View(x, (), (0, 1))), "w": 1})])
    conn(d, View(x), View(o), ())
    d.family = "falseloop"
    out.append(d)
    # M2: struct fields, explicit extra constraint, enabled register that may hold
    d = _mk("M2")
    a = d.add_sig((), "a", "in", 1)
    b = d.add_sig((), "b", "in", 2)
    s_ = d.add_sig((), "s_", "wire", "Q3")
    o = d.add_sig((), "o", "out", 2)
    r = d.add_sig((), "r", "out", 2)
    r.reg = True
    blk(d, "u0", (), [as_(View(s_, ("x",)), rd(View(a)))])
    blk(d, "u1", (), [as_(View(s_, ("y",)), add(rd(View(b)), rd(View(r)), 2))])
    blk(d, "u2", (), [as_(View(o), {"k": "ite", "c": rd(View(s_, ("x",))), "a": rd(View(s_, ("y",))), "b": rd(View(r))})])
    blk(d, "g0", (), [{"k": "if", "c": rd(View(a)), "th": [as_(View(r), rd(View(s_, ("y",))))], "el": []},
                      {"k": "if", "c": rd(View(b, (), (0, 1))), "th": [as_(View(r), lit(2, 3))], "el": []}], "ff")
    d.explicit.append(("u0", "u1"))
    out.append(d)
    return out


# ------------------------------------------------------------------------------------------
# running the implementation
# ------------------------------------------------------------------------------------------

def sub_payload(pl):
    used = sorted({t["d"] for t in pl["traces"]})
    m = {d: i + 1 for i, d in enumerate(used)}
    return {"designs": [pl["designs"][d - 1] for d in used],
            "traces": [dict(t, d=m[t["d"]]) for t in pl["traces"]]}


class Corpus:
    def __init__(self, res, tag):
        self.res = res
        self.tag = tag
        self.designs = []      # Design objects
        self.djs = []
        self.traces = []
        self.R = rng(tag + ":run")
        self.mod = None

    def add(self, designs):
        self.designs += designs

    def load(self, sdir):
        path = os.path.join(sdir, "gen_%s.py" % self.tag.replace(":", "_").replace("-", "_"))
        kernel.write_module(self.designs, path, rng(self.tag + ":order"))
        self.mod = kernel.load_module(path)
        self.djs = [d.spec_json() for d in self.designs]

    def trace(self, di, mode, label, top, cycles, recheck=True):
        d, dj = self.designs[di], self.djs[di]
        stim = kernel.make_stimulus(d, self.R, cycles)
        ev = kernel.run_stimulus(top, d, dj, stim, recheck=recheck)
        self.traces.append({"d": di + 1, "cyccap": kernel.CYCLE_CAPABLE[mode], "mode": label, "ev": ev})
        self.res.add_evals(len(ev))

    def sched_event(self, di, mode, label, exc):
        """the design could not be scheduled: record what was raised."""
        self.traces.append({"d": di + 1, "cyccap": kernel.CYCLE_CAPABLE[mode], "mode": label,
                            "ev": [{"k": "schedraise", "cls": type(exc).__name__, "msg": str(exc)[:200]}]})

    def run_modes(self, modes, cycles, seeds=(0,), recheck=True, only=None, sched_only=None):
        for di, d in enumerate(self.designs):
            if only is not None and not only(d):
                continue
            for mode in modes:
                for sd in (seeds if mode == "simple" else seeds[:1]):
                    top, exc = kernel.build(self.mod, d, mode, tie_seed=sd)
                    label = "%s/%d" % (mode, sd)
                    if top is None:
                        self.sched_event(di, mode, label, exc)
                        continue
                    self.traces.append({"d": di + 1, "cyccap": kernel.CYCLE_CAPABLE[mode], "mode": label,
                                        "ev": [{"k": "schedok"}]})
                    if sched_only is not None and sched_only(d):
                        continue
                    self.trace(di, mode, label, top, cycles, recheck)
                    self.res.distinct((self.tag, d.name, label))

    def run_forced(self, limit, cycles, only=None):
        """every (or `limit` sampled) linear extension of pymtl3's own constraint set is forced onto
        the simulator; if pymtl3 missed a constraint, one of them violates Ready(b)."""
        n_ext = 0
        for di, d in enumerate(self.designs):
            if only is not None and not only(d):
                continue
            top, exc = kernel.build(self.mod, d, "forced", forced=lambda t: t._sched.update_schedule)
            if top is None:
                self.sched_event(di, "forced", "forced/probe", exc)
                continue
            exts, complete = kernel.linear_extensions(top, limit, self.R)
            names = []
            for order in exts:
                names.append([kernel._blk_name(top, b) for b in order])
            for k, order_names in enumerate(names):
                def forced(t, order_names=order_names):
                    byname = {kernel._blk_name(t, b): b for b in t._dag.final_upblks}
                    return [byname[nm] for nm in order_names]
                top2, exc = kernel.build(self.mod, d, "forced", forced=forced)
                if top2 is None:
                    raise MachineryError("forced schedule build failed: %r" % exc)
                self.trace(di, "forced", "forced/%d" % k, top2, cycles, recheck=False)
                n_ext += 1
                self.res.distinct((self.tag, d.name, "ext", tuple(order_names)))
            self.res.count("designs_with_all_extensions_enumerated", 1 if complete else 0)
        self.res.count("forced_linear_extensions", n_ext)

    def run_ff_perms(self, limit, cycles, modes=("simple", "dyn"), only=None):
        nperm = 0
        for di, d in enumerate(self.designs):
            if only is not None and not only(d):
                continue
            nff = sum(1 for b in d.blocks if b["kind"] == "ff")
            if nff < 2:
                continue
            if nff <= 6:
                perms = list(itertools.permutations(range(nff)))
                if len(perms) > limit:
                    perms = self.R.sample(perms, limit)
            else:                       # never materialise n! tuples: draw distinct random permutations
                seen = set()
                while len(seen) < limit:
                    q = list(range(nff))
                    self.R.shuffle(q)
                    seen.add(tuple(q))
                perms = sorted(seen)
            for mode in modes:
                for p in perms:
                    top, exc = kernel.build(self.mod, d, mode, ff_perm=p)
                    if top is None:
                        self.sched_event(di, mode, "%s/ffperm" % mode, exc)
                        break
                    self.trace(di, mode, "%s/ff%s" % (mode, "".join(map(str, p))), top, cycles, recheck=False)
                    nperm += 1
                    self.res.distinct((self.tag, d.name, mode, "ffperm", p))
        self.res.count("forced_ff_permutations", nperm)

    # ------------------------------------------------------------------------------ validation
    def validate(self, pid, clauses=None):
        res = self.res
        if not self.traces:
            raise MachineryError("no traces recorded for %s" % self.tag)
        payload = {"designs": self.djs, "traces": self.traces}
        runs, verdicts = tlc.validate_traces("SimKernelTrace", payload, payload_fn=sub_payload, chunk=40)
        for r in runs:
            res.add_tlc(r)
        res.add_traces(len(self.traces))
        nbad = 0
        for t, (err, pos) in zip(self.traces, verdicts):
            if err == "ok":
                continue
            nbad += 1
            d = self.designs[t["d"] - 1]
            dj = self.djs[t["d"] - 1]
            ev = t["ev"][pos - 1] if pos - 1 < len(t["ev"]) else None
            bname = dj["steps"][ev["b"] - 1]["name"] if ev and ev.get("b") else None
            key = "%s:%s:%s:%s:%s" % (self.tag, d.name, t["mode"].split("/")[0], err, bname)
            res.violation(key,
                          "design %s under %s: kernel trace rejected, clause '%s' at event %d (%s, block %s)"
                          % (d.name, t["mode"], err, pos, ev and ev["k"], bname),
                          {"clause": err, "event_index": pos, "event": ev, "mode": t["mode"],
                           "design": dj, "source": d.py_source(), "trace": t["ev"][:pos]})
        return verdicts

    def canaries(self, verdicts, n=12):
        """corrupted copies of accepted traces must be rejected."""
        good = [t for t, v in zip(self.traces, verdicts) if v[0] == "ok" and len(t["ev"]) > 6]
        R = rng(self.tag + ":canary")
        R.shuffle(good)
        can, kinds = [], []
        for t in good:
            if len(can) >= n:
                break
            c = copy.deepcopy(t)
            steps = [i for i, e in enumerate(c["ev"]) if e["k"] == "step"]
            ends = [i for i, e in enumerate(c["ev"]) if e["k"] in ("eeval", "etick")]
            kind = len(can) % 4
            dj = self.djs[t["d"] - 1]
            if kind == 0 and ends:
                i = ends[-1]
                c["ev"][i]["st"] = list(c["ev"][i]["st"])
                c["ev"][i]["st"][-1] ^= 1                      # flipped value at the end of a pass
            elif kind == 1 and len(steps) >= 2 and not designgen.is_block_cyclic(dj):
                # swap a dependent pair of steps if there is one (only in block-acyclic designs: inside a
                # cyclic group any order is a behaviour of the specification)
                pairs = [(i, j) for i, j in zip(steps, steps[1:]) if j == i + 1]
                found = False
                fp = designgen.footprints(dj)
                for i, j in pairs:
                    a, b = c["ev"][i]["b"] - 1, c["ev"][j]["b"] - 1
                    if fp[a][1] & fp[b][0]:
                        c["ev"][i], c["ev"][j] = c["ev"][j], c["ev"][i]
                        found = True
                        break
                if not found:
                    continue
            elif kind == 2 and steps:
                # a block that never ran: only a step whose block runs exactly once in its pass is
                # a sound canary (a member of a cyclic group may legitimately run again later)
                seg, cand = {}, None
                pass_no = 0
                for i, e in enumerate(c["ev"]):
                    if e["k"] in ("beval", "btick", "eeval", "etick", "flip"):
                        pass_no += 1
                    elif e["k"] == "step":
                        seg.setdefault((pass_no, e["b"]), []).append(i)
                once = sorted(v[0] for v in seg.values() if len(v) == 1)
                # ... and only if the value it computed matters (the state changed at that step)
                for i in once:
                    prev = c["ev"][i - 1].get("st") if i > 0 else None
                    if prev is not None and prev != c["ev"][i].get("st"):
                        cand = i
                        break
                if cand is None:
                    continue
                del c["ev"][cand]
            elif kind == 3:
                ffs = [i for i, e in enumerate(c["ev"]) if e["k"] == "flip"]
                regs = [i for i, s in enumerate(dj["sigs"]) if s["reg"]]
                if not ffs or not regs:
                    continue
                i = ffs[0]
                c["ev"][i]["st"] = list(c["ev"][i]["st"])
                c["ev"][i]["st"][regs[0]] ^= 1                 # wrong committed register value
            else:
                continue
            can.append(c)
            kinds.append(kind)
        if not can:
            raise MachineryError("no canary could be built for %s" % self.tag)
        _, cv = tlc.validate_traces("SimKernelTrace", {"designs": self.djs, "traces": can},
                                    payload_fn=sub_payload, chunk=40)
        acc = [(i, kinds[i]) for i, v in enumerate(cv) if v[0] == "ok"]
        if acc:
            raise MachineryError("canary traces accepted by SimKernelTrace: %s" % acc)
        self.res.count("canaries_rejected", len(can))
        self.res.note("canary_clauses", sorted({v[0] for v in cv}))


def run_chunked(res, tag, pid, sdir, designs, size, drive, canaries_n=12, on_chunk=None):
    """Drive, validate and discard the designs in chunks of `size`, so that the recorded traces of a
    thorough run never all live in memory at once (a full C01 thorough corpus is > 50 GB of Python
    objects).  drive(corpus) runs the simulator.  Canaries are derived from the first chunk.  Returns the
    first chunk's Corpus (for samples) and the number of designs."""
    first = None
    for k in range(0, len(designs), size):
        c = Corpus(res, tag if k == 0 else "%s_%d" % (tag, k // size))
        c.add(designs[k:k + size])
        c.load(sdir)
        drive(c)
        verdicts = c.validate(pid)
        if on_chunk:
            on_chunk(c)
        if k == 0:
            c.canaries(verdicts, n=canaries_n)
            first = c
        else:
            c.traces = []
            c.mod = None
        import gc
        gc.collect()
    return first, len(designs)


def model_check(res, maxcyc=1):
    """TLC over ALL interleavings of the spec's own scheduler on the model designs."""
    ds = model_designs()
    import tempfile
    with scratch("kmc_") as sdir:
        fn = os.path.join(sdir, "models.json")
        with open(fn, "w") as f:
            json.dump({"designs": [d.spec_json() for d in ds], "maxcyc": maxcyc}, f)
        r = tlc.run("SimKernel", env={"VERIF_INPUT": fn}, coverage=True, timeout=3000)
    res.add_tlc(r)
    if r.violated:
        res.violation("model:%s" % r.violated, "SimKernel.tla violates %s" % r.violated, r.out[-4000:])
    elif not r.ok:
        raise MachineryError("TLC failed on SimKernel: %s\n%s" % (r.errors, r.out[-3000:]))
    for act in ("SomeRunComb", "SomeRerun", "EndPass", "SomeRunFF", "Flip", "NextPass"):
        if r.coverage.get(act, (0, 0))[1] == 0:
            raise MachineryError("action %s never taken in SimKernel model check (vacuous)" % act)
    return ds
