"""Helpers of the C06 check (bitstruct packing): shapes, class construction through both public
routes, projection of real objects to the positional values of spec/BitStruct.tla, execution of
the spec's action records on real objects.

Shapes / values / bit vectors are exactly the JSON forms documented at the top of BitStruct.tla:
  shape:  {"k":"leaf","w":W} | {"k":"struct","fs":[{"n":name,"t":shape},...]} | {"k":"list","n":N,"t":shape}
  value:  leaf -> list of W bits (LSB first); struct -> list of field values; list -> list of elements
Nothing here knows the packing order: expected bits always come from TLC.
"""
import copy
import importlib.util
import operator
import os
import sys


def leaf(w):
    return {"k": "leaf", "w": w}


def struct(fields):
    return {"k": "struct", "fs": [{"n": n, "t": t} for n, t in fields]}


def lst(n, t):
    return {"k": "list", "n": n, "t": t}


def shape_str(t):
    if t["k"] == "leaf":
        return "L%d" % t["w"]
    if t["k"] == "list":
        return "A%d(%s)" % (t["n"], shape_str(t["t"]))
    return "S(%s)" % ",".join("%s:%s" % (f["n"], shape_str(f["t"])) for f in t["fs"])


def total_bits(t):
    """Sum of the leaf widths (used by the random generator to stay below 1024 only)."""
    if t["k"] == "leaf":
        return t["w"]
    if t["k"] == "list":
        return t["n"] * total_bits(t["t"])
    return sum(total_bits(f["t"]) for f in t["fs"])


def n_nodes(t):
    if t["k"] == "leaf":
        return 1
    if t["k"] == "list":
        return 1 + n_nodes(t["t"])
    return 1 + sum(n_nodes(f["t"]) for f in t["fs"])


def has_list(t):
    if t["k"] == "leaf":
        return False
    if t["k"] == "list":
        return True
    return any(has_list(f["t"]) for f in t["fs"])


def depth(t):
    if t["k"] == "leaf":
        return 0
    if t["k"] == "list":
        return depth(t["t"])
    return 1 + max(depth(f["t"]) for f in t["fs"])


def leaf_paths(t, pre=()):
    """All leaf paths (names / decimal indices) in declaration order, with the leaf width."""
    if t["k"] == "leaf":
        return [(list(pre), t["w"])]
    out = []
    if t["k"] == "list":
        for i in range(t["n"]):
            out += leaf_paths(t["t"], pre + (str(i),))
    else:
        for f in t["fs"]:
            out += leaf_paths(f["t"], pre + (f["n"],))
    return out


def features(t):
    """Coarse feature signature of a shape (evidence / distinct-case accounting)."""
    fs = set()

    def walk(x, in_struct_list):
        if x["k"] == "struct":
            ws = [f["t"]["w"] for f in x["fs"] if f["t"]["k"] == "leaf"]
            if len(ws) != len(set(ws)):
                fs.add("equal-width-siblings")
            fs.add("fields=%d" % len(x["fs"]))
            for f in x["fs"]:
                if f["t"]["k"] == "struct":
                    fs.add("struct-in-struct")
                walk(f["t"], False)
        elif x["k"] == "list":
            if x["n"] == 1:
                fs.add("1-element-list")
            if x["t"]["k"] == "list":
                fs.add("2d-list")
            e = x
            while e["k"] == "list":
                e = e["t"]
            if e["k"] == "struct":
                fs.add("list-of-structs")
            walk(x["t"], True)

    walk(t, False)
    fs.add("depth=%d" % depth(t))
    return sorted(fs)


def family_count(max_nodes, widths=3, list_ns=2, max_fields=3, max_depth=3):
    """Independent count of the family of spec/BitStructMC.tla (number of shapes)."""
    from functools import lru_cache

    @lru_cache(None)
    def E(d, k):
        return (widths if k == 1 else 0) + S(d, k)

    @lru_cache(None)
    def F(d, k):
        return E(d, k) + list_ns * E(d, k - 1) + list_ns * list_ns * E(d, k - 2)

    @lru_cache(None)
    def S(d, k):
        if d == 0 or k < 2:
            return 0
        r = k - 1
        tot = F(d - 1, r)
        if max_fields >= 2:
            for a in range(1, r):
                tot += F(d - 1, a) * F(d - 1, r - a)
        if max_fields >= 3:
            for a in range(1, r - 1):
                for b in range(1, r - a):
                    tot += F(d - 1, a) * F(d - 1, b) * F(d - 1, r - a - b)
        return tot

    return sum(S(max_depth, k) for k in range(2, max_nodes + 1))


# --------------------------------------------------------------------------------------
# classes
# --------------------------------------------------------------------------------------

def _bits_expr(w):
    return "Bits%d" % w if w < 256 else "mk_bits(%d)" % w


class SrcModule:
    """Collects `@bitstruct` class definitions into one scratch .py file."""

    def __init__(self, modname):
        self.modname = modname
        self.lines = ["from pymtl3.datatypes import *", "from pymtl3.datatypes.bits_import import mk_bits", ""]
        self.n = 0
        self.mod = None

    def _type_expr(self, t, prefix, names):
        if t["k"] == "leaf":
            return _bits_expr(t["w"])
        if t["k"] == "struct":
            return self.add(t, prefix, names)
        inner = self._type_expr(t["t"], prefix, names)
        if t["n"] <= 4:
            return "[" + ", ".join([inner] * t["n"]) + "]"
        return "[%s for _ in range(%d)]" % (inner, t["n"])

    def add(self, t, prefix, names=None):
        """Emit classes for struct shape t (inner classes first); returns the class name."""
        exprs = [(f["n"], self._type_expr(f["t"], prefix, names)) for f in t["fs"]]
        self.n += 1
        name = "%s_%d" % (prefix, self.n)
        self.lines.append("@bitstruct")
        self.lines.append("class %s:" % name)
        for n, e in exprs:
            self.lines.append("  %s: %s" % (n, e))
        self.lines.append("")
        return name

    def load(self, directory):
        path = os.path.join(directory, self.modname + ".py")
        with open(path, "w") as f:
            f.write("\n".join(self.lines) + "\n")
        spec = importlib.util.spec_from_file_location(self.modname, path)
        mod = importlib.util.module_from_spec(spec)
        sys.modules[self.modname] = mod
        spec.loader.exec_module(mod)
        self.mod = mod
        return mod

    def get(self, name):
        return getattr(self.mod, name)


_mk_counter = [0]


def build_mk(t, prefix, fixed_name=None):
    """Class for struct shape t through mk_bitstruct (inner classes first).  With fixed_name every
    struct class of the type (inner ones too) gets that same __name__."""
    from pymtl3.datatypes import mk_bits, mk_bitstruct

    def ty(x):
        if x["k"] == "leaf":
            return mk_bits(x["w"])
        if x["k"] == "struct":
            return build_mk(x, prefix, fixed_name)
        base = x
        while base["k"] == "list":
            base = base["t"]
        e = ty(base)               # one element class, fresh list objects

        def rec(y):
            if y["k"] != "list":
                return e
            return [rec(y["t"]) for _ in range(y["n"])]
        return rec(x)

    fields = {f["n"]: ty(f["t"]) for f in t["fs"]}
    _mk_counter[0] += 1
    name = fixed_name or "%s_%d" % (prefix, _mk_counter[0])
    return mk_bitstruct(name, fields)


_DECL_NS = {}


def declare_src(t, name):
    """Declare struct shape t through `@bitstruct` on class statements executed NOW; every struct class of
    the type (inner ones first) is a `class <name>:` statement, i.e. all of them share __name__ == name."""
    if not _DECL_NS:
        exec("from pymtl3.datatypes import *\nfrom pymtl3.datatypes.bits_import import mk_bits\n", _DECL_NS)
    lines = []
    cnt = [0]

    def ty(x):
        if x["k"] == "leaf":
            return _bits_expr(x["w"])
        if x["k"] == "struct":
            return emit(x)
        inner = ty(x["t"])
        return "[" + ", ".join([inner] * x["n"]) + "]" if x["n"] <= 4 else "[%s for _ in range(%d)]" % (inner, x["n"])

    def emit(x):
        exprs = [(f["n"], ty(f["t"])) for f in x["fs"]]
        cnt[0] += 1
        alias = "_decl_t%d" % cnt[0]
        lines.append("@bitstruct")
        lines.append("class %s:" % name)
        for n, e in exprs:
            lines.append("  %s: %s" % (n, e))
        lines.append("%s = %s" % (alias, name))
        return alias

    top = emit(t)
    ns = dict(_DECL_NS)
    exec(compile("\n".join(lines) + "\n", "<c06 declaration of %s>" % name, "exec"), ns)
    return ns[top]


def declare(t, name, route):
    """the class pymtl3 returns for declaring shape t under class name `name` ("src": @bitstruct, "mk": mk_bitstruct)"""
    return declare_src(t, name) if route == "src" else build_mk(t, name, name)


# --------------------------------------------------------------------------------------
# values
# --------------------------------------------------------------------------------------

class Structure(Exception):
    """A real object does not have the structure its declared shape demands."""


def bits_to_int(b):
    v = 0
    for i, x in enumerate(b):
        if x:
            v |= 1 << i
    return v


def int_to_bits(v, w):
    return [(v >> i) & 1 for i in range(w)] if w <= 64 else [int(c) for c in format(v, "0%db" % w)[::-1]]


def mkbits(b):
    from pymtl3.datatypes import mk_bits
    return mk_bits(len(b))(bits_to_int(b))


def bits_of(x, w, where="value"):
    from pymtl3.datatypes import Bits
    if not isinstance(x, Bits):
        raise Structure("%s is a %s, not Bits" % (where, type(x).__name__))
    if x.nbits != w:
        raise Structure("%s has %d bits, expected %d" % (where, x.nbits, w))
    return int_to_bits(int(x), w)


def project(obj, t, cls=None, where="obj"):
    """Read the object field by field (never through to_bits) into a positional value."""
    if t["k"] == "leaf":
        return bits_of(obj, t["w"], where)
    if t["k"] == "list":
        if not isinstance(obj, list) or len(obj) != t["n"]:
            raise Structure("%s is not a list of %d elements: %r" % (where, t["n"], type(obj).__name__))
        return [project(obj[i], t["t"], None, "%s[%d]" % (where, i)) for i in range(t["n"])]
    if cls is not None and type(obj) is not cls:
        raise Structure("%s is a %s, not %s" % (where, type(obj).__name__, cls.__name__))
    if not hasattr(type(obj), "__bitstruct_fields__"):
        raise Structure("%s is a %s, not a bitstruct" % (where, type(obj).__name__))
    return [project(getattr(obj, f["n"]), f["t"], None, "%s.%s" % (where, f["n"])) for f in t["fs"]]


def build_value(cls, t, v):
    """Construct a real object holding value v through the constructors (fresh Bits everywhere)."""
    def arg(ft, typ, fv):
        if ft["k"] == "leaf":
            return mkbits(fv)
        if ft["k"] == "list":
            return [arg(ft["t"], typ[i], fv[i]) for i in range(ft["n"])]
        return build_value(typ, ft, fv)
    fields = cls.__bitstruct_fields__
    kw = {f["n"]: arg(f["t"], fields[f["n"]], v[i]) for i, f in enumerate(t["fs"])}
    return cls(**kw)


def nav(obj, path):
    for p in path:
        obj = obj[int(p)] if p.isdigit() else getattr(obj, p)
    return obj


def set_leaf(obj, path, kind, x):
    """kind 'inplace':  obj.<path> @= BitsW(x);  'rebind':  obj.<path> = BitsW(x)"""
    parent = nav(obj, path[:-1])
    last = path[-1]
    new = mkbits(x)
    if kind == "inplace":
        cur = parent[int(last)] if last.isdigit() else getattr(parent, last)
        new = operator.imatmul(cur, new)      # what `parent.last @= new` does
    if last.isdigit():
        parent[int(last)] = new
    else:
        setattr(parent, last, new)


def scribble(bits):
    """Overwrite a Bits object in place with its complement.  The harness does this to the SOURCE of
    from_bits / `@= Bits` / `<<= Bits` and to the RESULT of to_bits() right after the call: the struct must
    have copied the value, not kept (or handed out) the object."""
    bits @= (~bits)


_FOREIGN = {}


def foreign_class(cls):
    """A DIFFERENT bitstruct class of the same total width: the fields of `cls` (same names, same types) in
    reversed order.  `d @= f` / `d <<= f` with f of that class transfers the PACKED value
    (bitstructs.py: a right-hand side of another class goes through from_bits(other.to_bits())), exactly like a
    BitsN right-hand side; the fields of equal name sit at other bit positions, so a copy by field name gives
    another packed value.  (Added after seeded change C06-E.)"""
    if cls not in _FOREIGN:
        from pymtl3.datatypes import mk_bitstruct
        fields = list(cls.__bitstruct_fields__.items())
        _FOREIGN[cls] = mk_bitstruct(cls.__name__ + "_Rev", dict(reversed(fields)))
    return _FOREIGN[cls]


def _rhs_of_bits(cls, a):
    """the right-hand side of assignbits / nbassignbits: BitsN(b), or (via = 'foreign') a bitstruct of another
    class holding the same packed value"""
    src = mkbits(a["b"])
    if a.get("via") == "foreign":
        return foreign_class(cls).from_bits(src), src
    return src, src


def apply_action(objs, cls, a):
    """Execute one action record of BitStruct.tla on the real objects (dict name -> object)."""
    op, d = a["op"], a["d"]
    if op == "frombits":
        src = mkbits(a["b"])
        objs[d] = cls.from_bits(src)
        scribble(src)
    elif op == "default":
        objs[d] = cls()
    elif op == "assign":
        objs[d] = operator.imatmul(objs[d], objs[a["s"]])
    elif op == "assignbits":
        rhs, src = _rhs_of_bits(cls, a)
        objs[d] = operator.imatmul(objs[d], rhs)
        scribble(src)
        if rhs is not src:
            rhs @= foreign_class(cls).from_bits(src)       # the source object is overwritten afterwards
    elif op == "nbassign":
        objs[d] = operator.ilshift(objs[d], objs[a["s"]])
    elif op == "nbassignbits":
        rhs, src = _rhs_of_bits(cls, a)
        objs[d] = operator.ilshift(objs[d], rhs)
        scribble(src)
        if rhs is not src:
            rhs @= foreign_class(cls).from_bits(src)
    elif op == "flip":
        objs[d]._flip()
    elif op == "clone":
        objs[d] = objs[a["s"]].clone()
    elif op == "deepcopy":
        objs[d] = copy.deepcopy(objs[a["s"]])
    elif op == "mutate":
        set_leaf(objs[d], a["path"], a["kind"], a["x"])
    else:
        raise ValueError("unknown action %r" % (a,))


def act_str(a):
    s = a["op"] + "(" + a["d"]
    if "s" in a:
        s += "," + a["s"]
    if "path" in a:
        s += "," + ".".join(a["path"]) + "," + a["kind"]
    return s + ")"


def hash_pair(a, b, shape):
    """(kind, detail): kind None if both hashes are defined; 'hash-list-field' for the known
    TypeError on list fields; another string for any other failure."""
    try:
        return None, (hash(a), hash(b))
    except TypeError as e:
        if has_list(shape) and "unhashable type: 'list'" in str(e):
            return "hash-list-field", str(e)
        return "hash-raises", "%s: %s" % (type(e).__name__, e)
    except Exception as e:  # noqa: BLE001
        return "hash-raises", "%s: %s" % (type(e).__name__, e)
