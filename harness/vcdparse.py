"""An independent reader of Value Change Dump files (IEEE 1364 section 18, four-state VCD subset).

It knows nothing about pymtl3: the file is tokenised on white space and turned into a flat list of
events, in file order, for spec/VcdTrace.tla (which owns the *meaning*: the reading rule "a variable
holds its last dumped value", time, the clock rule).

  {"k": "scope", "kind": "module", "name": "top"}       $scope module top $end
  {"k": "upscope"}                                       $upscope $end
  {"k": "var", "kind": "reg", "w": 4, "sym": "!", "name": "in_"}
                                                         $var reg 4 ! in_ $end
  {"k": "enddefs"}                                       $enddefinitions $end
  {"k": "time", "t": 100}                                #100
  {"k": "change", "sym": "!", "v": "0101"}               b0101 !      (vector, msb first)
  {"k": "change", "sym": "$", "v": "1"}                  1$           (scalar)
  {"k": "bad", "text": ...}                              anything that cannot be read (parsing stops)
  {"k": "eof"}                                           always last

Values keep exactly the characters of the file (lower-cased x/z); left-extension to the declared
width is part of the reading rule, not of the parser.  $date/$version/$timescale/$comment bodies are
kept in `meta`; $dumpvars/$dumpall/$dumpon/$dumpoff ... $end only bracket ordinary value changes.
"""

SCALAR = "01xXzZ"
VECTOR_DIGITS = set("01xXzZ")
_SKIP_BODY = ("$date", "$version", "$timescale", "$comment")
_DUMP_KW = ("$dumpvars", "$dumpall", "$dumpon", "$dumpoff")


class VcdFile:
    def __init__(self):
        self.events = []
        self.meta = {}

    # convenience views used by the harness (not by the verdict)
    def vars(self):
        """list of (scope path tuple, name, sym, width)"""
        out, stack = [], []
        for e in self.events:
            if e["k"] == "scope":
                stack.append(e["name"])
            elif e["k"] == "upscope":
                if stack:
                    stack.pop()
            elif e["k"] == "var":
                out.append((tuple(stack), e["name"], e["sym"], e["w"]))
        return out


def parse_text(text):
    f = VcdFile()
    ev = f.events
    toks = text.split()
    i, n = 0, len(toks)
    defs_done = False

    def bad(msg):
        ev.append({"k": "bad", "text": msg})
        ev.append({"k": "eof"})
        return f

    def body(j):
        """tokens from j up to (not including) the next $end; returns (tokens, index after $end)"""
        k = j
        while k < n and toks[k] != "$end":
            k += 1
        if k >= n:
            return None, n
        return toks[j:k], k + 1

    while i < n:
        t = toks[i]
        if t[0] == "$" and not defs_done or (defs_done and t in _SKIP_BODY + _DUMP_KW + ("$end",)):
            if t in _SKIP_BODY:
                b, i2 = body(i + 1)
                if b is None:
                    return bad("unterminated %s" % t)
                f.meta[t[1:]] = " ".join(b)
                i = i2
            elif t == "$scope":
                b, i2 = body(i + 1)
                if b is None or len(b) != 2:
                    return bad("malformed $scope %r" % (b,))
                ev.append({"k": "scope", "kind": b[0], "name": b[1]})
                i = i2
            elif t == "$upscope":
                b, i2 = body(i + 1)
                if b is None or b:
                    return bad("malformed $upscope")
                ev.append({"k": "upscope"})
                i = i2
            elif t == "$var":
                b, i2 = body(i + 1)
                if b is None or len(b) < 4:
                    return bad("malformed $var %r" % (b,))
                try:
                    w = int(b[1])
                except ValueError:
                    return bad("non-numeric $var size %r" % b[1])
                ev.append({"k": "var", "kind": b[0], "w": w, "sym": b[2], "name": " ".join(b[3:])})
                i = i2
            elif t == "$enddefinitions":
                b, i2 = body(i + 1)
                if b is None or b:
                    return bad("malformed $enddefinitions")
                ev.append({"k": "enddefs"})
                defs_done = True
                i = i2
            elif t in _DUMP_KW or t == "$end":
                i += 1
            else:
                return bad("unknown keyword %r" % t)
            continue
        c = t[0]
        if c == "#":
            if not t[1:].isdigit():
                return bad("malformed time %r" % t)
            ev.append({"k": "time", "t": int(t[1:])})
            i += 1
        elif c in SCALAR:
            if len(t) < 2:
                return bad("scalar change without identifier %r" % t)
            ev.append({"k": "change", "sym": t[1:], "v": c.lower()})
            i += 1
        elif c in "bB":
            digits = t[1:]
            if not digits or not set(digits) <= VECTOR_DIGITS:
                return bad("malformed vector value %r" % t)
            if i + 1 >= n:
                return bad("vector change without identifier %r" % t)
            ev.append({"k": "change", "sym": toks[i + 1], "v": digits.lower()})
            i += 2
        elif c in "rR":
            return bad("real value change %r (not a four-state value)" % t)
        else:
            return bad("unreadable token %r" % t)
    ev.append({"k": "eof"})
    return f


def parse_file(path):
    with open(path) as fd:
        return parse_text(fd.read())
