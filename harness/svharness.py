"""Glue between pymtl3 and the SVSem trace specification (shared by C03 and C12).

  translate(factory, backend)        run the translation pass in the scratch cwd -> (text, top module)
  design_of(text, top)               svparse + svelab  -> flat design (JSON-able)
  walk_ports(top)                    the value ports of the top component incl. interface members
  record(factory, stimulus)          PyMTL simulation (DefaultPassGroup) -> list of cycles
  make_trace(flat, backend, cycles)  the JSON trace SVSemTrace validates

Python only parses, renames and ships JSON here; every value the emitted text computes is computed
by TLC from spec/SVSem.tla.
"""
import re

import svelab
import svparse
from common import MachineryError

SV, YOSYS = "sv", "yosys"


class Untranslatable(Exception):
    """The translation pass rejected the design (outside the quantifier of C03/C12)."""


def _passes(backend):
    if backend == SV:
        from pymtl3.passes.backends.verilog import VerilogTranslationPass as P
    else:
        from pymtl3.passes.backends.yosys import YosysTranslationPass as P
    return P


def translate(factory, backend, configure=None):
    """Build, elaborate and translate; returns (text, top module name).  cwd must be a scratch dir."""
    from pymtl3.passes.backends.verilog import VerilogPlaceholderPass
    P = _passes(backend)
    top = factory()
    top.elaborate()
    top.set_metadata(P.enable, True)
    if configure:
        configure(top, P)
    top.apply(VerilogPlaceholderPass())
    top.apply(P())
    fn = top.get_metadata(P.translated_filename)
    mod = top.get_metadata(P.translated_top_module)
    with open(fn) as f:
        return f.read(), mod


def has_placeholder(factory):
    from pymtl3.passes.backends.verilog import VerilogPlaceholder
    top = factory()
    top.elaborate()
    return any(isinstance(c, VerilogPlaceholder) for c in top.get_all_components())


def design_of(text, topmod):
    """Parse + flatten.  svparse.SVSyntaxError propagates (= the 'syntactically valid' verdict);
    svparse.SVUnsupported is a machinery failure."""
    ast = svparse.parse(text)
    svparse.check_names(ast)
    return svelab.elaborate(ast, topmod)


# --------------------------------------------------------------------------------------
# ports of the PyMTL top component
# --------------------------------------------------------------------------------------

def walk_ports(top):
    """[(path, direction, Type)] for every value port reachable from the top component through
    lists and interfaces; path is a tuple of attribute names (str) and list indices (int)."""
    from pymtl3.dsl import InPort, Interface, OutPort
    out = []

    def visit(obj, path):
        if isinstance(obj, (InPort, OutPort)):
            out.append((path, "in" if isinstance(obj, InPort) else "out", obj._dsl.Type))
        elif isinstance(obj, Interface):
            for k, v in obj.__dict__.items():
                if not k.startswith("_"):
                    visit(v, path + (k,))
        elif isinstance(obj, list):
            for i, v in enumerate(obj):
                visit(v, path + (i,))

    for k, v in top.__dict__.items():
        if not k.startswith("_"):
            visit(v, (k,))
    return out


def _get(top, path):
    o = top
    for t in path:
        o = o[t] if isinstance(t, int) else getattr(o, t)
    return o


def type_width(T):
    return T.nbits


def type_desc(T):
    """Shape (spec/BitStruct.tla: Leaf / Struct / List) of a PyMTL data type (Bits class / bitstruct
    class / list of types).  Only names, widths and the declaration order are read off the type; the
    bit positions are computed by BitStruct!Layout in TLC."""
    from pymtl3.datatypes import is_bitstruct_class
    if isinstance(T, list):
        return {"k": "list", "n": len(T), "t": type_desc(T[0])}
    if is_bitstruct_class(T):
        return {"k": "struct", "fs": [{"n": n, "t": type_desc(t)} for n, t in T.__bitstruct_fields__.items()]}
    return {"k": "leaf", "w": T.nbits}


def _to_int(val):
    from pymtl3.datatypes import Bits
    if isinstance(val, (Bits, int)):
        return int(val)
    if hasattr(val, "to_bits"):
        return int(val.to_bits())
    return int(val)


def _from_int(T, v):
    from pymtl3.datatypes import Bits, is_bitstruct_class, mk_bits
    if is_bitstruct_class(T):
        return T.from_bits(mk_bits(T.nbits)(v))
    return T(v)


def bits_of(v, w):
    return [(v >> i) & 1 for i in range(w)]


def port_key(path):
    return "s." + "".join(("[%d]" % t) if isinstance(t, int) else ("." + t if i else t)
                          for i, t in enumerate(path))


# --------------------------------------------------------------------------------------
# PyMTL simulation -> cycles
# --------------------------------------------------------------------------------------

class SimAbort(Exception):
    pass


def record(factory, stimulus, reset_cycles=3, passgroup=None, tvres=None, busy_reset=0):
    """Simulate `factory()` under DefaultPassGroup.

    busy_reset = n > 0: instead of `reset_cycles` idle cycles (reset = 1, every other input 0) the first n
    stimulus cycles (dicts) are applied with reset forced to 1 - the design is reset under arbitrary inputs,
    and no cycle of the run is spent on all-zero inputs.

    stimulus: list of cycles; a cycle is either a dict {port path: int} (ports not mentioned keep
    their value) or a callable f(top) that sets inputs itself (repo TV_IN functions).
    Returns (ports, cycles, aborted) with cycles = [{"in": {path: int}, "outc": {...}, "outt": {...}}];
    a cycle during which the simulation raises (division by zero, index out of range: outside the
    property) ends the recording (aborted = exception text).
    A stimulus entry may also be a pair (set inputs, verify outputs) of a repo test case; the verdict of
    `verify outputs` on the PyMTL simulation (True / False) is appended to `tvres`."""
    from pymtl3.passes.PassGroups import DefaultPassGroup
    top = factory()
    top.elaborate()
    # the ports are collected before the simulation passes replace the signal objects by values
    ports = [p for p in walk_ports(top) if p[0] != ("clk",)]
    top.apply(passgroup() if passgroup else DefaultPassGroup())
    ins = [p for p in ports if p[1] == "in"]
    outs = [p for p in ports if p[1] == "out"]

    def snap(ps):
        return {p[0]: _to_int(_get(top, p[0])) for p in ps}

    cycles = []
    aborted = None

    def cycle(setter, checker=None):
        nonlocal aborted
        try:
            setter()
            i = snap(ins)
            top.sim_eval_combinational()
            oc = snap(outs)
            if checker is not None and tvres is not None:
                try:
                    checker(top)
                    tvres.append(True)
                except AssertionError:
                    tvres.append(False)
            top.sim_tick()
            ot = snap(outs)
        except (ZeroDivisionError, IndexError, ValueError, AssertionError, OverflowError) as e:
            aborted = "%s: %s" % (type(e).__name__, str(e)[:200])
            return False
        cycles.append({"in": i, "outc": oc, "outt": ot})
        return True

    def set_reset(v):
        def f():
            x = top.reset
            x @= v
        return f

    ok = True
    if busy_reset:
        stimulus = [dict(list(c.items()) + [(("reset",), 1)]) if i < busy_reset and isinstance(c, dict) else c
                    for i, c in enumerate(stimulus)]
    else:
        for _ in range(reset_cycles):
            ok = ok and cycle(set_reset(1))
    if ok:
        if not busy_reset:
            set_reset(0)()
        for c in stimulus:
            checker = None
            if isinstance(c, tuple):
                setter = (lambda c=c: c[0](top))
                checker = c[1]
            elif callable(c):
                setter = (lambda c=c: c(top))
            else:
                def setter(c=c):
                    for path, v in c.items():
                        T = next(p[2] for p in ins if p[0] == path)
                        x = _get(top, path)
                        x @= _from_int(T, v)
            if not cycle(setter, checker):
                break
    return ports, cycles, aborted


# --------------------------------------------------------------------------------------
# trace construction
# --------------------------------------------------------------------------------------

def _entry(backend, path, T, v):
    w = T.nbits
    if backend == SV:
        name = "__".join(t for t in path if not isinstance(t, int))
        ix = [t for t in path if isinstance(t, int)]
        return {"n": name, "ix": ix, "ty": {"k": "leaf", "w": w}, "v": bits_of(v, w)}
    name = "__".join(str(t) for t in path)
    return {"n": name, "ix": [], "ty": type_desc(T), "v": bits_of(v, w)}


def make_trace(flat, backend, ports, cycles, uns=False, tag=None):
    types = {p[0]: p[2] for p in ports}
    ev = []
    for c in cycles:
        ev.append({
            "in": [_entry(backend, p, types[p], v) for p, v in c["in"].items()],
            "outc": [_entry(backend, p, types[p], v) for p, v in c["outc"].items()],
            "tick": True,
            "outt": [_entry(backend, p, types[p], v) for p, v in c["outt"].items()],
        })
    d = dict(flat)
    d["uns"] = bool(uns)
    return {"d": d, "mode": "run", "ev": ev, "tag": tag or ""}


# --------------------------------------------------------------------------------------
# the repository's hand-written test vectors as a trace (no PyMTL simulation involved)
# --------------------------------------------------------------------------------------

class _VecUnsupported(Exception):
    pass


class _PortProxy:
    """Stands for one value port of the DUT while the case's TV_IN / TV_OUT functions run:
    `m.p @= x` logs an input, `m.p == x` logs an expectation (and is true)."""

    def __init__(self, path, T, log):
        object.__setattr__(self, "_p", (path, T, log))

    def __imatmul__(self, v):
        path, T, log = self._p
        log.append(("in", path, _coerce(T, v)))
        return self

    def __eq__(self, v):
        path, T, log = self._p
        log.append(("out", path, _coerce(T, v)))
        return True

    def __ne__(self, v):
        raise _VecUnsupported("!= in a TV_OUT function")

    def __getattr__(self, n):
        raise _VecUnsupported("member access .%s on port %s" % (n, port_key(self._p[0])))

    def __getitem__(self, i):
        raise _VecUnsupported("slice of port %s" % port_key(self._p[0]))

    __hash__ = None


class _NodeProxy:
    pass


def _coerce(T, v):
    """int value of `v` as a value of the port type T (what `port @= v` would store)."""
    from pymtl3.datatypes import Bits, is_bitstruct_class
    if is_bitstruct_class(T):
        if isinstance(v, T):
            return int(v.to_bits())
        raise _VecUnsupported("struct port given %r" % (type(v).__name__,))
    if isinstance(v, Bits):
        if v.nbits != T.nbits:
            raise _VecUnsupported("Bits%d value for a Bits%d port" % (v.nbits, T.nbits))
        return int(v)
    if isinstance(v, int):
        return v & ((1 << T.nbits) - 1)
    raise _VecUnsupported("value of type %s" % type(v).__name__)


def _proxy_tree(ports, log):
    root = _NodeProxy()

    def put(parent, toks, leaf):
        t, rest = toks[0], toks[1:]
        nxt_is_idx = bool(rest) and isinstance(rest[0], int)
        if isinstance(parent, list):
            while len(parent) <= t:
                parent.append(None)
            cur = parent[t]
            if not rest:
                parent[t] = leaf
                return
            if cur is None:
                cur = parent[t] = [] if nxt_is_idx else _NodeProxy()
            put(cur, rest, leaf)
        else:
            if not rest:
                object.__setattr__(parent, t, leaf)
                return
            cur = parent.__dict__.get(t)
            if cur is None:
                cur = [] if nxt_is_idx else _NodeProxy()
                object.__setattr__(parent, t, cur)
            put(cur, rest, leaf)

    for (path, _d, T) in ports:
        put(root, list(path), _PortProxy(path, T, log))
    return root


def vector_trace(flat, backend, factory, tv, tv_in, tv_out, tag=None):
    """The maintainers' vectors (TV, TV_IN, TV_OUT of a test case) as an SVSemTrace trace: three reset
    edges (TestVectorSimulator calls sim_reset), then per vector the inputs TV_IN sets and the outputs
    TV_OUT expects after the combinational evaluation, then a clock edge.
    Returns (trace, number of expectations) or raises _VecUnsupported."""
    top = factory()
    top.elaborate()
    ports = [p for p in walk_ports(top) if p[0] != ("clk",)]
    types = {p[0]: p[2] for p in ports}
    dirs = {p[0]: p[1] for p in ports}
    log = []
    m = _proxy_tree(ports, log)
    rst = ("reset",)
    ev = [{"in": [_entry(backend, rst, types[rst], 1)], "outc": [], "tick": True, "outt": []} for _ in range(3)]
    nexp = 0
    for i, vec in enumerate(tv):
        del log[:]
        tv_in(m, vec)
        ins = {rst: 0} if i == 0 else {}
        for (k, path, v) in log:
            if k != "in" or dirs[path] != "in":
                raise _VecUnsupported("TV_IN touches %s" % port_key(path))
            ins[path] = v
        del log[:]
        tv_out(m, vec)
        outs = {}
        for (k, path, v) in log:
            if k != "out":
                raise _VecUnsupported("TV_OUT writes %s" % port_key(path))
            outs[path] = v
        nexp += len(outs)
        ev.append({"in": [_entry(backend, p, types[p], v) for p, v in ins.items()],
                   "outc": [_entry(backend, p, types[p], v) for p, v in outs.items()],
                   "tick": True, "outt": []})
    d = dict(flat)
    d["uns"] = False
    return {"d": d, "mode": "run", "ev": ev, "tag": tag or ""}, nexp


def drivers_trace(flat, tag=None):
    d = dict(flat)
    d["uns"] = False
    return {"d": d, "mode": "drv", "ev": [], "tag": tag or ""}
