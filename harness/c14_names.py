"""Helpers of the C14 check (hierarchical names): shape <-> Python source, object tables, tokeniser.

A *shape* is the Python image of a state of spec/Names.tla:
    {"decl": [{"path": [...], "kind": ..., "dims": [...], "rag": [{"ix": [...], "leaf": bool}, ...], "ty": ...}, ...],
     "ment": [{"path": [...], "ix": [[...], ...], "expr": [step, ...], "how": "upblk"|"connect"}, ...]}
    step = {"t": "f"|"s"|"b", "n": str, "ix": [...], "lo": int, "hi": int}
The mention list is a *sequence* (its order fixes the names k<j> of the sink wires).  `rag` (non-empty
only for ragged / mixed lists, then dims == []) is the depth-first flattening of the list tree: one entry
per object (leaf) and one per empty sub-list.
"""
import importlib.util
import json
import os
import re
import sys

SIG = ("InPort", "OutPort", "Wire")
MP = ("CallerPort", "CalleePort")

# Python image of Names!Types (checked against the specification by the conformance run itself:
# a disagreement makes every struct view "name-not-allowed").
PY_TYPES = {
    "B1": "Bits1", "B2": "Bits2", "B3": "Bits3", "B4": "Bits4",
    "I": 'mk_bitstruct("I", {"g": Bits3, "h": [Bits2, Bits2]})',
    "P": 'mk_bitstruct("P", {"a": Bits2, "f": [Bits3, Bits3], "q": I, "r": [I, I], '
         '"m": [[Bits1, Bits1], [Bits1, Bits1]]})',
}
STRUCT_FIELDS = {          # name -> [(field, dims, type)]
    "I": [("g", [], "B3"), ("h", [2], "B2")],
    "P": [("a", [], "B2"), ("f", [2], "B3"), ("q", [], "I"), ("r", [2], "I"), ("m", [2, 2], "B1")],
}
WIDTH = {"B1": 1, "B2": 2, "B3": 3, "B4": 4}


# --------------------------------------------------------------------------------------
# TLC state -> shape
# --------------------------------------------------------------------------------------

def _undict(v):
    """records inside TLC sets arrive frozen as sorted tuples of (key, value) pairs"""
    if isinstance(v, dict):
        return v
    return {k: x for k, x in v}


def _step(v):
    d = _undict(v)
    return {"t": str(d["t"]), "n": str(d["n"]), "ix": [int(i) for i in d["ix"]],
            "lo": int(d["lo"]), "hi": int(d["hi"])}


def shape_from_state(st):
    decl = []
    for d in st["decl"]:
        d = _undict(d)
        decl.append({"path": [str(x) for x in d["path"]], "kind": str(d["kind"]),
                     "dims": [int(x) for x in d["dims"]],
                     "rag": [{"ix": [int(i) for i in _undict(e)["ix"]], "leaf": bool(_undict(e)["leaf"])}
                             for e in d["rag"]],
                     "ty": str(d["ty"])})
    ment = []
    for m in st["ment"]:
        m = _undict(m)
        ment.append({"path": [str(x) for x in m["path"]], "ix": [[int(i) for i in t] for t in m["ix"]],
                     "expr": [_step(s) for s in m["expr"]], "how": str(m["how"])})
    ment.sort(key=lambda m: json.dumps(m, sort_keys=True))
    return {"decl": decl, "ment": ment}


def shape_key(sh):
    return json.dumps(sh, sort_keys=True)


def rag_tree(rag):
    """flattening -> nested Python lists with None at the objects"""
    root = []
    for e in rag:
        cur = root
        for k, i in enumerate(e["ix"]):
            last = k == len(e["ix"]) - 1
            if i > len(cur):
                raise ValueError("not a depth-first flattening: %r" % (rag,))
            if i == len(cur):
                cur.append((None if e["leaf"] else []) if last else [])
            elif last or not isinstance(cur[i], list):
                raise ValueError("not a depth-first flattening: %r" % (rag,))
            if not last:
                cur = cur[i]
    return root


def rag_flat(tree, pre=()):
    """nested lists (anything that is not a list is an object) -> flattening"""
    out = []
    for i, t in enumerate(tree):
        if isinstance(t, list):
            out += rag_flat(t, pre + (i,)) if t else [{"ix": list(pre + (i,)), "leaf": False}]
        else:
            out.append({"ix": list(pre + (i,)), "leaf": True})
    return out


def rag_text(tree, leaf="o"):
    return "[" + ",".join(rag_text(t, leaf) if isinstance(t, list) else leaf for t in tree) + "]"


def rag_class(rag):
    """coarse class of a list tree used in violation keys: kind of the first element, nesting depth,
    presence of empty sub-lists"""
    tree = rag_tree(rag)

    def depth(t):
        return 1 + max([depth(x) for x in t if isinstance(x, list)] or [0])
    return "list(first=%s,depth=%d%s)" % ("list" if isinstance(tree[0], list) else "object", depth(tree),
                                          ",empty-sublist" if any(not e["leaf"] for e in rag) else "")


def leaves(d):
    """index paths of the objects of a declaration"""
    if d.get("rag"):
        return [list(e["ix"]) for e in d["rag"] if e["leaf"]]
    out = [[]]
    for n in d["dims"]:
        out = [p + [i] for p in out for i in range(n)]
    return out


def describe(sh):
    """compact one-line description of a shape (used in samples and violation details)"""
    def dd(d):
        return "%s:%s%s%s" % (".".join(d["path"]), d["kind"], ("(" + d["ty"] + ")") if d["ty"] else "",
                              rag_text(rag_tree(d["rag"])) if d.get("rag") else
                              "".join("[%d]" % x for x in d["dims"]))
    out = " ".join(dd(d) for d in sh["decl"])
    for m in sh["ment"]:
        out += " | %s %s" % (m["how"], mention_text(sh, m))
    return out or "(empty top)"


# --------------------------------------------------------------------------------------
# shape -> Python source
# --------------------------------------------------------------------------------------

def _kind_at(sh, path):
    if not path:
        return "comp"
    for d in sh["decl"]:
        if d["path"] == path:
            return d["kind"]
    raise KeyError(path)


def _decl_at(sh, path):
    for d in sh["decl"]:
        if d["path"] == path:
            return d
    raise KeyError(path)


def host_path(sh, path):
    for k in range(len(path) - 1, -1, -1):
        if _kind_at(sh, path[:k]) == "comp":
            return path[:k]
    return []


def _expr_text(expr):
    out = ""
    for st in expr:
        if st["t"] == "f":
            out += "." + st["n"] + "".join("[%d]" % i for i in st["ix"])
        elif st["t"] == "s":
            out += "[%d:%d]" % (st["lo"], st["hi"])
        else:
            out += "[%d]" % st["lo"]
    return out


def _base_text(sh, m):
    hp = host_path(sh, m["path"])
    out = "s"
    for k, n in enumerate(m["path"][len(hp):]):
        out += "." + n + "".join("[%d]" % i for i in m["ix"][k])
    return out


def mention_text(sh, m):
    return _base_text(sh, m) + _expr_text(m["expr"])


def expr_type(ty, expr):
    for i, st in enumerate(expr):
        if st["t"] == "f":
            ty = [f for f in STRUCT_FIELDS[ty] if f[0] == st["n"]][0][2]
        else:
            ty = "B%d" % (st["hi"] - st["lo"])
    return ty


def _cls(prefix, path):
    return prefix + ("C_" + "_".join(path) if path else "Top")


def gen_source(sh, prefix=""):
    """Python classes for one shape; the top component class is <prefix>Top."""
    lines = []
    conts = [[]] + [d["path"] for d in sh["decl"] if d["kind"] in ("comp", "ifc")]
    # children first (classes must exist before they are instantiated)
    for c in sorted(conts, key=lambda p: -len(p)):
        kind = _kind_at(sh, c)
        base = "Component" if kind == "comp" else "Interface"
        lines.append("class %s( %s ):" % (_cls(prefix, c), base))
        lines.append("  def construct( s ):")
        body = []
        for d in sh["decl"]:
            if d["path"][:-1] != c:
                continue
            if d["kind"] in ("comp", "ifc"):
                ctor = "%s()" % _cls(prefix, d["path"])
            elif d["kind"] in SIG:
                ctor = "%s( %s )" % (d["kind"], d["ty"] if d["ty"] in ("I", "P") else PY_TYPES[d["ty"]])
            else:
                ctor = "%s()" % d["kind"]
            if d.get("rag"):       # a literal: every object is a separate constructor call
                ctor = rag_text(rag_tree(d["rag"]), ctor).replace(",", ", ").replace("[", "[ ").replace("]", " ]")
            for k, n in enumerate(reversed(d["dims"])):
                ctor = "[ %s for _%d in range(%d) ]" % (ctor, k, n)
            body.append("s.%s = %s" % (d["path"][-1], ctor))
        if kind == "comp":
            drv, rd = [], []
            for j, m in enumerate(sh["ment"], start=1):
                if host_path(sh, m["path"]) != c:
                    continue
                d = _decl_at(sh, m["path"])
                if m["how"] == "connect":
                    ty = expr_type(d["ty"], m["expr"])
                    body.append("s.k%d = Wire( %s )" % (j, ty if ty in ("I", "P") else PY_TYPES[ty]))
                    body.append("connect( s.k%d, %s )" % (j, mention_text(sh, m)))
                    if d["kind"] != "InPort":
                        w = "%s @= %s" % (_base_text(sh, m), (d["ty"] + "()") if d["ty"] in ("I", "P") else "0")
                        if w not in drv:
                            drv.append(w)
                else:
                    rd.append("t%d = %s" % (j, mention_text(sh, m)))
            for name, stmts in (("drv", drv), ("rd", rd)):
                if stmts:
                    body.append("@update")
                    body.append("def %s():" % name)
                    body.extend("  " + x for x in stmts)
        if not body:
            body = ["pass"]
        lines.extend("    " + b for b in body)
        lines.append("")
    return "\n".join(lines)


PREAMBLE = ("from pymtl3 import *\nfrom pymtl3.datatypes import mk_bitstruct\n"
            "I = %s\nP = %s\n\n" % (PY_TYPES["I"], PY_TYPES["P"]))


def load_module(path, name):
    spec = importlib.util.spec_from_file_location(name, path)
    mod = importlib.util.module_from_spec(spec)
    sys.modules[name] = mod            # inspect.getsourcelines looks the module up
    try:
        spec.loader.exec_module(mod)
    finally:
        pass
    return mod


# --------------------------------------------------------------------------------------
# object tables
# --------------------------------------------------------------------------------------

_TOK = re.compile(r"\.([A-Za-z_]\w*)((?:\[\d+\])*)|\[(\d+):(\d+)\]")


def tokenize(name):
    """'s.a[1][2].b[0:3]' -> token records of Names.tla, or None when the name is not of that form"""
    if not isinstance(name, str) or not name.startswith("s"):
        return None
    pos, toks = 1, []
    while pos < len(name):
        m = _TOK.match(name, pos)
        if not m:
            return None
        if m.group(1) is not None:
            toks.append({"t": "f", "n": m.group(1), "ix": [int(x) for x in re.findall(r"\d+", m.group(2))],
                         "lo": 0, "hi": 0})
        else:
            toks.append({"t": "s", "n": "", "ix": [], "lo": int(m.group(3)), "hi": int(m.group(4))})
        pos = m.end()
    return toks


def tok_text(t):
    if t["t"] == "f":
        return "." + t["n"] + "".join("[%d]" % i for i in t["ix"])
    return "[%d:%d]" % (t["lo"], t["hi"])


def kind_of(o):
    from pymtl3.dsl import CalleePort, CallerPort, Component, InPort, Interface, OutPort, Wire
    if isinstance(o, Component):
        return "comp"
    if isinstance(o, Interface):
        return "ifc"
    if isinstance(o, InPort):
        return "InPort"
    if isinstance(o, OutPort):
        return "OutPort"
    if isinstance(o, Wire):
        return "Wire"
    if isinstance(o, CallerPort):
        return "CallerPort"
    if isinstance(o, CalleePort):
        return "CalleePort"
    return "other:" + type(o).__name__


def _r(x):
    return "" if x is None else repr(x)


def table(top):
    """one row per object of top.get_all_object_filter(lambda x: True), sorted by name"""
    objs = list(top.get_all_object_filter(lambda x: True))
    rows = []
    for o in objs:
        name = repr(o)
        try:
            parent = _r(o.get_parent_object())
        except Exception as e:       # noqa
            parent = "<error %s>" % type(e).__name__
        host = ""
        if hasattr(o, "get_host_component"):
            try:
                host = _r(o.get_host_component())
            except Exception as e:   # noqa
                host = "<error %s>" % type(e).__name__
        lvl = getattr(o._dsl, "level", None)
        tls = ""
        if hasattr(o, "get_top_level_signal"):
            try:
                tls = _r(o.get_top_level_signal())
            except Exception as e:   # noqa
                tls = "<error %s>" % type(e).__name__
        rows.append({"name": name, "kind": kind_of(o), "parent": parent, "host": host,
                     "level": -1 if lvl is None else int(lvl), "tls": tls, "_o": o})
    # eval identity last: evaluating a wrong name may create new view objects
    for r in rows:
        try:
            r["ev"] = eval(r["name"], {"s": top}) is r["_o"]
        except Exception as e:       # noqa
            r["ev"] = False
            r["everr"] = "%s: %s" % (type(e).__name__, e)
        del r["_o"]
    rows.sort(key=lambda r: (r["name"], r["kind"], r["parent"], r["level"]))
    return rows


def events(tables):
    """the event list of NamesTrace for the tables of (two) elaborations"""
    ev = []
    for e, rows in enumerate(tables, start=1):
        base = len(ev)
        first = {}
        for i, r in enumerate(rows):
            first.setdefault(r["name"], base + i + 1)
        for r in rows:
            toks = tokenize(r["name"])
            x = dict(r)
            x.pop("everr", None)
            x["k"] = "obj"
            x["e"] = e
            if toks is None:
                x["toks"], x["pi"] = [{"t": "f", "n": "<unparseable>", "ix": [], "lo": 0, "hi": 0}], 0
            else:
                x["toks"] = toks
                pn = "s" + "".join(tok_text(t) for t in toks[:-1]) if toks else None
                x["pi"] = first.get(pn, 0) if toks else 0
            ev.append(x)
        ev.append({"k": "end", "e": e})
    return ev


def signature(name, kinds):
    """generalised form of a name: classes and number of indices instead of concrete names
    (kinds: name -> kind of the rows of the table)"""
    toks = tokenize(name)
    if toks is None:
        return "<unparseable>"
    out, cur = [], "s"
    for t in toks:
        cur += tok_text(t)
        if t["t"] == "s":
            out.append("[:]")
        else:
            k = kinds.get(cur)
            par = kinds.get(cur[:len(cur) - len(tok_text(t))])
            if par in SIG:
                out.append("." + t["n"] + "[]" * len(t["ix"]))
            else:
                out.append((k or "?") + "[]" * len(t["ix"]))
    return "/".join(out) or "top"


# --------------------------------------------------------------------------------------
# worker: build, elaborate twice, log
# --------------------------------------------------------------------------------------

def build_chunk(args):
    """(chunk id, [shape, ...], scratch dir) -> [trace or {"error": ...}]; runs in a forked worker"""
    cid, shapes, sdir = args
    src = [PREAMBLE]
    for i, sh in enumerate(shapes):
        src.append(gen_source(sh, "S%d_" % i))
    path = os.path.join(sdir, "c14gen_%d.py" % cid)
    with open(path, "w") as f:
        f.write("\n".join(src))
    name = "c14gen_%d" % cid
    out = []
    try:
        mod = load_module(path, name)
    except Exception as e:           # noqa
        import traceback
        return [{"error": "import: " + traceback.format_exc()} for _ in shapes]
    try:
        for i, sh in enumerate(shapes):
            try:
                tabs = []
                for _ in range(2):
                    top = getattr(mod, "S%d_Top" % i)()
                    top.elaborate()
                    tabs.append(table(top))
                out.append({"mode": "shape", "shape": sh, "ev": events(tabs),
                            "everr": [r["everr"] for t in tabs for r in t if "everr" in r][:3]})
            except Exception as e:   # noqa
                import traceback
                fr = [f for f in traceback.extract_tb(e.__traceback__)
                      if os.sep + "pymtl3" + os.sep in f.filename]
                out.append({"error": traceback.format_exc(), "shape": sh, "exc": type(e).__name__,
                            "where": "%s.%s" % (os.path.basename(fr[-1].filename)[:-3], fr[-1].name) if fr else "?"})
    finally:
        sys.modules.pop(name, None)
    return out
