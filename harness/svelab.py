"""Elaboration of a parsed design (svparse AST) into the flat form `spec/SVSem.tla` interprets.

Only *structural bookkeeping* happens here, no expression is evaluated and no width is computed:

  * the instance hierarchy below `top` is flattened: every variable of instance path a.b gets the
    name "a.b.x" ('.' cannot occur in an identifier, so no collision is possible); identifiers in
    the statements of that instance are renamed accordingly (loop variables declared in a for-header
    stay local);
  * a port connection `.p( e )` becomes the continuous assignment `a.p = e` (input) or `e = a.p`
    (output), as IEEE 1800 23.3.3 defines it; a connection of an unpacked-array port is expanded into
    one assignment per element (same index on both sides);
  * localparam initialisers given as assignment patterns '{...} are flattened in row-major order;
  * the combinational processes are listed in a dependency-compatible order when one exists (the
    order cannot change the fixed point SVSem computes, only the number of rounds needed).

flat = {"types", "vars": {name: {"ty", "kind"}}, "varorder", "params": [{"n", "init": [EXPR]}],
        "comb": [{"label", "kind", "body"}], "ff": [...], "top": name}
"""
import copy
import itertools

from svparse import SVSyntaxError, SVUnsupported

REFK = ("id", "idx", "field", "range", "psel")


def _rename_e(e, pfx, local, insts=frozenset()):
    k = e["k"]
    if k == "num":
        return e
    if k == "id":
        if e["n"] in local:
            return e
        return {"k": "id", "n": pfx + e["n"]}
    if k == "field" and e["e"]["k"] == "id" and e["e"]["n"] in insts and e["e"]["n"] not in local:
        # hierarchical reference  inst.signal  (23.6): the variable of that instance
        return {"k": "id", "n": pfx + e["e"]["n"] + "." + e["f"]}
    out = {}
    for key, v in e.items():
        if isinstance(v, dict):
            out[key] = _rename_e(v, pfx, local, insts)
        elif key == "es":
            out[key] = [_rename_e(x, pfx, local, insts) for x in v]
        else:
            out[key] = v
    return out


def _rename_s(s, pfx, local, insts=frozenset()):
    k = s["k"]
    if k == "blk":
        return {"k": "blk", "ss": [_rename_s(x, pfx, local, insts) for x in s["ss"]]}
    if k == "if":
        return {"k": "if", "c": _rename_e(s["c"], pfx, local, insts), "t": _rename_s(s["t"], pfx, local, insts),
                "e": _rename_s(s["e"], pfx, local, insts)}
    if k == "for":
        if s["decl"]:
            loc = local | {s["v"]}
            v = s["v"]
        else:
            loc = local
            v = pfx + s["v"]
        return {"k": "for", "v": v, "decl": s["decl"], "init": _rename_e(s["init"], pfx, local, insts),
                "cond": _rename_e(s["cond"], pfx, loc, insts), "step": _rename_e(s["step"], pfx, loc, insts),
                "body": _rename_s(s["body"], pfx, loc, insts)}
    return {"k": k, "l": _rename_e(s["l"], pfx, local, insts), "r": _rename_e(s["r"], pfx, local, insts)}


def _lit(i):
    return {"k": "num", "w": 0, "b": [(i >> j) & 1 for j in range(32)], "trunc": False}


def _flatten_pattern(p, dims, where):
    if not dims:
        if p["k"] == "apat":
            raise SVSyntaxError("%s: assignment pattern deeper than the declared dimensions" % where)
        return [p]
    if p["k"] != "apat":
        raise SVSyntaxError("%s: array parameter initialised with a scalar" % where)
    if len(p["es"]) != dims[0]:
        raise SVSyntaxError("%s: assignment pattern has %d elements for a dimension of %d"
                            % (where, len(p["es"]), dims[0]))
    out = []
    for x in p["es"]:
        out += _flatten_pattern(x, dims[1:], where)
    return out


def _ty(t):
    return {"base": t["base"], "pd": list(t["pd"]), "ud": list(t["ud"]), "sg": bool(t.get("sg"))}


def elaborate(ast, top):
    if top not in ast["modules"]:
        raise SVSyntaxError("top module %r is not defined in the emitted text" % top)
    flat = {"types": {n: {"fields": [{"n": f["n"], "ty": _ty(f["ty"])} for f in t["fields"]]}
                      for n, t in ast["types"].items()},
            "vars": {}, "varorder": [], "params": [], "comb": [], "ff": [], "top": top}
    # a dummy entry keeps the JSON object -> TLA+ record conversion happy when there is no typedef
    flat["types"]["$none"] = {"fields": []}

    def add_var(name, ty, kind):
        flat["vars"][name] = {"ty": _ty(ty), "kind": kind}
        flat["varorder"].append(name)

    def inst(mn, pfx, depth, stack):
        if mn in stack:
            raise SVSyntaxError("recursive instantiation of module %s" % mn)
        m = ast["modules"][mn]
        insts = frozenset(it["n"] for it in m["insts"])
        for p in m["ports"]:
            add_var(pfx + p["n"], p["ty"], ("in" if p["dir"] == "in" else "out") if depth == 0 else "var")
        for v in m["vars"]:
            add_var(pfx + v["n"], v["ty"], "var")
        for p in m["params"]:
            add_var(pfx + p["n"], p["ty"], "param")
            init = _flatten_pattern(p["init"], p["ty"]["ud"], "%s%s" % (pfx, p["n"]))
            flat["params"].append({"n": pfx + p["n"], "init": [_rename_e(x, pfx, frozenset(), insts) for x in init]})
        for pr in m["procs"]:
            ent = {"label": pfx + (pr["label"] or ""), "kind": pr["k"],
                   "body": _rename_s(pr["body"], pfx, frozenset(), insts)}
            (flat["ff"] if pr["k"] == "ff" else flat["comb"]).append(ent)
        for it in m["insts"]:
            sub = ast["modules"][it["mod"]]
            sp = {p["n"]: p for p in sub["ports"]}
            ipfx = pfx + it["n"] + "."
            connected = set()
            for c in it["conns"]:
                p = sp[c["p"]]
                connected.add(c["p"])
                outer = _rename_e(c["e"], pfx, frozenset(), insts)
                inner = {"k": "id", "n": ipfx + p["n"]}
                ud = p["ty"]["ud"]
                if p["dir"] == "out" and outer["k"] not in REFK:
                    raise SVSyntaxError("module %s: output port %s of instance %s is connected to an "
                                        "expression that is not a variable" % (mn, c["p"], it["n"]))
                if ud and outer["k"] not in REFK:
                    raise SVSyntaxError("module %s: array port %s of instance %s connected to a non-array "
                                        "expression" % (mn, c["p"], it["n"]))
                for ix in itertools.product(*[range(d) for d in ud]):
                    o, i_ = outer, inner
                    for j in ix:
                        o = {"k": "idx", "e": o, "i": _lit(j)}
                        i_ = {"k": "idx", "e": i_, "i": _lit(j)}
                    if p["dir"] == "in":
                        body = {"k": "ba", "l": i_, "r": o}
                    else:
                        body = {"k": "ba", "l": o, "r": i_}
                    flat["comb"].append({"label": "%s%s.%s" % (pfx, it["n"], c["p"]), "kind": "conn",
                                         "body": body})
            missing = [n for n in sp if n not in connected]
            if missing:
                raise SVUnsupported("module %s: instance %s leaves ports %s unconnected" % (mn, it["n"], missing))
            inst(it["mod"], ipfx, depth + 1, stack | {mn})

    inst(top, "", 0, frozenset())
    flat["comb"] = _order(flat["comb"])
    return flat


# --------------------------------------------------------------------------------------
# ordering of combinational processes (performance only)
# --------------------------------------------------------------------------------------

def _const_idx(e):
    if e["k"] == "num":
        return sum(b << i for i, b in enumerate(e["b"]))
    return None


def _base(e):
    """(variable name, tuple of leading constant indices) of a reference expression."""
    idx = []
    while e["k"] != "id":
        if e["k"] == "idx":
            idx.append(_const_idx(e["i"]))
        else:
            idx.append("s")
        e = e["e"]
    idx.reverse()
    lead = []
    for i in idx:
        if isinstance(i, int):
            lead.append(i)
        else:
            break
    return e["n"], tuple(lead[:1])


def _reads_e(e, acc):
    k = e["k"]
    if k == "num":
        return
    if k in REFK:
        n, lead = _base(e)
        acc.add((n, lead))
        x = e
        while x["k"] != "id":
            for key in ("i", "h", "l", "b", "w"):
                if key in x and isinstance(x[key], dict):
                    _reads_e(x[key], acc)
            x = x["e"]
        return
    for key, v in e.items():
        if isinstance(v, dict):
            _reads_e(v, acc)
        elif key == "es":
            for x in v:
                _reads_e(x, acc)


def _rw(s, rd, wr):
    k = s["k"]
    if k == "blk":
        for x in s["ss"]:
            _rw(x, rd, wr)
    elif k == "if":
        _reads_e(s["c"], rd)
        _rw(s["t"], rd, wr)
        _rw(s["e"], rd, wr)
    elif k == "for":
        _reads_e(s["init"], rd)
        _reads_e(s["cond"], rd)
        _reads_e(s["step"], rd)
        if not s["decl"]:
            wr.add((s["v"], ()))
        _rw(s["body"], rd, wr)
    else:
        _reads_e(s["r"], rd)
        n, lead = _base(s["l"])
        wr.add((n, lead))
        x = s["l"]
        while x["k"] != "id":
            for key in ("i", "h", "l", "b", "w"):
                if key in x and isinstance(x[key], dict):
                    _reads_e(x[key], rd)
            x = x["e"]


def _overlap(a, b):
    return a[0] == b[0] and (not a[1] or not b[1] or a[1] == b[1])


def _order(procs):
    n = len(procs)
    info = []
    for p in procs:
        rd, wr = set(), set()
        _rw(p["body"], rd, wr)
        rd = {r for r in rd if not any(r == w for w in wr)}     # own temporaries
        info.append((rd, wr))
    writers = {}
    for i, (rd, wr) in enumerate(info):
        for w in wr:
            writers.setdefault(w[0], []).append((w, i))
    succ = [set() for _ in range(n)]
    indeg = [0] * n
    for j, (rd, wr) in enumerate(info):
        for r in rd:
            for (w, i) in writers.get(r[0], ()):
                if i != j and _overlap(w, r) and j not in succ[i]:
                    succ[i].add(j)
                    indeg[j] += 1
    import heapq
    ready = [i for i in range(n) if indeg[i] == 0]
    heapq.heapify(ready)
    out, done = [], [False] * n
    while len(out) < n:
        if not ready:
            # a (possibly false) cycle: release the earliest remaining process
            i = next(k for k in range(n) if not done[k])
            indeg[i] = 0
            heapq.heappush(ready, i)
        i = heapq.heappop(ready)
        if done[i]:
            continue
        done[i] = True
        out.append(i)
        for j in succ[i]:
            if not done[j]:
                indeg[j] -= 1
                if indeg[j] == 0:
                    heapq.heappush(ready, j)
    return [procs[i] for i in out]


def count_nodes(flat):
    def ce(e):
        c = 1
        for key, v in e.items():
            if isinstance(v, dict):
                c += ce(v)
            elif key in ("es", "ss"):
                c += sum(ce(x) for x in v)
        return c
    return sum(ce(p["body"]) for p in flat["comb"] + flat["ff"])
