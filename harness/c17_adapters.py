"""Devices under test for the adapter part of C17: every interface adapter of send_recv_ifcs.py,
get_give_ifcs.py and stream/queue_adapters.py, the connect-time hooks that insert them, and
compositions adapter + library queue + adapter, behind one uniform cycle interface.

    dut = make(name)                       name = one row of catalogue() / chains()
    obs = dut.cycle(eo, m, do, rst=False)  one clock cycle: the producer offers message m iff eo, the
                                           consumer offers to take a message iff do, rst = reset input
    dut.sig()                              control state of the implementation (buffer occupied, pending
                                           clear, blocked FL callers)

The adapter sits between a harness-driven producer and a harness-driven consumer inside a harness top
component:

  * CL sides are driven through method calls from update_once blocks (C17SrcCL, C17GetterCL) or are a
    callee with a rdy method (C17SinkCL); the harness only sets the offers (plain Python attributes)
    and calls sim_tick(): pymtl3's own constraints order the blocks.
  * FL sides are update_once blocks that call the blocking method (C17SrcFL, C17GetterFL), as the
    library's tests do; pymtl3 wraps them in greenlets.  A blocked caller cannot change its offer.
  * RTL sides are small RTL stubs with a legal protocol (en = offer & rdy for an en/rdy caller; val,
    rdy independent of the adapter's outputs otherwise) whose offers come from top-level ports.  Every
    top-level input passes through an update block before it reaches a signal of the design, so that
    the clock edge of a tick never samples an input of the NEXT cycle (sim_tick of a design with
    method ports runs the edge first, then the update blocks).

One sim_tick() per cycle; all outputs are read after it.

obs = {enq_rdy, deq_rdy, enq_xfer, deq_xfer, deq_msg, ret, pblk, cblk, count2, ent2, clr2}; an entry is
None when that output is not observable on that interface in that cycle.

All harness components live in this real .py file because pymtl3 inspects the source of update blocks.
"""
from common import MachineryError

DATA_NBITS = 32
IDLE_MSG = 0x7EADBEEF        # what an idle RTL producer leaves on the message port ("invented" detector)

_NS = None


def _ns():
    """Harness components (built once per process, from the pymtl3 of $VERIF_REPO)."""
    global _NS
    if _NS is not None:
        return _NS
    from pymtl3 import CalleeIfcCL, CallerIfcCL, Component, InPort, U, connect, non_blocking, update, update_once
    from pymtl3.stdlib.ifcs import GetIfcFL, GiveIfcRTL, RecvIfcRTL, SendIfcFL, SendIfcRTL
    from pymtl3.stdlib.stream.ifcs import RecvIfcRTL as ValRecvIfcRTL
    from pymtl3.stdlib.stream.ifcs import SendIfcRTL as ValSendIfcRTL

    class C17SrcCL(Component):
        """CL producer: calls send() when it has an offer and send.rdy()."""

        def construct(s, log):
            s.send = CallerIfcCL()
            s.eo = False
            s.m = None
            s.r_rdy = None
            s.r_x = False

            @update_once
            def up_c17_src_cl():
                log.append("P")
                s.r_rdy = bool(s.send.rdy())
                s.r_x = False
                if s.eo and s.r_rdy:
                    s.send(s.m)
                    s.r_x = True

    class C17SrcCLSplit(Component):
        """CL producer that samples send.rdy() in one block and calls send() in a LATER block (M(recv) only orders
        blocks that call the method itself; the sampling block is ordered by M(recv.rdy) alone)."""

        def construct(s, log):
            s.send = CallerIfcCL()
            s.eo = False
            s.m = None
            s.r_rdy = None
            s.r_x = False

            @update_once
            def up_c17_src_p1():
                log.append("p")
                s.r_rdy = bool(s.send.rdy())

            @update_once
            def up_c17_src_p2():
                log.append("P")
                s.r_x = False
                if s.eo and s.r_rdy:
                    s.send(s.m)
                    s.r_x = True

            s.add_constraints(U(up_c17_src_p1) < U(up_c17_src_p2))

    class C17GetterCLSplit(Component):
        """CL consumer that samples get.rdy() in one block and calls get() in a later block."""

        def construct(s, log):
            s.get = CallerIfcCL()
            s.do = False
            s.r_rdy = None
            s.r_x = False
            s.r_msg = None

            @update_once
            def up_c17_get_c1():
                log.append("c")
                s.r_rdy = bool(s.get.rdy())

            @update_once
            def up_c17_get_c2():
                log.append("C")
                s.r_x = False
                s.r_msg = None
                if s.do and s.r_rdy:
                    s.r_msg = s.get()
                    s.r_x = True

            s.add_constraints(U(up_c17_get_c1) < U(up_c17_get_c2))

    class C17SrcFL(Component):
        """FL producer: calls the blocking send() when it has an offer."""

        def construct(s, log):
            s.send = SendIfcFL()
            s.eo = False
            s.m = None
            s.busy = False
            s.r_start = False
            s.r_ret = False
            s.r_probe = None
            s.probe = None

            @update_once
            def up_c17_src_fl():
                log.append("P")
                if s.eo:
                    s.busy = True
                    s.r_start = True
                    s.r_probe = s.probe() if s.probe is not None else None
                    s.send(s.m)
                    s.busy = False
                    s.r_ret = True

    class C17SinkCL(Component):
        """CL consumer as a callee: ready iff it has an offer; records what it is given."""

        def construct(s, log):
            s.do = False
            s.got = []
            s.log = log

        @non_blocking(lambda s: s.do)
        def recv(s, msg):
            s.log.append("C")
            s.got.append(msg)

    class C17GetterCL(Component):
        """CL consumer as a caller: calls get() when it has an offer and get.rdy()."""

        def construct(s, log):
            s.get = CallerIfcCL()
            s.do = False
            s.r_rdy = None
            s.r_x = False
            s.r_msg = None

            @update_once
            def up_c17_get_cl():
                log.append("C")
                s.r_rdy = bool(s.get.rdy())
                s.r_x = False
                s.r_msg = None
                if s.do and s.r_rdy:
                    s.r_msg = s.get()
                    s.r_x = True

    class C17GetterFL(Component):
        """FL consumer: calls the blocking get() when it has an offer."""

        def construct(s, log):
            s.get = GetIfcFL()
            s.do = False
            s.busy = False
            s.r_start = False
            s.r_ret = False
            s.r_msg = None

            @update_once
            def up_c17_get_fl():
                log.append("C")
                if s.do:
                    s.busy = True
                    s.r_start = True
                    s.r_msg = s.get()
                    s.busy = False
                    s.r_ret = True

    class C17DrvEnRdy(Component):
        """RTL producer with an en/rdy send port: en = offer & rdy."""

        def construct(s, T):
            s.val = InPort()
            s.msg = InPort(T)
            s.send = SendIfcRTL(T)

            @update
            def up_c17_drv():
                s.send.en @= s.val & s.send.rdy
                s.send.msg @= s.msg

    class C17RecvStub(Component):
        """RTL consumer with an en/rdy recv port: rdy = the dequeue offer."""

        def construct(s, T):
            s.rdy = InPort()
            s.recv = RecvIfcRTL(T)

            @update
            def up_c17_rstub():
                s.recv.rdy @= s.rdy

    class C17GiveStub(Component):
        """RTL producer with an en/rdy give port (callee): rdy = the enqueue offer, ret = the message."""

        def construct(s, T):
            s.val = InPort()
            s.msg = InPort(T)
            s.give = GiveIfcRTL(T)

            @update
            def up_c17_gstub():
                s.give.rdy @= s.val
                s.give.ret @= s.msg

    class C17ValDrv(Component):
        """RTL producer with a val/rdy send port."""

        def construct(s, T):
            s.val = InPort()
            s.msg = InPort(T)
            s.send = ValSendIfcRTL(T)

            @update
            def up_c17_vdrv():
                s.send.val @= s.val
                s.send.msg @= s.msg

    class C17ValSink(Component):
        """RTL consumer with a val/rdy recv port."""

        def construct(s, T):
            s.rdy = InPort()
            s.recv = ValRecvIfcRTL(T)

            @update
            def up_c17_vsink():
                s.recv.rdy @= s.rdy

    # ---- wrappers: a port of the PARENT connected to a port of another level of a child (the hooks
    # ---- that only fire in that constellation)

    class C17WrapRecvCL(Component):
        """parent CalleeIfcCL <- child RecvIfcRTL   (RecvIfcRTL.connect, CalleeIfcCL branch)"""

        def construct(s, T):
            s.recv = CalleeIfcCL()
            s.rdy = InPort()
            s.snk = C17RecvStub(T)
            s.snk.rdy //= s.rdy
            connect(s.recv, s.snk.recv)

    class C17WrapFLSrcCL(Component):
        """child SendIfcFL -> parent CallerIfcCL   (SendIfcFL.connect, CallerIfcCL branch)"""

        def construct(s, T, log):
            s.send = CallerIfcCL()
            s.src = C17SrcFL(log)
            connect(s.src.send, s.send)

    class C17WrapFLSrcRTL(Component):
        """child SendIfcFL -> parent SendIfcRTL   (SendIfcFL.connect, SendIfcRTL branch)"""

        def construct(s, T, log):
            s.send = SendIfcRTL(T)
            s.src = C17SrcFL(log)
            connect(s.src.send, s.send)

    class C17WrapFLGetRTL(Component):
        """parent RecvIfcRTL -> child GetIfcFL   (GetIfcFL.connect, RecvIfcRTL branch)"""

        def construct(s, T, log):
            s.recv = RecvIfcRTL(T)
            s.snk = C17GetterFL(log)
            connect(s.recv, s.snk.get)

    class C17WrapGiveCL(Component):
        """parent CalleeIfcCL <- child GiveIfcRTL   (GiveIfcRTL.connect, CalleeIfcCL branch)"""

        def construct(s, T):
            s.give = CalleeIfcCL()
            s.val = InPort()
            s.msg = InPort(T)
            s.src = C17GiveStub(T)
            s.src.val //= s.val
            s.src.msg //= s.msg
            connect(s.src.give, s.give)

    class C17Top(Component):
        """producer - design under test - consumer.  `name` selects the design (see catalogue()/chains())."""

        def construct(s, name, T):
            from pymtl3.stdlib.ifcs.get_give_ifcs import GetRTL2GiveCL, RecvCL2GiveFL, RecvRTL2GiveFL
            from pymtl3.stdlib.ifcs.send_recv_ifcs import (RecvCL2SendRTL, RecvFL2SendCL, RecvFL2SendRTL,
                                                           RecvRTL2SendCL)
            s.log = log = []
            s.p_val = InPort()
            s.p_msg = InPort(T)
            s.c_rdy = InPort()

            def rtl_src(src):
                src.val //= s.p_val
                src.msg //= s.p_msg

            # ---------------- the adapters themselves
            if name == "ifcs.RecvCL2SendRTL":
                s.src, s.dut, s.snk = C17SrcCL(log), RecvCL2SendRTL(T), C17RecvStub(T)
                connect(s.src.send, s.dut.recv)
                connect(s.dut.send, s.snk.recv)
                s.snk.rdy //= s.c_rdy
            elif name == "ifcs.RecvRTL2SendCL":
                s.src, s.dut, s.snk = C17DrvEnRdy(T), RecvRTL2SendCL(T), C17SinkCL(log)
                rtl_src(s.src)
                connect(s.src.send, s.dut.recv)
                connect(s.dut.send, s.snk.recv)
            elif name == "ifcs.RecvFL2SendCL":
                s.src, s.dut, s.snk = C17SrcFL(log), RecvFL2SendCL(), C17SinkCL(log)
                connect(s.src.send, s.dut.recv)
                connect(s.dut.send, s.snk.recv)
            elif name == "ifcs.RecvFL2SendRTL":
                s.src, s.dut, s.snk = C17SrcFL(log), RecvFL2SendRTL(T), C17RecvStub(T)
                connect(s.src.send, s.dut.recv)
                connect(s.dut.send, s.snk.recv)
                s.snk.rdy //= s.c_rdy
            elif name == "ifcs.GetRTL2GiveCL":
                s.src, s.dut, s.snk = C17GiveStub(T), GetRTL2GiveCL(T), C17GetterCL(log)
                rtl_src(s.src)
                connect(s.src.give, s.dut.get)
                connect(s.dut.give, s.snk.get)
            elif name == "ifcs.RecvCL2GiveFL":
                s.src, s.dut, s.snk = C17SrcCL(log), RecvCL2GiveFL(), C17GetterFL(log)
                connect(s.src.send, s.dut.recv)
                connect(s.dut.give, s.snk.get)
            elif name == "ifcs.RecvRTL2GiveFL":
                s.src, s.dut, s.snk = C17DrvEnRdy(T), RecvRTL2GiveFL(T), C17GetterFL(log)
                rtl_src(s.src)
                connect(s.src.send, s.dut.recv)
                connect(s.dut.give, s.snk.get)
            elif name == "stream.RecvQueueAdapter":
                from pymtl3.stdlib.stream.queue_adapters import RecvQueueAdapter
                s.src, s.dut, s.snk = C17ValDrv(T), RecvQueueAdapter(T), C17GetterCL(log)
                rtl_src(s.src)
                connect(s.src.send, s.dut.recv)
                connect(s.dut.deq, s.snk.get)
            elif name == "stream.SendQueueAdapter":
                from pymtl3.stdlib.stream.queue_adapters import SendQueueAdapter
                s.src, s.dut, s.snk = C17SrcCL(log), SendQueueAdapter(T), C17ValSink(T)
                connect(s.src.send, s.dut.enq)
                connect(s.dut.send, s.snk.recv)
                s.snk.rdy //= s.c_rdy
            # ---------------- CL sides driven by callers that sample rdy() and call the method in different blocks
            elif name == "split.ifcs.RecvCL2SendRTL":
                s.src, s.dut, s.snk = C17SrcCLSplit(log), RecvCL2SendRTL(T), C17RecvStub(T)
                connect(s.src.send, s.dut.recv)
                connect(s.dut.send, s.snk.recv)
                s.snk.rdy //= s.c_rdy
            elif name == "split.stream.SendQueueAdapter":
                from pymtl3.stdlib.stream.queue_adapters import SendQueueAdapter
                s.src, s.dut, s.snk = C17SrcCLSplit(log), SendQueueAdapter(T), C17ValSink(T)
                connect(s.src.send, s.dut.enq)
                connect(s.dut.send, s.snk.recv)
                s.snk.rdy //= s.c_rdy
            elif name == "split.stream.RecvQueueAdapter":
                from pymtl3.stdlib.stream.queue_adapters import RecvQueueAdapter
                s.src, s.dut, s.snk = C17ValDrv(T), RecvQueueAdapter(T), C17GetterCLSplit(log)
                rtl_src(s.src)
                connect(s.src.send, s.dut.recv)
                connect(s.dut.deq, s.snk.get)
            # ---------------- the connect hooks (ports of different levels connected directly)
            elif name == "hook.CallerIfcCL>RecvIfcRTL":
                s.src, s.snk = C17SrcCL(log), C17RecvStub(T)
                connect(s.src.send, s.snk.recv)
                s.snk.rdy //= s.c_rdy
            elif name == "hook.CallerIfcCL>CalleeIfcCL=RecvIfcRTL":
                s.src, s.snk = C17SrcCL(log), C17WrapRecvCL(T)
                connect(s.src.send, s.snk.recv)
                s.snk.rdy //= s.c_rdy
            elif name == "hook.SendIfcRTL>CalleeIfcCL":
                s.src, s.snk = C17DrvEnRdy(T), C17SinkCL(log)
                rtl_src(s.src)
                connect(s.src.send, s.snk.recv)
            elif name == "hook.SendIfcFL>CalleeIfcCL":
                s.src, s.snk = C17SrcFL(log), C17SinkCL(log)
                connect(s.src.send, s.snk.recv)
            elif name == "hook.SendIfcFL=CallerIfcCL>CalleeIfcCL":
                s.src, s.snk = C17WrapFLSrcCL(T, log), C17SinkCL(log)
                connect(s.src.send, s.snk.recv)
            elif name == "hook.SendIfcFL=SendIfcRTL>RecvIfcRTL":
                s.src, s.snk = C17WrapFLSrcRTL(T, log), C17RecvStub(T)
                connect(s.src.send, s.snk.recv)
                s.snk.rdy //= s.c_rdy
            elif name == "hook.CallerIfcCL>GetIfcFL":
                s.src, s.snk = C17SrcCL(log), C17GetterFL(log)
                connect(s.src.send, s.snk.get)
            elif name == "hook.SendIfcRTL>RecvIfcRTL=GetIfcFL":
                s.src, s.snk = C17DrvEnRdy(T), C17WrapFLGetRTL(T, log)
                rtl_src(s.src)
                connect(s.src.send, s.snk.recv)
            elif name == "hook.GiveIfcRTL>RecvIfcRTL":
                s.src, s.snk = C17GiveStub(T), C17RecvStub(T)
                rtl_src(s.src)
                connect(s.src.give, s.snk.recv)
                s.snk.rdy //= s.c_rdy
            elif name == "hook.GiveIfcRTL=CalleeIfcCL<CallerIfcCL":
                s.src, s.snk = C17WrapGiveCL(T), C17GetterCL(log)
                rtl_src(s.src)
                connect(s.src.give, s.snk.get)
            # ---------------- compositions adapter + library queue + adapter
            elif name == "chain.cl>RecvCL2SendRTL>enrdy.NormalQueue1RTL>RecvRTL2SendCL>cl":
                from pymtl3.stdlib.queues.enrdy_queues import NormalQueue1RTL
                s.src, s.a1, s.q1, s.a2, s.snk = (C17SrcCL(log), RecvCL2SendRTL(T), NormalQueue1RTL(T),
                                                  RecvRTL2SendCL(T), C17SinkCL(log))
                connect(s.src.send, s.a1.recv)
                connect(s.a1.send, s.q1.enq)
                connect(s.q1.deq, s.a2.recv)
                connect(s.a2.send, s.snk.recv)
            elif name == "chain.cl>queues.NormalQueueRTL(2)>enrdy.PipeQueue1RTL>NormalQueueCL(2)>cl":
                from pymtl3.stdlib.queues.cl_queues import NormalQueueCL
                from pymtl3.stdlib.queues.enrdy_queues import PipeQueue1RTL
                from pymtl3.stdlib.queues.queues import NormalQueueRTL
                s.src, s.q1, s.q2, s.q3, s.snk = (C17SrcCL(log), NormalQueueRTL(T, 2), PipeQueue1RTL(T),
                                                  NormalQueueCL(2), C17GetterCL(log))
                connect(s.src.send, s.q1.enq)          # hook: RecvCL2SendRTL
                connect(s.q1.deq, s.q2.enq)            # hook: And gate
                connect(s.q2.deq, s.q3.enq)            # hook: RecvRTL2SendCL
                connect(s.q3.deq, s.snk.get)
            elif name == "chain.fl>queues.PipeQueueRTL(3)>rtl":
                from pymtl3.stdlib.queues.queues import PipeQueueRTL
                s.src, s.q1, s.snk = C17WrapFLSrcRTL(T, log), PipeQueueRTL(T, 3), C17RecvStub(T)
                connect(s.src.send, s.q1.enq)          # hook inside the wrapper: RecvFL2SendRTL
                connect(s.q1.deq, s.snk.recv)          # hook: And gate
                s.snk.rdy //= s.c_rdy
            elif name == "chain.fl>BypassQueueCL(2)>cl":
                from pymtl3.stdlib.queues.cl_queues import BypassQueueCL
                s.src, s.q1, s.snk = C17SrcFL(log), BypassQueueCL(2), C17GetterCL(log)
                connect(s.src.send, s.q1.enq)          # hook: RecvFL2SendCL
                connect(s.q1.deq, s.snk.get)
            elif name == "chain.cl>SendQueueAdapter>stream.NormalQueueRTL(2)>RecvQueueAdapter>cl":
                from pymtl3.stdlib.stream.queue_adapters import RecvQueueAdapter, SendQueueAdapter
                from pymtl3.stdlib.stream.queues import NormalQueueRTL
                s.src, s.a1, s.q1, s.a2, s.snk = (C17SrcCL(log), SendQueueAdapter(T), NormalQueueRTL(T, 2),
                                                  RecvQueueAdapter(T), C17GetterCL(log))
                connect(s.src.send, s.a1.enq)
                connect(s.a1.send, s.q1.recv)
                connect(s.q1.send, s.a2.recv)
                connect(s.a2.deq, s.snk.get)
            elif name == "chain.rtl>enrdy.BypassQueue1RTL>PipeQueueCL(2)>cl":
                from pymtl3.stdlib.queues.cl_queues import PipeQueueCL
                from pymtl3.stdlib.queues.enrdy_queues import BypassQueue1RTL
                s.src, s.q1, s.q2, s.snk = C17DrvEnRdy(T), BypassQueue1RTL(T), PipeQueueCL(2), C17GetterCL(log)
                rtl_src(s.src)
                connect(s.src.send, s.q1.enq)
                connect(s.q1.deq, s.q2.enq)            # hook: RecvRTL2SendCL
                connect(s.q2.deq, s.snk.get)
            elif name == "chain.cl>queues.BypassQueueRTL(3)>enrdy.NormalQueue1RTL>rtl":
                from pymtl3.stdlib.queues.enrdy_queues import NormalQueue1RTL
                from pymtl3.stdlib.queues.queues import BypassQueueRTL
                s.src, s.q1, s.q2, s.snk = C17SrcCL(log), BypassQueueRTL(T, 3), NormalQueue1RTL(T), C17RecvStub(T)
                connect(s.src.send, s.q1.enq)          # hook: RecvCL2SendRTL
                connect(s.q1.deq, s.q2.enq)            # hook: And gate
                connect(s.q2.deq, s.snk.recv)
                s.snk.rdy //= s.c_rdy
            elif name == "chain.cl>RecvCL2GiveFL>fl":
                s.src, s.a1, s.snk = C17SrcCL(log), RecvCL2GiveFL(), C17GetterFL(log)
                connect(s.src.send, s.a1.recv)
                connect(s.a1.give, s.snk.get)
            else:
                raise MachineryError("unknown C17 adapter design %r" % name)

        def line_trace(s):
            return ""

    _NS = dict(locals())
    return _NS


# --------------------------------------------------------------------------------------------
# catalogue
# --------------------------------------------------------------------------------------------

class Entry:
    def __init__(self, name, kind, cls, path, note=""):
        self.name = name            # stable identifier used in violation keys
        self.kind = kind            # kind of Adapter.tla
        self.cls = cls              # class of the adapter (looked up among the components of the design)
        self.path = path            # anchored file that holds the adapter / the hook
        self.note = note


def catalogue():
    """The adapters and the connect hooks that insert them (discovered by reading the three files)."""
    sr, gg, qa = "ifcs/send_recv_ifcs.py", "ifcs/get_give_ifcs.py", "stream/queue_adapters.py"
    return [
        Entry("ifcs.RecvCL2SendRTL", "cl2rtl", "RecvCL2SendRTL", sr),
        Entry("ifcs.RecvRTL2SendCL", "rtl2cl", "RecvRTL2SendCL", sr),
        Entry("ifcs.RecvFL2SendCL", "fl2cl", "RecvFL2SendCL", sr),
        Entry("ifcs.RecvFL2SendRTL", "fl2rtl", "RecvFL2SendRTL", sr),
        Entry("ifcs.GetRTL2GiveCL", "get2cl", "GetRTL2GiveCL", gg),
        Entry("ifcs.RecvCL2GiveFL", "cl2fl", "RecvCL2GiveFL", gg),
        Entry("ifcs.RecvRTL2GiveFL", "rtl2fl", "RecvRTL2GiveFL", gg),
        Entry("stream.RecvQueueAdapter", "val2cl", "RecvQueueAdapter", qa),
        Entry("stream.SendQueueAdapter", "cl2val", "SendQueueAdapter", qa),
        Entry("split.ifcs.RecvCL2SendRTL", "cl2rtl", "RecvCL2SendRTL", sr, "rdy() sampled and recv() called in different blocks"),
        Entry("split.stream.SendQueueAdapter", "cl2val", "SendQueueAdapter", qa, "rdy() sampled and enq() called in different blocks"),
        Entry("split.stream.RecvQueueAdapter", "val2cl", "RecvQueueAdapter", qa, "rdy() sampled and deq() called in different blocks"),
        Entry("hook.CallerIfcCL>RecvIfcRTL", "cl2rtl", "RecvCL2SendRTL", sr, "RecvIfcRTL.connect(CallerIfcCL)"),
        Entry("hook.CallerIfcCL>CalleeIfcCL=RecvIfcRTL", "cl2rtl", "RecvCL2SendRTL", sr,
              "RecvIfcRTL.connect(CalleeIfcCL of the parent)"),
        Entry("hook.SendIfcRTL>CalleeIfcCL", "rtl2cl", "RecvRTL2SendCL", sr, "SendIfcRTL.connect(CalleeIfcCL)"),
        Entry("hook.SendIfcFL>CalleeIfcCL", "fl2cl", "RecvFL2SendCL", sr, "SendIfcFL.connect(CalleeIfcCL)"),
        Entry("hook.SendIfcFL=CallerIfcCL>CalleeIfcCL", "fl2cl", "RecvFL2SendCL", sr,
              "SendIfcFL.connect(CallerIfcCL of the parent)"),
        Entry("hook.SendIfcFL=SendIfcRTL>RecvIfcRTL", "fl2rtl", "RecvFL2SendRTL", sr,
              "SendIfcFL.connect(SendIfcRTL of the parent)"),
        Entry("hook.CallerIfcCL>GetIfcFL", "cl2fl", "RecvCL2GiveFL", gg, "GetIfcFL.connect(CallerIfcCL)"),
        Entry("hook.SendIfcRTL>RecvIfcRTL=GetIfcFL", "rtl2fl", "RecvRTL2GiveFL", gg,
              "GetIfcFL.connect(RecvIfcRTL of the parent)"),
        Entry("hook.GiveIfcRTL>RecvIfcRTL", "and", "And", gg, "GiveIfcRTL.connect(RecvIfcRTL): the And gate"),
        Entry("hook.GiveIfcRTL=CalleeIfcCL<CallerIfcCL", "get2cl", "GetRTL2GiveCL", gg,
              "GiveIfcRTL.connect(CalleeIfcCL of the parent)"),
    ]


class Chain:
    def __init__(self, name, cap, inserted, depth):
        self.name = name
        self.cap = cap              # sum of the capacities of the stages (+1 for the frame of an FL producer)
        self.inserted = inserted    # adapter classes the connect hooks must have inserted: {class: count}
        self.depth = depth          # number of stages (for the drain phase)


def chains():
    return [
        # explicit adapters around an en/rdy queue: 1 (cl2rtl) + 1 + 0 (rtl2cl)
        Chain("chain.cl>RecvCL2SendRTL>enrdy.NormalQueue1RTL>RecvRTL2SendCL>cl", 2, {}, 3),
        # queues of three interface styles connected directly: 1 (cl2rtl) + 2 + 0 (And) + 1 + 0 (rtl2cl) + 2
        Chain("chain.cl>queues.NormalQueueRTL(2)>enrdy.PipeQueue1RTL>NormalQueueCL(2)>cl", 6,
              {"RecvCL2SendRTL": 1, "And": 1, "RecvRTL2SendCL": 1}, 6),
        # 2 (fl2rtl: frame + buffer) + 3 + 0 (And)
        Chain("chain.fl>queues.PipeQueueRTL(3)>rtl", 5, {"RecvFL2SendRTL": 1, "And": 1}, 3),
        # 1 (fl2cl: frame) + 2
        Chain("chain.fl>BypassQueueCL(2)>cl", 3, {"RecvFL2SendCL": 1}, 2),
        # 1 (cl2val) + 2 + 1 (val2cl)
        Chain("chain.cl>SendQueueAdapter>stream.NormalQueueRTL(2)>RecvQueueAdapter>cl", 4, {}, 3),
        # 1 + 0 (rtl2cl) + 2
        Chain("chain.rtl>enrdy.BypassQueue1RTL>PipeQueueCL(2)>cl", 3, {"RecvRTL2SendCL": 1}, 3),
        # 1 (cl2rtl) + 3 + 0 (And) + 1
        Chain("chain.cl>queues.BypassQueueRTL(3)>enrdy.NormalQueue1RTL>rtl", 5, {"RecvCL2SendRTL": 1, "And": 1}, 4),
        # 1 (cl2fl)
        Chain("chain.cl>RecvCL2GiveFL>fl", 1, {}, 1),
    ]


# --------------------------------------------------------------------------------------------
# driver
# --------------------------------------------------------------------------------------------

class Unbuildable(Exception):
    """The design cannot be elaborated / prepared for simulation on this tree."""


def _i(v):
    return None if v is None else int(v)


class AdapterDut:
    """One design of C17Top behind the cycle interface."""

    def __init__(self, name, cls=None, sched=None):
        """sched None: DefaultPassGroup (DynamicSchedulePass); an int k: SimpleSimPass under random.seed(k) (its
        SimpleSchedulePass breaks ties with random.shuffle) -- another legal schedule of the same constraints."""
        import random
        from pymtl3 import DefaultPassGroup, mk_bits
        from pymtl3.passes.PassGroups import SimpleSimPass
        ns = _ns()
        self.name = name
        self.T = mk_bits(DATA_NBITS)
        top = ns["C17Top"](name, self.T)
        try:
            top.elaborate()
            if sched is None:
                top.apply(DefaultPassGroup())
            else:
                st = random.getstate()
                random.seed("c17-adapter-sched-%d" % sched)
                try:
                    top.apply(SimpleSimPass())
                finally:
                    random.setstate(st)
        except MachineryError:
            raise
        except Exception as e:
            raise Unbuildable("%s: %s" % (type(e).__name__, " ".join(str(e).split())[:300])) from e
        self.top = top
        comps = list(top.get_all_components())
        self.comps = comps
        self.src = next(c for c in comps if type(c).__name__ in ("C17SrcCL", "C17SrcCLSplit", "C17SrcFL", "C17DrvEnRdy",
                                                                 "C17GiveStub", "C17ValDrv"))
        self.snk = next(c for c in comps if type(c).__name__ in ("C17SinkCL", "C17GetterCL", "C17GetterCLSplit",
                                                                 "C17GetterFL", "C17RecvStub", "C17ValSink"))
        self.skind = type(self.src).__name__.replace("Split", "")      # the split callers expose the same fields
        self.ckind = type(self.snk).__name__.replace("Split", "")
        self.ad = None
        if cls is not None:
            found = [c for c in comps if type(c).__name__ == cls]
            if len(found) != 1:
                raise MachineryError("%s: expected one %s in the design, found %d (%s)"
                                     % (name, cls, len(found), sorted(repr(c) for c in comps)))
            self.ad = found[0]
        self.has_entry = self.ad is not None and hasattr(self.ad, "entry")
        if self.skind == "C17SrcFL" and self.has_entry:
            ad = self.ad
            self.src.probe = lambda: ad.entry is None
        self.sched = [getattr(f, "__name__", "?") for f in top._sched.update_schedule]
        self._idle()
        top.sim_reset()
        self._idle()
        self.ngot = 0
        self.hold = []          # (message object handed to a CL / FL consumer, its value at delivery)

    # the order of `up_clear` and the block calling recv() (the one order RecvFL2SendRTL leaves open)
    def clear_first(self):
        if "up_clear" not in self.sched or "up_c17_src_fl" not in self.sched:
            return None
        return self.sched.index("up_clear") < self.sched.index("up_c17_src_fl")

    def inserted(self):
        out = {}
        for c in self.comps:
            n = type(c).__name__
            if n in ("RecvCL2SendRTL", "RecvRTL2SendCL", "RecvFL2SendCL", "RecvFL2SendRTL", "GetRTL2GiveCL",
                     "RecvCL2GiveFL", "RecvRTL2GiveFL", "And"):
                out[n] = out.get(n, 0) + 1
        return out

    def _idle(self):
        t = self.top
        t.p_val @= 0
        t.p_msg @= IDLE_MSG
        t.c_rdy @= 0
        if hasattr(self.src, "eo") and not getattr(self.src, "busy", False):
            self.src.eo, self.src.m = False, None
        if hasattr(self.snk, "do") and not getattr(self.snk, "busy", False):
            self.snk.do = False

    def pblk(self):
        return bool(getattr(self.src, "busy", False))

    def cblk(self):
        return bool(getattr(self.snk, "busy", False))

    def sig(self):
        ad = self.ad
        s = [int(self.pblk()), int(self.cblk())]
        if ad is not None:
            if hasattr(ad, "entry"):
                s.append(int(ad.entry is not None))
            if hasattr(ad, "send") and hasattr(ad.send, "en") and not callable(ad.send.en):
                s.append(int(ad.send.en))
            if hasattr(ad, "sent"):
                s.append(int(ad.sent))
                s.append(int(ad.send.val) & int(ad.send.rdy))
        return tuple(s)

    def signames(self):
        ad = self.ad
        n = ["src.busy", "snk.busy"]
        if ad is not None:
            if hasattr(ad, "entry"):
                n.append("entry is not None")
            if hasattr(ad, "send") and hasattr(ad.send, "en") and not callable(ad.send.en):
                n.append("send.en")
            if hasattr(ad, "sent"):
                n += ["sent", "send.val&send.rdy"]
        return n

    def cycle(self, eo, m, do, rst=False):
        t, src, snk = self.top, self.src, self.snk
        sk, ck = self.skind, self.ckind
        pb0, cb0 = self.pblk(), self.cblk()
        if pb0 and eo:
            raise MachineryError("%s: the harness offered a new message while the FL producer is blocked" % self.name)
        if cb0 and not do:
            raise MachineryError("%s: the harness withdrew the offer of a blocked FL consumer" % self.name)
        # offers
        if sk in ("C17SrcCL", "C17SrcFL"):
            if not pb0:
                src.eo, src.m = bool(eo), (self.T(m) if eo else None)
            if sk == "C17SrcCL":
                src.r_rdy = None
            src.r_start = src.r_ret = False
            src.r_probe = None
        else:
            t.p_val @= 1 if eo else 0
            t.p_msg @= m if eo else IDLE_MSG
        if ck in ("C17SinkCL", "C17GetterCL", "C17GetterFL"):
            if not cb0:
                snk.do = bool(do)
            if ck == "C17GetterCL":
                snk.r_rdy = None
            snk.r_start = snk.r_ret = False
        else:
            t.c_rdy @= 1 if do else 0
        t.reset @= 1 if rst else 0
        del t.log[:]
        t.sim_tick()
        if rst:
            t.reset @= 0
        obs = {"enq_rdy": None, "deq_rdy": None, "ret": None, "deq_msg": None, "count2": None, "ent2": None,
               "clr2": None, "order": "".join(t.log)}
        # a message that was delivered is a value: the object handed over must not change afterwards
        for o, v in self.hold:
            if int(o) != v:
                obs["illegal"] = "delivered-message-changed-after-delivery"
        handed = None
        # producer side
        if sk == "C17SrcCL":
            obs["enq_rdy"], obs["enq_xfer"] = src.r_rdy, bool(src.r_x)
        elif sk == "C17SrcFL":
            obs["enq_xfer"], obs["ret"] = bool(src.r_start), bool(src.r_ret)
            if src.r_start and src.r_probe is not None:
                obs["enq_rdy"] = bool(src.r_probe)
        elif sk == "C17DrvEnRdy":
            obs["enq_rdy"], obs["enq_xfer"] = bool(src.send.rdy), bool(src.send.en)
            if int(src.send.en) and not int(src.send.rdy):
                obs["illegal"] = "en-without-rdy"
        elif sk == "C17GiveStub":
            obs["enq_xfer"] = bool(src.give.en)
            obs["enq_rdy"] = bool(src.give.en) if eo else None
            if int(src.give.en) and not eo:
                obs["illegal"] = "give-enabled-without-rdy"
        elif sk == "C17ValDrv":
            obs["enq_rdy"] = bool(src.send.rdy)
            obs["enq_xfer"] = bool(eo and int(src.send.rdy))
        # consumer side
        if ck == "C17SinkCL":
            new = snk.got[self.ngot:]
            self.ngot = len(snk.got)
            obs["deq_xfer"] = bool(new)
            if new:
                obs["deq_msg"] = _i(new[0])
                handed = new[0]
            if len(new) > 1:
                obs["illegal"] = "two-deliveries-in-one-cycle"
            if new and not do:
                obs["illegal"] = "delivery-to-a-consumer-that-is-not-ready"
        elif ck == "C17GetterCL":
            obs["deq_rdy"], obs["deq_xfer"] = snk.r_rdy, bool(snk.r_x)
            if snk.r_x:
                obs["deq_msg"] = _i(snk.r_msg)
                handed = snk.r_msg
        elif ck == "C17GetterFL":
            obs["deq_xfer"] = bool(snk.r_ret)
            if snk.r_ret:
                obs["deq_msg"] = _i(snk.r_msg)
                handed = snk.r_msg
        elif ck == "C17RecvStub":
            en = int(snk.recv.en)
            obs["deq_xfer"] = bool(en)
            obs["deq_rdy"] = bool(en) if do else None
            if en:
                obs["deq_msg"] = int(snk.recv.msg)
            if en and not do:
                obs["illegal"] = "en-without-rdy"
        elif ck == "C17ValSink":
            v = int(snk.recv.val)
            obs["deq_rdy"] = bool(v)
            obs["deq_xfer"] = bool(v and do)
            if v:
                obs["deq_msg"] = int(snk.recv.msg)
        if handed is not None and not isinstance(handed, int):
            self.hold = self.hold[-2:] + [(handed, int(handed))]
        obs["pblk"], obs["cblk"] = self.pblk(), self.cblk()
        # white box: the adapter's buffer
        ad = self.ad
        if ad is not None and hasattr(ad, "entry"):
            obs["ent2"] = int(ad.entry is not None)
            if hasattr(ad, "send") and hasattr(ad.send, "en") and not callable(ad.send.en):
                obs["clr2"] = bool(int(ad.send.en))
            elif hasattr(ad, "sent"):
                obs["clr2"] = bool(int(ad.send.val) & int(ad.send.rdy))
            else:
                obs["clr2"] = False
            obs["count2"] = (obs["ent2"] if not obs["clr2"] else 0) + int(obs["pblk"])
        elif ad is not None:
            obs["count2"] = int(obs["pblk"])
        self._idle()
        return obs


def make(name, cls=None, sched=None):
    return AdapterDut(name, cls, sched)
