"""Generator of pymtl3 RTL designs (source text) for the translation-validation corpus of C03 / C12.

Every design is a module text with a class `Top`.  The families cover operators x operand shapes x
widths, control flow (if / elif / for with all range forms / temporaries), bitstructs (fields, nested,
packed arrays), hierarchy (sub-components to depth 3, arrays of sub-components, interfaces, arrays of
interfaces, structural connections incl. slices and constants) and sequential logic.

Two grid families enumerate shape classes systematically instead of sampling them: "nd" (array-like construct
x dimensionality x access mode; see nd_design) and "lv" (use of a loop variable x range form; see fam_lv).

  design(family, index, seed_tag) -> (name, source, meta) deterministic for fixed VERIF_SEED
  FAMILIES                                               names of the families
The name encodes family, index and the main parameters: violation keys are built from it.
"""
from common import rng

WIDTHS = [1, 2, 7, 8, 31, 32, 33, 64]
BINOPS = ["+", "-", "*", "&", "|", "^", "<<", ">>", "%"]
CMPOPS = ["==", "!=", "<", "<=", ">", ">="]

HEADER = "from pymtl3 import *\n\n"


def clog2(n):
    return max(1, (n - 1).bit_length())


def lit(R, w):
    m = (1 << w) - 1
    return R.choice([0, 1, m, m >> 1, 1 << (w - 1), R.getrandbits(w), R.getrandbits(w) & R.getrandbits(w)]) & m


_CTXS = []


class Ctx:
    """Accumulates the declarations of one component while expressions are generated."""

    def __init__(self, R, prefix=""):
        self.R = R
        self.decl = []          # lines of construct() before the update blocks
        self.globals_ = []      # module-level lines (free variables, structs, sub-component classes)
        self.n = 0
        self.in_ports = {}      # width -> [names]
        self.structs = {}       # name -> [(field, kind, width, count)]
        self.pre = []           # statements to put before the current statement (temporaries)
        self.loopvars = []      # (name, max value) in scope
        self.subs = 0
        self.depth_budget = 2
        self.sigstack = []
        self.sig = ""
        self.tmpsigs = {}       # temporary name -> shape of the expression assigned to it
        _CTXS.append(self)

    def fresh(self, p):
        self.n += 1
        return "%s%d" % (p, self.n)

    def inport(self, w, reuse=0.6):
        lst = self.in_ports.setdefault(w, [])
        if lst and self.R.random() < reuse:
            return self.R.choice(lst)
        n = self.fresh("i")
        self.decl.append("s.%s = InPort( Bits%d )" % (n, w))
        lst.append(n)
        return n

    # ---- struct types
    def struct(self, w):
        """A bitstruct type with a field of width w (f1), an 8-bit field, and a packed array of w."""
        name = "S%d_%d" % (w, self.R.randrange(3))
        if name not in self.structs:
            variant = int(name[-1])
            if variant == 0:
                fields = [("f0", "Bits8"), ("f1", "Bits%d" % w)]
            elif variant == 1:
                fields = [("f1", "Bits%d" % w), ("arr", "[ Bits%d ] * 2" % w), ("f0", "Bits8")]
            else:
                inner = name + "_in"
                self.globals_.append("@bitstruct\nclass %s:\n  g0: Bits%d\n  g1: Bits4\n" % (inner, w))
                fields = [("f0", "Bits8"), ("inner", inner), ("f1", "Bits%d" % w)]
            self.globals_.append("@bitstruct\nclass %s:\n%s\n" % (name, "\n".join("  %s: %s" % f for f in fields)))
            self.structs[name] = variant
        return name, self.structs[name]


def _sized(ctx, w, depth, allow_loop=True, nonconst=False, force=None):
    """Source of an expression of explicit width w.  nonconst: not a compile-time constant (pymtl3 folds
    constant sub-expressions and then sizes them by value, which makes most such designs untranslatable).
    The shape of the expression (operator / operand-shape tree, without widths and names) is left in
    ctx.sig: violation keys are built from it."""
    ctx.sigstack.append(["?", []])
    src = _sized0(ctx, w, depth, allow_loop, nonconst, force)
    tok, kids = ctx.sigstack.pop()
    sig = tok + ("(" + ",".join(kids) + ")" if kids else "")
    if ctx.sigstack:
        ctx.sigstack[-1][1].append(sig)
    ctx.sig = sig
    return src


def _tok(ctx, t):
    ctx.sigstack[-1][0] = t


def _sized0(ctx, w, depth, allow_loop=True, nonconst=False, force=None):
    R = ctx.R
    shapes = ["port", "port", "slice", "field", "uarr", "sub", "tmp"]
    if not nonconst:
        shapes += ["lit", "freevar", "attr"]
    if w == 1:
        shapes += ["bit", "bitdyn", "red", "cmp", "cmp"]
    if depth > 0:
        shapes += ["bin", "bin", "bin", "un", "ifexp", "ext", "cat", "cast", "shiftlit"]
    if ctx.loopvars and allow_loop and not nonconst:
        shapes += ["loopcast"]
    sh = force or R.choice(shapes)
    _tok(ctx, sh)
    if sh == "port":
        return "s.%s" % ctx.inport(w)
    if sh == "lit":
        return "Bits%d( %d )" % (w, lit(R, w))
    if sh == "freevar":
        n = ctx.fresh("G")
        if R.random() < 0.5:
            ctx.globals_.append("%s = Bits%d( %d )" % (n, w, lit(R, w)))
        else:
            ctx.decl.append("%s = Bits%d( %d )" % (n, w, lit(R, w)))
        return n
    if sh == "attr":
        n = ctx.fresh("C")
        ctx.decl.append("s.%s = Bits%d( %d )" % (n, w, lit(R, w)))
        return "s.%s" % n
    if sh == "slice":
        extra = R.choice([1, 3, 8, 32])
        if w + extra > 128:
            extra = 1
        p = ctx.inport(w + extra, reuse=0.3)
        lo = R.randrange(extra + 1)
        return "s.%s[%d:%d]" % (p, lo, lo + w)
    if sh == "field":
        sn, variant = ctx.struct(w)
        p = ctx.fresh("st")
        ctx.decl.append("s.%s = InPort( %s )" % (p, sn))
        if variant == 1 and R.random() < 0.6:
            _tok(ctx, "field.arr")
            return "s.%s.arr[%d]" % (p, R.randrange(2))
        if variant == 2 and R.random() < 0.6:
            _tok(ctx, "field.nested")
            return "s.%s.inner.g0" % p
        return "s.%s.f1" % p
    if sh == "uarr":
        n = R.choice([2, 4])
        p = ctx.fresh("a")
        ctx.decl.append("s.%s = [ InPort( Bits%d ) for _ in range(%d) ]" % (p, w, n))
        if R.random() < 0.5:
            sel = ctx.inport(clog2(n), reuse=0.5)
            _tok(ctx, "uarrdyn")
            return "s.%s[ s.%s ]" % (p, sel)
        return "s.%s[%d]" % (p, R.randrange(n))
    if sh == "sub":
        return _subcomp(ctx, w)
    if sh == "tmp":
        t = ctx.fresh("t")
        e = _sized(ctx, w, max(0, depth - 1), nonconst=True)
        ctx.tmpsigs[t] = ctx.sig
        ctx.pre.append("%s = %s" % (t, e))
        return t
    if sh == "bit":
        w2 = R.choice([2, 7, 8, 32, 33, 64])
        p = ctx.inport(w2)
        return "s.%s[%d]" % (p, R.randrange(w2))
    if sh == "bitdyn":
        w2 = R.choice([2, 8, 32, 64])
        p = ctx.inport(w2)
        sel = ctx.inport(clog2(w2), reuse=0.5)
        return "s.%s[ s.%s ]" % (p, sel)
    if sh == "red":
        w2 = R.choice(WIDTHS)
        rop = R.choice(["and", "or", "xor"])
        _tok(ctx, "red_" + rop)
        return "reduce_%s( %s )" % (rop, _sized(ctx, w2, depth - 1, nonconst=True))
    if sh == "cmp":
        w2 = R.choice(WIDTHS)
        a = _sized(ctx, w2, max(0, depth - 1), nonconst=True)
        if R.random() < 0.3:
            b = str(lit(R, w2))
        else:
            b = _sized(ctx, w2, max(0, depth - 1))
        cop = R.choice(CMPOPS)
        _tok(ctx, "cmp" + cop)
        return "( %s %s %s )" % (a, cop, b)
    if sh == "bin":
        op = R.choice(BINOPS)
        _tok(ctx, "bin" + op)
        a = _sized(ctx, w, depth - 1, nonconst=True)
        if op == "%":
            b = "( %s | Bits%d( 1 ) )" % (_sized(ctx, w, depth - 1), w)
        elif R.random() < 0.25:
            v = lit(R, w)
            if op in ("<<", ">>"):
                v = R.randrange(w + 2) & ((1 << w) - 1)
            b = str(v)
        else:
            b = _sized(ctx, w, depth - 1)
        if R.random() < 0.15 and op not in ("<<", ">>", "%", "-"):
            v = lit(R, w)
            return "( %d %s %s )" % (v, op, b if not b.isdigit() else a)
        return "( %s %s %s )" % (a, op, b)
    if sh == "shiftlit":
        return "( %s %s %d )" % (_sized(ctx, w, depth - 1, nonconst=True), R.choice(["<<", ">>"]), R.randrange(w + 1) & ((1 << w) - 1))
    if sh == "un":
        return "( ~%s )" % _sized(ctx, w, depth - 1, nonconst=True)
    if sh == "ifexp":
        c = _sized(ctx, 1, depth - 1, nonconst=True)
        return "( %s if %s else %s )" % (_sized(ctx, w, depth - 1, nonconst=True), c, _sized(ctx, w, depth - 1))
    if sh == "ext":
        if w == 1:
            _tok(ctx, "trunc")
            return "trunc( %s, 1 )" % _sized(ctx, R.choice([2, 8, 33]), depth - 1, nonconst=True)
        narrower = [x for x in WIDTHS + [3, 4, 16] if x < w]
        wider = [x for x in WIDTHS + [16, 65] if x > w]
        k = R.random()
        if k < 0.4 or not wider:
            _tok(ctx, "zext")
            return "zext( %s, %d )" % (_sized(ctx, R.choice(narrower), depth - 1, nonconst=True), w)
        if k < 0.8:
            _tok(ctx, "sext")
            return "sext( %s, %d )" % (_sized(ctx, R.choice(narrower), depth - 1, nonconst=True), w)
        _tok(ctx, "trunc")
        return "trunc( %s, %d )" % (_sized(ctx, R.choice(wider), depth - 1, nonconst=True), w)
    if sh == "cat":
        if w == 1:
            return _sized(ctx, 1, depth - 1)
        k = R.randrange(1, w)
        parts = [k, w - k]
        if parts[1] > 1 and R.random() < 0.3:
            j = R.randrange(1, parts[1])
            parts = [k, j, parts[1] - j]
        return "concat( %s )" % ", ".join(_sized(ctx, p, depth - 1, nonconst=(j == 0)) for j, p in enumerate(parts))
    if sh == "cast":
        # (the simulator only accepts BitsN( x ) for a Bits x of exactly N bits)
        return "Bits%d( %s )" % (w, _sized(ctx, w, depth - 1, nonconst=True))
    if sh == "loopcast":
        v, mx = R.choice(ctx.loopvars)
        if mx < (1 << w):
            return "Bits%d( %s )" % (w, v)
        return "s.%s" % ctx.inport(w)
    raise AssertionError(sh)


def _subcomp(ctx, w):
    """Instantiate a small sub-component whose output has width w; returns the expression reading it."""
    R = ctx.R
    ctx.subs += 1
    cls = ctx.fresh("Sub")
    kind = R.choice(["inv", "add", "reg", "passthru", "nest"]) if ctx.depth_budget > 0 else R.choice(["inv", "add", "reg"])
    _tok(ctx, "sub." + kind)
    body = {
        "inv": "    @update\n    def up():\n      s.out @= ~s.in_\n",
        "add": "    @update\n    def up():\n      s.out @= s.in_ + %d\n" % (lit(R, w) or 1),
        "reg": "    @update_ff\n    def up():\n      if s.reset:\n        s.out <<= %d\n      else:\n        s.out <<= s.in_\n" % lit(R, w),
        "passthru": "    s.out //= s.in_\n",
    }
    if kind == "nest":
        inner = ctx.fresh("Inner")
        ctx.globals_.append("class %s( Component ):\n  def construct( s ):\n    s.in_ = InPort( Bits%d )\n"
                            "    s.out = OutPort( Bits%d )\n    @update\n    def up():\n      s.out @= s.in_ ^ %d\n"
                            % (inner, w, w, lit(R, w)))
        ctx.globals_.append("class %s( Component ):\n  def construct( s ):\n    s.in_ = InPort( Bits%d )\n"
                            "    s.out = OutPort( Bits%d )\n    s.u = %s()\n    s.v = %s()\n    s.u.in_ //= s.in_\n"
                            "    s.v.in_ //= s.u.out\n    s.out //= s.v.out\n" % (cls, w, w, inner, inner))
    else:
        ctx.globals_.append("class %s( Component ):\n  def construct( s ):\n    s.in_ = InPort( Bits%d )\n"
                            "    s.out = OutPort( Bits%d )\n%s" % (cls, w, w, body[kind]))
    inst = ctx.fresh("u")
    ctx.decl.append("s.%s = %s()" % (inst, cls))
    ctx.decl.append("s.%s.in_ //= s.%s" % (inst, ctx.inport(w)))
    return "s.%s.out" % inst


def _emit(ctx, body_blocks, extra_decl=()):
    lines = [HEADER]
    lines += [g + "\n" for g in ctx.globals_]
    lines.append("class Top( Component ):\n  def construct( s ):\n")
    for d in list(ctx.decl) + list(extra_decl):
        lines.append("    " + d + "\n")
    for b in body_blocks:
        lines.append(b)
    return "".join(lines)


def _block(name, stmts, ff=False):
    out = ["    @update_ff\n" if ff else "    @update\n", "    def %s():\n" % name]
    for st in stmts:
        for ln in st.split("\n"):
            out.append("      " + ln + "\n")
    return "".join(out)


STMT_PLACES = ["else", "if", "elif", "for", "for-in-else", "if-in-for", "else-of-nested"]
STMT_TARGETS = ["tmp2-add", "tmp2-sub", "tmp3-and", "tmp3-sub"]


def fam_stmt(R, idx):
    """Statement shapes: ONE Python statement that the back ends expand to SEVERAL lines (an assignment with several
    targets) as the only statement of an if-body / elif-body / else-body / for-body, at every place x kind of target.
    A body emitted without begin ... end then keeps only its first line inside the branch / loop.
    (Added after an independent observation on the unchanged tree: `else: x = y = s.in_`.)"""
    ctx = Ctx(R)
    place = STMT_PLACES[idx % len(STMT_PLACES)]
    targ = STMT_TARGETS[(idx // len(STMT_PLACES)) % len(STMT_TARGETS)]
    w = R.choice([8, 5, 32])
    n = 3
    decl = ["s.a = InPort( Bits%d )" % w, "s.b = InPort( Bits%d )" % w, "s.c = InPort( Bits1 )", "s.d = InPort( Bits1 )",
            "s.o1 = OutPort( Bits%d )" % w, "s.o2 = OutPort( Bits%d )" % w, "s.o3 = OutPort( Bits%d )" % w,
            "s.v = [ OutPort( Bits%d ) for _ in range(%d) ]" % (w, n), "s.u = [ OutPort( Bits%d ) for _ in range(%d) ]" % (w, n)]
    k0, k1 = lit(R, w), lit(R, w)
    # the multi-target statement, the defaults before it and the uses after it
    B = lambda k: "Bits%d( %d )" % (w, k)  # noqa: E731
    if targ == "tmp2-add":
        pre, multi, post = ["x = y = " + B(k0)], "x = y = s.a + s.b", ["s.o1 @= x", "s.o2 @= y"]
    elif targ == "tmp2-sub":
        pre, multi, post = ["p = q = " + B(k1)], "p = q = s.a - s.b", ["s.o1 @= p", "s.o2 @= q + 1"]
    elif targ == "tmp3-and":
        pre, multi, post = ["x = " + B(k0), "y = " + B(k1), "z = " + B(k0 ^ k1)], "x = y = z = s.a & s.b", \
            ["s.o1 @= x ^ z", "s.o2 @= y + 1"]
    else:
        pre, multi, post = ["x = y = z = " + B(k1)], "x = y = z = s.b - s.a", ["s.o1 @= z", "s.o2 @= x + y"]
    other = "s.o3 @= s.b"         # a one-line statement for the other branch
    loopdef = ["for j in range(%d):\n  s.v[j] @= %d\n  s.u[j] @= %d" % (n, k0, k1)]
    if place == "else":
        body = "if s.c:\n  %s\nelse:\n  %s" % (other, multi)
    elif place == "if":
        body = "if s.c:\n  %s\nelse:\n  %s" % (multi, other)
    elif place == "elif":
        body = "if s.c:\n  %s\nelif s.d:\n  %s\nelse:\n  s.o3 @= s.a" % (other, multi)
    elif place == "for":
        body = "for i in range(%d):\n  %s" % (n, multi.replace("s.a", "( s.a + i )"))
    elif place == "for-in-else":
        body = "if s.c:\n  %s\nelse:\n  for i in range(%d):\n    %s" % (other, n, multi.replace("s.b", "( s.b ^ i )"))
    elif place == "if-in-for":
        body = "for i in range(%d):\n  if s.a[i]:\n    %s" % (n, multi.replace("s.b", "( s.b + i )"))
    else:
        body = "if s.c:\n  if s.d:\n    %s\n  else:\n    %s\nelse:\n  %s" % (other, multi, other)
    # `other` writes o3 before the uses do: keep the uses after the control statement
    stmts = loopdef + pre + ["s.o3 @= 0"] + [body] + post[:2]
    sigs = {"o1": "stmt(%s,%s)" % (place, targ), "o2": "stmt(%s,%s)" % (place, targ), "o3": "stmt-other"}
    return "stmt_%s_%s_w%d" % (place, targ, w), _emit(ctx, [_block("up", stmts)], decl), sigs


# --------------------------------------------------------------------------------------
# families
# --------------------------------------------------------------------------------------

def fam_ops(R, idx):
    """One width, several outputs, each one operator applied to two shaped operands."""
    w = WIDTHS[idx % len(WIDTHS)]
    ctx = Ctx(R)
    stmts, outs = [], []
    sigs = {}
    nout = 5
    for k in range(nout):
        o = "o%d" % k
        ctx.pre = []
        r = R.random()
        if r < 0.6:
            op = BINOPS[(idx // len(WIDTHS) + k) % len(BINOPS)]
            a = _sized(ctx, w, 1, nonconst=True)
            sa = ctx.sig
            if op == "%":
                b = "( %s | Bits%d( 1 ) )" % (_sized(ctx, w, 1), w)
            else:
                b = _sized(ctx, w, 1)
            e, ow = "%s %s %s" % (a, op, b), w
            sigs[o] = "bin%s(%s,%s)" % (op, sa, ctx.sig)
        elif r < 0.8:
            op = CMPOPS[(idx + k) % len(CMPOPS)]
            a = _sized(ctx, w, 1, nonconst=True)
            sa = ctx.sig
            ctx.sig = "intlit"
            b = _sized(ctx, w, 1) if R.random() < 0.7 else str(lit(R, w))
            e, ow = "%s %s %s" % (a, op, b), 1
            sigs[o] = "cmp%s(%s,%s)" % (op, sa, ctx.sig)
        else:
            e, ow = _sized(ctx, w, 2), w
            sigs[o] = ctx.sig
        outs.append("s.%s = OutPort( Bits%d )" % (o, ow))
        stmts += ctx.pre + ["s.%s @= %s" % (o, e)]
    blocks = []
    # split into two update blocks to exercise several processes
    cut = R.randrange(1, len(stmts))
    while cut < len(stmts) and not stmts[cut].startswith("s.o"):
        cut += 1
    # temporaries must stay in the block that uses them: cut only right after an output assignment
    first, second = stmts[:cut + 1], stmts[cut + 1:]
    blocks.append(_block("up_a", first))
    if second:
        blocks.append(_block("up_b", second))
    return "ops_w%d" % w, _emit(ctx, blocks, outs), sigs


UNIT_CONSTRUCTS = ["sext", "zext", "trunc", "red_and", "red_or", "red_xor", "inv", "cmpeq", "cmplt", "add", "sub", "mul",
                   "and", "shl", "shr", "ifcond", "ifarm", "cat", "dynidx", "slice_of"]
UNIT_OPERANDS = ["port", "slice", "field", "uarr", "sub", "tmp", "bin", "un", "ifexp", "cat", "ext", "lit", "freevar", "shiftlit"]


def fam_unit(R, idx):
    """One construct applied to every operand shape (one output per operand shape): small expressions,
    so that a mismatch names the construct and the operand shape it was applied to."""
    cons = UNIT_CONSTRUCTS[idx % len(UNIT_CONSTRUCTS)]
    w = WIDTHS[(idx // len(UNIT_CONSTRUCTS)) % len(WIDTHS)]
    if cons in ("sext", "zext") and w == 64:
        w = 8
    if cons == "trunc" and w == 1:
        w = 7
    ctx = Ctx(R)
    stmts, outs, sigs = [], [], {}
    k = 0
    for sh in UNIT_OPERANDS:
        if sh in ("lit", "freevar") and cons not in ("add", "sub", "mul", "and", "cmpeq", "cmplt", "cat", "ifarm"):
            continue
        if w == 1 and sh in ("ext", "cat"):
            continue
        ctx.pre = []
        const_ok = sh in ("lit", "freevar")
        x = _sized(ctx, w, 1, nonconst=not const_ok, force=sh)
        sx = ctx.sig
        ow = w
        if cons in ("sext", "zext"):
            ow = R.choice([v for v in WIDTHS + [16, 65] if v > w])
            e = "%s( %s, %d )" % (cons, x, ow)
        elif cons == "trunc":
            ow = R.choice([v for v in [1, 2, 3, 7, 8, 31, 32, 33] if v < w])
            e = "trunc( %s, %d )" % (x, ow)
        elif cons.startswith("red_"):
            ow = 1
            e = "reduce_%s( %s )" % (cons[4:], x)
        elif cons == "inv":
            e = "~%s" % x
        elif cons in ("cmpeq", "cmplt"):
            ow = 1
            e = "%s %s s.%s" % (x, "==" if cons == "cmpeq" else "<", ctx.inport(w))
        elif cons in ("add", "sub", "mul", "and"):
            op = {"add": "+", "sub": "-", "mul": "*", "and": "&"}[cons]
            if const_ok:
                e = "s.%s %s %s" % (ctx.inport(w), op, x)
            else:
                e = "%s %s s.%s" % (x, op, ctx.inport(w))
        elif cons in ("shl", "shr"):
            e = "s.%s %s %s" % (ctx.inport(w), "<<" if cons == "shl" else ">>", x)
        elif cons == "ifcond":
            c = x if w == 1 else "( %s != 0 )" % x
            e = "s.%s if %s else s.%s" % (ctx.inport(w), c, ctx.inport(w, reuse=0))
        elif cons == "ifarm":
            e = "s.%s if s.%s else %s" % (ctx.inport(w), ctx.inport(1), x)
        elif cons == "cat":
            ow = w + 3
            e = "concat( s.%s, %s )" % (ctx.inport(3), x)
        elif cons == "dynidx":
            n = 4
            a = ctx.fresh("a")
            ctx.decl.append("s.%s = [ InPort( Bits8 ) for _ in range(%d) ]" % (a, n))
            ow = 8
            if w == 2:
                e = "s.%s[ %s ]" % (a, x)
            else:
                sel = "trunc( %s, 2 )" % x if w > 2 else "zext( %s, 2 )" % x
                e = "s.%s[ %s ]" % (a, sel)
        elif cons == "slice_of":
            # a slice of a temporary holding the operand
            t = ctx.fresh("t")
            ctx.pre.append("%s = %s" % (t, x))
            lo = R.randrange(w)
            hi = R.randrange(lo + 1, w + 1)
            ow = hi - lo
            e = "%s[%d:%d]" % (t, lo, hi)
        o = "o%d" % k
        k += 1
        sigs[o] = "%s(%s)" % (cons, sx)
        outs.append("s.%s = OutPort( Bits%d )" % (o, ow))
        stmts += ctx.pre + ["s.%s @= %s" % (o, e)]
    return "unit_%s_w%d" % (cons, w), _emit(ctx, [_block("up", stmts)], outs), sigs


def fam_expr(R, idx):
    """Deeper random expressions."""
    w = R.choice(WIDTHS)
    ctx = Ctx(R)
    stmts, outs = [], []
    sigs = {}
    for k in range(3):
        ctx.pre = []
        e = _sized(ctx, w, 3)
        sigs["o%d" % k] = ctx.sig
        outs.append("s.o%d = OutPort( Bits%d )" % (k, w))
        stmts += ctx.pre + ["s.o%d @= %s" % (k, e)]
    return "expr_w%d" % w, _emit(ctx, [_block("up", stmts)], outs), sigs


def fam_ctrl(R, idx):
    """if / elif / else, for loops with every range form, temporaries, writes to bits and slices."""
    ctx = Ctx(R)
    w = R.choice([8, 32, 33, 64, 7])
    n = R.choice([2, 4, 8])
    outs = ["s.o = OutPort( Bits%d )" % w, "s.v = [ OutPort( Bits%d ) for _ in range(%d) ]" % (w, n),
            "s.bits = OutPort( Bits%d )" % n]
    form = idx % 6
    stmts = []
    ctx.pre = []
    parts = []
    c1 = _sized(ctx, 1, 1); parts.append(ctx.sig)
    c2 = _sized(ctx, 1, 1); parts.append(ctx.sig)
    e1 = _sized(ctx, w, 1); parts.append(ctx.sig)
    e2 = _sized(ctx, w, 1); parts.append(ctx.sig)
    e3 = _sized(ctx, w, 1); parts.append(ctx.sig)
    sigs = {"o": "if(%s)" % ",".join(parts)}
    stmts += ctx.pre
    if R.random() < 0.5:
        stmts.append("if %s:\n  s.o @= %s\nelif %s:\n  s.o @= %s\nelse:\n  s.o @= %s" % (c1, e1, c2, e2, e3))
    else:
        stmts.append("s.o @= %s\nif %s:\n  if %s:\n    s.o @= %s\n  else:\n    s.o @= %s" % (e3, c1, c2, e1, e2))
    a = ctx.fresh("a")
    ctx.decl.append("s.%s = [ InPort( Bits%d ) for _ in range(%d) ]" % (a, w, n))
    x = ctx.inport(n)
    if form == 0:
        rng_, mx, idxe = "range(%d)" % n, n - 1, "i"
    elif form == 1:
        rng_, mx, idxe = "range(1, %d)" % n, n - 1, "i"
    elif form == 2:
        rng_, mx, idxe = "range(0, %d, 2)" % n, n - 2, "i"
    elif form == 3:
        rng_, mx, idxe = "range(%d, 0, -2)" % (n - 1), n - 1, "i"
    elif form == 4:
        rng_, mx, idxe = "range(%d, 0, -1)" % (n - 1), n - 1, "i"
    else:
        rng_, mx, idxe = "range(%d)" % (n // 2), n // 2 - 1, "i + %d" % (n // 2)
    ctx.loopvars = [("i", mx)]
    ctx.pre = []
    le = _sized(ctx, w, 1)
    sigs["v"] = "for%d(%s)" % (form, ctx.sig)
    sigs["bits"] = "for%d(ifbit)" % form
    body = ["s.v[%s] @= s.%s[%s] + %s" % (idxe, a, idxe, le)]
    if R.random() < 0.6:
        body.append("s.bits[%s] @= s.%s[%s] ^ %s" % (idxe, x, idxe, _sized(ctx, 1, 0, allow_loop=False)))
        sigs["bits"] = "for%d(%s)" % (form, ctx.sig)
    else:
        body.append("if s.%s[%s]:\n  s.bits[%s] @= 1\nelse:\n  s.bits[%s] @= 0" % (x, idxe, idxe, idxe))
    pre = ctx.pre
    ctx.loopvars = []
    stmts.append("for j in range(%d):\n  s.v[j] @= %d\ns.bits @= 0" % (n, lit(R, w)))
    stmts.append("for i in %s:\n%s" % (rng_, "\n".join("  " + ln for st in pre + body for ln in st.split("\n"))))
    return "ctrl_f%d_w%d_n%d" % (form, w, n), _emit(ctx, [_block("up", stmts)], outs), sigs


def fam_loopidx(R, idx):
    """Loop-variable arithmetic in indices and slices (implicit widths)."""
    ctx = Ctx(R)
    kind = idx % 5
    if kind == 0:
        n, sw = R.choice([(2, 8), (4, 8), (4, 4), (8, 4), (3, 5)])
        W = n * sw
        decl = ["s.x = InPort( Bits%d )" % W, "s.y = OutPort( Bits%d )" % W]
        body = "for i in range(%d):\n  s.y[i*%d:i*%d+%d] @= s.x[%d-i*%d:%d-i*%d+%d]" % (
            n, sw, sw, sw, (n - 1) * sw, sw, (n - 1) * sw, sw, sw)
        name = "loopidx_rev_n%d_s%d" % (n, sw)
    elif kind == 1:
        n = R.choice([4, 8, 16])
        decl = ["s.x = InPort( Bits%d )" % (2 * n), "s.y = OutPort( Bits%d )" % n]
        body = "for i in range(%d):\n  s.y[i] @= s.x[2*i+1] ^ s.x[i*2]" % n
        name = "loopidx_evenodd_n%d" % n
    elif kind == 2:
        n = R.choice([4, 8])
        w = R.choice([8, 32, 33])
        decl = ["s.x = [ InPort( Bits%d ) for _ in range(%d) ]" % (w, n), "s.y = [ OutPort( Bits%d ) for _ in range(%d) ]" % (w, n)]
        body = "for i in range(%d):\n  s.y[i] @= s.x[%d-i] + i\n" % (n, n - 1)
        name = "loopidx_arr_n%d_w%d" % (n, w)
    elif kind == 3:
        n = R.choice([3, 4, 5])
        w = R.choice([8, 16, 32] if n < 5 else [16, 32])        # s.x[i+j] must stay in range
        decl = ["s.x = InPort( Bits%d )" % w, "s.y = OutPort( Bits%d )" % w]
        body = "s.y @= 0\nfor i in range(%d):\n  for j in range(%d):\n    if s.x[i+j]:\n      s.y @= s.y + ( i * %d + j )" % (n, n, n)
        name = "loopidx_nested_n%d_w%d" % (n, w)
    else:
        n = R.choice([4, 8])
        w = R.choice([8, 32])
        decl = ["s.x = InPort( Bits%d )" % w, "s.y = [ OutPort( Bits%d ) for _ in range(%d) ]" % (w, n)]
        body = "for i in range(%d):\n  s.y[i] @= ( s.x << i ) | ( s.x >> ( %d - i ) )" % (n, n)
        name = "loopidx_shift_n%d_w%d" % (n, w)
    return name, _emit(ctx, [_block("up", [body])], decl)


def fam_struct(R, idx):
    """Struct ports in and out, field reads and writes, nested structs, packed arrays in structs."""
    ctx = Ctx(R)
    w = R.choice([8, 32, 33, 7])
    kind = idx % 7
    g = ["@bitstruct\nclass In1:\n  a: Bits%d\n  b: Bits4\n" % w,
         "@bitstruct\nclass Pt:\n  x: Bits%d\n  y: Bits%d\n" % (w, w),
         "@bitstruct\nclass Mix:\n  hd: Bits3\n  pts: [ Pt ] * 2\n  arr: [ Bits%d ] * 3\n  tl: In1\n" % w]
    ctx.globals_ += g
    decl = ["s.m = InPort( Mix )", "s.p = InPort( Pt )", "s.q = InPort( In1 )", "s.sel = InPort( Bits1 )"]
    if kind == 0:
        decl += ["s.o = OutPort( Pt )", "s.o2 = OutPort( Bits%d )" % w]
        body = ["s.o @= Pt( s.m.pts[1].y, s.p.x + s.m.arr[2] )", "s.o2 @= s.m.tl.a ^ s.m.pts[0].x"]
    elif kind == 1:
        decl += ["s.o = OutPort( Mix )"]
        body = ["s.o @= s.m", "if s.sel:\n  s.o.pts[0].x @= s.p.y\n  s.o.tl.b @= s.q.b + 1\n  s.o.arr[1] @= s.q.a"]
    elif kind == 2:
        decl += ["s.o = OutPort( Pt )", "s.w = Wire( Pt )", "s.o3 = OutPort( Bits%d )" % (2 * w)]
        body = ["s.w @= s.m.pts[ s.sel ]", "s.o.x @= s.w.y", "s.o.y @= s.w.x & s.p.x", "s.o3 @= s.w"]
    elif kind == 5:
        # whole-struct traffic only: connection, assignment, register, mux
        decl += ["s.o = OutPort( Mix )", "s.o6 = OutPort( Mix )", "s.m2 = InPort( Mix )", "s.r = OutPort( Mix )",
                 "s.o7 = [ OutPort( Pt ) for _ in range(2) ]", "s.o //= s.m",
                 "s.ob = OutPort( mk_bits( %d ) )" % (8 * w + 7), "s.otl = OutPort( mk_bits( %d ) )" % (w + 4)]
        # (s.ob / s.otl: the packed value of a struct with nested structs and arrays, seen as plain bits)
        body = ["if s.sel:\n  s.o6 @= s.m\nelse:\n  s.o6 @= s.m2", "s.o7[0] @= s.p\ns.o7[1] @= s.m.pts[1]",
                "s.ob @= s.m2", "s.otl @= s.m.tl"]
        return ("struct_k%d_w%d" % (kind, w),
                _emit(ctx, [_block("up", body),
                            _block("upff", ["s.r <<= s.m2"], ff=True)], decl))
    elif kind == 6:
        # struct-typed constants: free variable, component attribute, constructor with literals, connected constant
        m = (1 << w) - 1
        ctx.globals_.append("KPT = Pt( %d, %d )\n" % (lit(R, w), lit(R, w)))
        decl += ["s.kk = Pt( %d, %d )" % (lit(R, w), lit(R, w)), "s.o = OutPort( Pt )", "s.o8 = OutPort( Pt )", "s.o9 = OutPort( In1 )",
                 "s.o9 //= In1( %d, %d )" % (lit(R, w), lit(R, 4)), "s.ox = OutPort( Bits%d )" % w]
        body = ["if s.sel:\n  s.o @= KPT\nelse:\n  s.o @= s.kk", "s.o8 @= Pt( %d, %d ) if s.p.x[0] else s.p" % (lit(R, w), m),
                "s.ox @= s.kk.y ^ s.p.x"]
    elif kind == 3:
        decl += ["s.o = [ OutPort( Pt ) for _ in range(2) ]", "s.o4 = OutPort( Bits%d )" % w]
        body = ["for i in range(2):\n  s.o[i] @= s.m.pts[1-i]", "t = s.m.tl\ns.o4 @= t.a + s.m.arr[0]"]
    else:
        decl += ["s.o = OutPort( In1 )", "s.o5 = OutPort( Bits3 )", "s.r = OutPort( Pt )"]
        body = ["s.o @= In1( s.q.a - s.p.x, s.m.tl.b )", "s.o5 @= s.m.hd", ]
        return ("struct_k%d_w%d" % (kind, w),
                _emit(ctx, [_block("up", body),
                            _block("upff", ["if s.reset:\n  s.r <<= Pt( 0, 1 )\nelse:\n  s.r <<= Pt( s.r.y, s.p.x )"], ff=True)], decl))
    return "struct_k%d_w%d" % (kind, w), _emit(ctx, [_block("up", body)], decl)


def fam_hier(R, idx):
    """Sub-components to depth 3, arrays of sub-components, interfaces and arrays of interfaces."""
    ctx = Ctx(R)
    w = R.choice([8, 32, 33])
    n = R.choice([2, 3, 4])
    kind = idx % 7
    if kind == 5:
        # several instances of ONE class whose update block reads per-instance constants through attributes of
        # the component (s.K, s.TAB[ s.SEL ]): every instance must be translated with ITS constants
        # (seeded change C03-C: constants memoised per AST node, which all instances of a class share)
        ctx.globals_.append(
            "class AddMask( Component ):\n  def construct( s, Type, offset, masks, sel ):\n    s.in_ = InPort( Type )\n"
            "    s.out = OutPort( Type )\n    s.OFFSET = Type( offset )\n    s.MASKS = [ Type( m ) for m in masks ]\n"
            "    s.SEL = sel\n    @update\n    def up():\n      s.out @= ( s.in_ + s.OFFSET ) & s.MASKS[ s.SEL ]\n")
        T = "Bits%d" % w
        decl = ["s.in_ = InPort( %s )" % T]
        for j in range(n):
            masks = [lit(R, w) | 1 for _ in range(3)]
            decl += ["s.o%d = OutPort( %s )" % (j, T), "s.m%d = AddMask( %s, %d, %r, %d )" % (j, T, lit(R, w), masks, (j + 1) % 3),
                     "s.m%d.in_ //= s.in_" % j, "s.o%d //= s.m%d.out" % (j, j)]
        return "hier_k5_w%d_n%d" % (w, n), _emit(ctx, [], decl)
    if kind == 6:
        # a bitstruct CONSTANT with a two-dimensional packed-array field: connected to a wire and read by index,
        # and as an attribute of the component read in an update block
        # (seeded change C03-D: outer dimensions of the array of a struct literal emitted in list order)
        d0, d1 = R.choice([(2, 4), (4, 2), (2, 2)])      # powers of two: every index value is in range
        ew = R.choice([4, 8])
        ctx.globals_.append("@bitstruct\nclass Coef:\n  gain: Bits4\n  tap: [ [ Bits%d ] * %d ] * %d\n" % (ew, d1, d0))
        vals = [[lit(R, ew) for _ in range(d1)] for _ in range(d0)]
        vals[0][0], vals[-1][-1] = 1, 2            # make sure the corners differ
        cst = "Coef( 9, [ %s ] )" % ", ".join("[ %s ]" % ", ".join("Bits%d( %d )" % (ew, v) for v in row) for row in vals)
        decl = ["s.i = InPort( Bits%d )" % clog2(d0), "s.j = InPort( Bits%d )" % clog2(d1), "s.sel = OutPort( Bits%d )" % ew,
                "s.gain = OutPort( Bits4 )", "s.corner = OutPort( Bits%d )" % ew, "s.whole = OutPort( Coef )",
                "s.cfg = Wire( Coef )", "s.cfg //= %s" % cst, "s.whole //= s.cfg"]
        blocks = [_block("up", ["s.sel @= s.cfg.tap[ s.i ][ s.j ]", "s.gain @= s.cfg.gain", "s.corner @= s.cfg.tap[%d][%d]" % (d0 - 1, d1 - 1)])]
        return "hier_k6_e%d_%dx%d" % (ew, d0, d1), _emit(ctx, blocks, decl)
    ctx.globals_.append(
        "class MsgIfc( Interface ):\n  def construct( s, Type ):\n    s.msg = InPort( Type )\n    s.val = InPort( Bits1 )\n"
        "    s.rdy = OutPort( Bits1 )\n")
    ctx.globals_.append(
        "class OutIfc( Interface ):\n  def construct( s, Type ):\n    s.msg = OutPort( Type )\n    s.val = OutPort( Bits1 )\n"
        "    s.rdy = InPort( Bits1 )\n")
    ctx.globals_.append(
        "class Leaf( Component ):\n  def construct( s, Type, k ):\n    s.in_ = InPort( Type )\n    s.out = OutPort( Type )\n"
        "    s.en = InPort( Bits1 )\n    s.acc = Wire( Type )\n    @update_ff\n    def up_acc():\n      if s.reset:\n"
        "        s.acc <<= 0\n      elif s.en:\n        s.acc <<= s.acc + s.in_\n    @update\n    def up_out():\n"
        "      s.out @= s.acc ^ k\n")
    ctx.globals_.append(
        "class Mid( Component ):\n  def construct( s, Type, n ):\n    s.recv = MsgIfc( Type )\n    s.send = OutIfc( Type )\n"
        "    s.leaves = [ Leaf( Type, i + 1 ) for i in range(n) ]\n    for i in range(n):\n      s.leaves[i].in_ //= s.recv.msg\n"
        "      s.leaves[i].en //= s.recv.val\n    s.recv.rdy //= s.send.rdy\n    @update\n    def up_send():\n"
        "      s.send.msg @= 0\n      for i in range(n):\n        s.send.msg @= s.send.msg + s.leaves[i].out\n"
        "      s.send.val @= s.recv.val & s.send.rdy\n")
    T = "Bits%d" % w
    if kind == 0:
        decl = ["s.recv = MsgIfc( %s )" % T, "s.send = OutIfc( %s )" % T, "s.mid = Mid( %s, %d )" % (T, n),
                "s.mid.recv //= s.recv", "s.mid.send //= s.send"]
        blocks = []
    elif kind == 1:
        decl = ["s.recv = [ MsgIfc( %s ) for _ in range(%d) ]" % (T, n), "s.send = [ OutIfc( %s ) for _ in range(%d) ]" % (T, n),
                "s.mids = [ Mid( %s, 2 ) for _ in range(%d) ]" % (T, n),
                "for i in range(%d):\n      s.mids[i].recv //= s.recv[i]\n      s.mids[i].send //= s.send[%d - i]" % (n, n - 1)]
        blocks = []
    elif kind == 2:
        decl = ["s.in_ = InPort( %s )" % T, "s.en = InPort( Bits1 )", "s.sel = InPort( Bits%d )" % clog2(4),
                "s.out = OutPort( %s )" % T, "s.ls = [ Leaf( %s, 3 * i ) for i in range(4) ]" % T,
                "for i in range(4):\n      s.ls[i].en //= s.en"]
        blocks = [_block("up_in", ["for i in range(4):\n  s.ls[i].in_ @= s.in_ + i"]),
                  _block("up_out", ["s.out @= s.ls[ s.sel ].out"])]
    elif kind == 3:
        hw = w // 2
        decl = ["s.in_ = InPort( %s )" % T, "s.out = OutPort( %s )" % T, "s.lo = Leaf( Bits%d, 1 )" % hw,
                "s.hi = Leaf( Bits%d, 2 )" % (w - hw), "s.lo.in_ //= s.in_[0:%d]" % hw, "s.hi.in_ //= s.in_[%d:%d]" % (hw, w),
                "s.lo.en //= 1", "s.hi.en //= s.in_[0]", "s.out[0:%d] //= s.lo.out" % hw, "s.out[%d:%d] //= s.hi.out" % (hw, w)]
        blocks = []
    else:
        decl = ["s.recv = MsgIfc( %s )" % T, "s.send = OutIfc( %s )" % T, "s.a = Mid( %s, 2 )" % T, "s.b = Mid( %s, %d )" % (T, n),
                "s.a.recv //= s.recv", "s.b.recv.msg //= s.a.send.msg", "s.b.recv.val //= s.a.send.val",
                "s.a.send.rdy //= s.b.recv.rdy", "s.b.send //= s.send",
                "s.dbg = OutPort( %s )" % T, "s.dbg //= lambda: s.a.send.msg & s.b.send.msg"]
        blocks = []
    return "hier_k%d_w%d_n%d" % (kind, w, n), _emit(ctx, blocks, decl)


def fam_seq(R, idx):
    """Sequential logic: counters, shift registers, register arrays, temporaries in update_ff."""
    ctx = Ctx(R)
    w = R.choice([1, 8, 32, 33, 64])
    n = R.choice([2, 4])
    kind = idx % 4
    sigs = {}
    decl = ["s.d = InPort( Bits%d )" % w, "s.en = InPort( Bits1 )", "s.q = OutPort( Bits%d )" % w]
    ctx.in_ports = {w: ["d"], 1: ["en"]}
    if kind == 0:
        ctx.pre = []
        e = _sized(ctx, w, 2)
        sigs = {"q": "ff(%s)" % ctx.sig}
        body = ctx.pre + ["if s.reset:\n  s.q <<= %d\nelif s.en:\n  s.q <<= %s" % (lit(R, w), e)]
        blocks = [_block("upff", body, ff=True)]
    elif kind == 1:
        decl += ["s.regs = [ Wire( Bits%d ) for _ in range(%d) ]" % (w, n)]
        body = ["if s.reset:\n  for i in range(%d):\n    s.regs[i] <<= 0\nelif s.en:\n  s.regs[0] <<= s.d\n  for i in range(1, %d):\n    s.regs[i] <<= s.regs[i-1]" % (n, n)]
        blocks = [_block("upff", body, ff=True), _block("up", ["s.q @= s.regs[%d]" % (n - 1)])]
    elif kind == 2:
        decl += ["s.cnt = Wire( Bits%d )" % w, "s.nxt = Wire( Bits%d )" % w]
        blocks = [_block("up_nxt", ["s.nxt @= s.cnt + 1 if s.en else s.cnt"]),
                  _block("upff", ["nv = s.nxt ^ s.d\nif s.reset:\n  s.cnt <<= 0\nelse:\n  s.cnt <<= nv"], ff=True),
                  _block("up_q", ["s.q @= s.cnt"])]
    else:
        decl += ["s.a = Wire( Bits%d )" % w, "s.b = Wire( Bits%d )" % w]
        blocks = [_block("ff_a", ["s.a <<= s.b + s.d"], ff=True), _block("ff_b", ["s.b <<= s.a"], ff=True),
                  _block("up_q", ["s.q @= s.a ^ s.b"])]
    ctx.decl[0:0] = decl        # s.d / s.en are used by what the expression generator declares
    return "seq_k%d_w%d_n%d" % (kind, w, n), _emit(ctx, blocks, []), sigs


def fam_misc(R, idx):
    """Constants: lists of constants indexed statically and dynamically, lambdas, slices of connections,
    sign extension of slices and bits, writes through dynamic indices."""
    ctx = Ctx(R)
    w = R.choice([8, 32, 33])
    kind = idx % 7
    if kind == 6:
        # sign / zero extension of an indexed part-select (variable base, constant width): the sign bit is
        # bit base + width - 1 of the sliced signal
        W = R.choice([16, 32])          # the index must have clog2(W) bits; it is masked so that base + width <= W
        k = R.choice([2, 4, 5])
        m = W // 2 - 1
        decl = ["s.a = InPort( Bits%d )" % W, "s.i = InPort( Bits%d )" % clog2(W), "s.o = OutPort( Bits%d )" % (k + 4), "s.o2 = OutPort( Bits%d )" % (k + 4),
                "s.o3 = OutPort( Bits%d )" % k, "s.b = Wire( Bits%d )" % clog2(W)]
        blocks = [_block("up_b", ["s.b @= s.i & %d" % m]),
                  _block("up", ["s.o @= sext( s.a[ s.b : s.b + %d ], %d )" % (k, k + 4), "s.o2 @= zext( s.a[ s.b : s.b + %d ], %d )" % (k, k + 4),
                                "s.o3 @= s.a[ s.b : s.b + %d ]" % k])]
        return "misc_k6_w%d_k%d" % (W, k), _emit(ctx, blocks, decl)
    if kind == 0:
        decl = ["s.sel = InPort( Bits2 )", "s.o = OutPort( Bits%d )" % w, "s.o2 = OutPort( Bits%d )" % w,
                "s.tab = [ Bits%d( %d ), Bits%d( %d ), Bits%d( %d ), Bits%d( %d ) ]" % (w, lit(R, w), w, lit(R, w), w, lit(R, w), w, lit(R, w))]
        blocks = [_block("up", ["s.o @= s.tab[2] ^ zext( s.sel, %d )" % w, "s.o2 @= s.tab[1]"])]
    elif kind == 1:
        decl = ["s.a = InPort( Bits%d )" % w, "s.b = InPort( Bits%d )" % w, "s.o = OutPort( Bits%d )" % w, "s.o2 = OutPort( Bits1 )",
                "s.o //= lambda: ( s.a + s.b ) if s.a[0] else ( s.a - s.b )", "s.o2 //= lambda: s.a < s.b"]
        blocks = []
    elif kind == 2:
        lo = R.randrange(w - 2)
        hi = R.randrange(lo + 1, w)
        decl = ["s.a = InPort( Bits%d )" % w, "s.o = OutPort( Bits64 )", "s.o2 = OutPort( Bits64 )", "s.o3 = OutPort( Bits%d )" % (w + 1)]
        blocks = [_block("up", ["s.o @= sext( s.a[%d:%d], 64 )" % (lo, hi + 1), "s.o2 @= sext( s.a[%d], 64 )" % lo,
                                "s.o3 @= sext( s.a, %d ) + zext( s.a, %d )" % (w + 1, w + 1)])]
    elif kind == 3:
        n = R.choice([2, 4, 8])
        decl = ["s.a = InPort( Bits%d )" % w, "s.sel = InPort( Bits%d )" % clog2(n), "s.o = [ OutPort( Bits%d ) for _ in range(%d) ]" % (w, n),
                "s.bsel = InPort( Bits%d )" % clog2(8), "s.ob = OutPort( Bits8 )"]
        blocks = [_block("up", ["for i in range(%d):\n  s.o[i] @= 0" % n, "s.o[ s.sel ] @= s.a", "s.ob @= 0", "s.ob[ s.bsel ] @= s.a[0]"])]
    elif kind == 4:
        decl = ["s.a = InPort( Bits%d )" % w, "s.o = OutPort( Bits%d )" % w, "s.o2 = OutPort( Bits%d )" % w, "s.w1 = Wire( Bits%d )" % w,
                "s.w1 //= s.a", "s.o //= s.w1", "s.o2 //= %d" % lit(R, w)]
        blocks = []
    else:
        decl = ["s.a = InPort( Bits%d )" % w, "s.b = InPort( Bits%d )" % w, "s.o = OutPort( Bits%d )" % w, "s.o1 = OutPort( Bits1 )"]
        k1, k2 = lit(R, w), lit(R, w)
        blocks = [_block("up", ["s.o @= s.a * %d + ( s.b & %d )" % (k1, k2), "s.o1 @= ( s.a == %d ) | ( %d < s.b )" % (k1, k2)])]
    return "misc_k%d_w%d" % (kind, w), _emit(ctx, blocks, decl)



# --------------------------------------------------------------------------------------
# n-dimensional array-like constructs (family "nd") and loop-variable uses (family "lv")
#
# The back ends have separate code for one dimension and for n dimensions of nearly every array-like
# construct, and for loop variables in index / operand / width-preserving positions.  These two families
# enumerate the grid  construct x dimensionality x access mode  (resp. range form x use)  systematically;
# every element gets its own function (distinct constant per element, flat <-> n-D index maps), so that a
# transposition, a wrong stride or a truncated loop variable changes an output.
# --------------------------------------------------------------------------------------

ND_CONSTRUCTS = ["port", "wire", "pfield", "pfwire", "pftmp", "sfield", "ifc", "ifcnest", "ifcport", "comp", "comphet",
                 "compifc", "compport", "ffwire", "constarr", "sport"]
ND_DIMS = {1: [(3,), (4,)], 2: [(2, 3), (3, 2)], 3: [(2, 3, 2), (3, 2, 2), (2, 2, 3)]}


def _prod(ds):
    n = 1
    for d in ds:
        n *= d
    return n


def _elems(dims):
    import itertools
    return list(itertools.product(*[range(d) for d in dims]))


def _flat(dims, ix):
    f = 0
    for d, i in zip(dims, ix):
        f = f * d + i
    return f


def _flat_expr(dims, names):
    """row-major flat index of the loop variables `names` as source text: i*6 + j*2 + k"""
    terms = []
    for k, n in enumerate(names):
        st = _prod(dims[k + 1:])
        terms.append(n if st == 1 else "%s*%d" % (n, st))
    return " + ".join(terms)


def _nest(dims, n=None):
    """a (nested) list comprehension building `n`-dimensional lists: ('[ [ ', ' for _ in range(3) ] for _ in range(2) ]')"""
    pre = "[ " * len(dims)
    post = "".join(" for _ in range(%d) ]" % d for d in reversed(dims))
    return pre, post


def _sub(ix):
    return "".join("[%s]" % i for i in ix)


class _NDBase:
    internal = False        # True: the written instances are observed by reading the same instance back
    readable = True         # has an input side
    writable = True         # has an output side
    modes = "clvn"          # access modes: constant / loop-variable / signal index in update blocks, connect
    connect_fn = False      # connect( a, b ) instead of a //= b
    ff = False              # written in update_ff blocks

    def __init__(s, ctx, dims, w):
        s.ctx, s.dims, s.w, s.N = ctx, dims, w, _prod(dims)

    def pre_rd(s, name):    # statements at the start of a block reading instance `name`
        return []

    def post_wr(s, name, mode):   # statements at the end of a block writing instance `name`
        return []

    def extra(s):           # (decl lines, blocks, sigs): whole-value traffic etc.
        return [], [], {}

    def wr_stmt(s, name, ix, rhs):      # an update-block assignment of `rhs` (Bits<w>) to element ix
        return "%s @= %s" % (s.wr(name, ix), rhs)


class _NDPort(_NDBase):
    def _arr(s, name, kind):
        pre, post = _nest(s.dims)
        return ["s.%s = %s%s( Bits%d )%s" % (name, pre, kind, s.w, post)]

    def decl_in(s, name):
        return s._arr(name, "InPort")

    def decl_out(s, name):
        return s._arr(name, "OutPort")

    def rd(s, name, ix):
        return "s.%s%s" % (name, _sub(ix))

    wr = rd


class _NDSPort(_NDPort):
    """array of struct-typed ports: fields read one by one, elements written as whole structs (update blocks)
    and by field (connect statements)"""

    def __init__(s, ctx, dims, w):
        _NDBase.__init__(s, ctx, dims, w)
        ctx.globals_.append("@bitstruct\nclass NPt:\n  x: Bits%d\n  y: Bits3\n" % w)

    def _arr(s, name, kind):
        pre, post = _nest(s.dims)
        return ["s.%s = %s%s( NPt )%s" % (name, pre, kind, post)]

    def rd(s, name, ix):
        return "s.%s%s.x" % (name, _sub(ix))

    wr = rd

    def wr_stmt(s, name, ix, rhs):
        return "s.%s%s @= NPt( %s, s.fi[0][2:5] )" % (name, _sub(ix), rhs)

    def post_wr(s, name, mode):
        if mode == "n":
            return ["s.%s%s.y //= s.fi[%d][2:5]" % (name, _sub(ix), _flat(s.dims, ix)) for ix in _elems(s.dims)]
        return []


class _NDWire(_NDPort):
    internal = True

    def decl_int(s, name):
        return s._arr(name, "Wire")


class _NDFFWire(_NDWire):
    """array of registers: written in update_ff blocks, read combinationally"""
    ff = True
    modes = "clv"


class _NDPField(_NDBase):
    """packed array of Bits inside a struct (field `arr` between two fields of odd widths)"""
    elem = None

    def __init__(s, ctx, dims, w):
        _NDBase.__init__(s, ctx, dims, w)
        s.sname = "NS%d" % len(dims)
        et = "Bits%d" % w
        s.ew = w
        if s.elem == "struct":
            ctx.globals_.append("@bitstruct\nclass NPt:\n  x: Bits%d\n  y: Bits3\n" % w)
            et = "NPt"
            s.ew = w + 3
        ft = "[ " * len(dims) + et + "".join(" ] * %d" % d for d in reversed(dims))
        ctx.globals_.append("@bitstruct\nclass %s:\n  hd: Bits3\n  arr: %s\n  tl: Bits5\n" % (s.sname, ft))
        s.nbits = 8 + s.ew * s.N

    def decl_in(s, name):
        return ["s.%s = InPort( %s )" % (name, s.sname)]

    def decl_out(s, name):
        return ["s.%s = OutPort( %s )" % (name, s.sname)]

    def rd(s, name, ix):
        return "s.%s.arr%s%s" % (name, _sub(ix), ".x" if s.elem == "struct" else "")

    wr = rd

    def post_wr(s, name, mode):
        if mode == "n":
            return ["s.%s.hd //= s.fi[0][0:3]" % name, "s.%s.tl //= s.fi[%d][1:6]" % (name, s.N - 1)] + \
                   (["s.%s.arr%s.y //= s.fi[%d][2:5]" % (name, _sub(ix), _flat(s.dims, ix)) for ix in _elems(s.dims)]
                    if s.elem == "struct" else [])
        out = ["s.%s.hd @= s.fi[0][0:3]" % name, "s.%s.tl @= s.fi[%d][1:6]" % (name, s.N - 1)]
        if s.elem == "struct":
            out += ["s.%s.arr%s.y @= s.fi[%d][2:5]" % (name, _sub(ix), _flat(s.dims, ix)) for ix in _elems(s.dims)]
        return out

    def extra(s):
        # whole-struct traffic: struct -> bits, struct -> struct (update block and connect)
        decl = ["s.xb = OutPort( mk_bits( %d ) )" % s.nbits, "s.xs = OutPort( %s )" % s.sname, "s.xn = OutPort( %s )" % s.sname,
                "s.xn //= s.a"]
        blocks = [_block("up_whole", ["s.xb @= s.a", "s.xs @= s.a"])]
        t = "%s.d%d.whole" % (s.kind, len(s.dims))
        return decl, blocks, {"xb": t + ".bits", "xs": t + ".upblk", "xn": t + ".connect"}


class _NDSField(_NDPField):
    """packed array of structs inside a struct: s.a.arr[i][j].x"""
    elem = "struct"
    connect_fn = True       # (s.o.arr[0].x //= ... is not accepted by the DSL: attribute assignment on a signal slice)


class _NDPFWire(_NDPField):
    """struct wire: written by field / read by field, and written as a whole / read by field"""
    internal = True

    def decl_int(s, name):
        return ["s.%s = Wire( %s )" % (name, s.sname)]

    def post_wr(s, name, mode):
        return []

    def extra(s):
        # a struct wire written as a whole (from an input port) and read by field; written by field, read whole
        pre, post = _nest((s.N,))
        decl = ["s.a = InPort( %s )" % s.sname, "s.ww = Wire( %s )" % s.sname, "s.yf = %sOutPort( Bits%d )%s" % (pre, s.w, post),
                "s.yb = OutPort( mk_bits( %d ) )" % s.nbits, "s.wf = Wire( %s )" % s.sname]
        b1 = ["s.ww @= s.a"] + ["s.yf[%d] @= s.ww.arr%s + %d" % (_flat(s.dims, ix), _sub(ix), _flat(s.dims, ix) + 1)
                                for ix in _elems(s.dims)]
        b2 = ["s.wf.hd @= s.fi[0][0:3]", "s.wf.tl @= s.fi[%d][1:6]" % (s.N - 1)] + \
             ["s.wf.arr%s @= s.fi[%d]" % (_sub(ix), _flat(s.dims, ix)) for ix in _elems(s.dims)]
        t = "%s.d%d.whole" % (s.kind, len(s.dims))
        return decl, [_block("up_ww", b1), _block("up_wf", b2), _block("up_yb", ["s.yb @= s.wf"])], \
            {"yf": t + ".wr+field.rd", "yb": "%s.d%d.field.wr+whole.rd" % (s.kind, len(s.dims))}


class _NDPFTmp(_NDPField):
    """struct-typed temporary: t = s.a; t.arr[i][j]"""
    writable = False
    modes = "clv"

    def pre_rd(s, name):
        return ["t = s.%s" % name]

    def rd(s, name, ix):
        return "t.arr%s" % _sub(ix)

    def extra(s):
        return [], [], {}


class _NDIfc(_NDBase):
    def __init__(s, ctx, dims, w):
        _NDBase.__init__(s, ctx, dims, w)
        ctx.globals_.append("class NInIfc( Interface ):\n  def construct( s ):\n    s.msg = InPort( Bits%d )\n"
                            "    s.val = InPort( Bits1 )\n" % w)
        ctx.globals_.append("class NOutIfc( Interface ):\n  def construct( s ):\n    s.msg = OutPort( Bits%d )\n"
                            "    s.val = OutPort( Bits1 )\n" % w)

    def _arr(s, name, cls):
        pre, post = _nest(s.dims)
        return ["s.%s = %s%s()%s" % (name, pre, cls, post)]

    def decl_in(s, name):
        return s._arr(name, "NInIfc")

    def decl_out(s, name):
        return s._arr(name, "NOutIfc")

    def rd(s, name, ix):
        return "s.%s%s.msg" % (name, _sub(ix))

    wr = rd

    def post_wr(s, name, mode):
        es = _elems(s.dims)
        if mode == "n":
            return ["s.%s%s.val //= s.fi[%d][%d]" % (name, _sub(ix), _flat(s.dims, ix), _flat(s.dims, ix) % 3) for ix in es]
        return ["s.%s%s.val @= s.fi[%d][%d]" % (name, _sub(ix), _flat(s.dims, ix), _flat(s.dims, ix) % 3) for ix in es]


class _NDIfcNest(_NDBase):
    """an array of interfaces inside (an array of) interfaces: s.a[i].inner[j].msg"""
    member = "inner"

    def __init__(s, ctx, dims, w):
        _NDBase.__init__(s, ctx, dims, w)
        s.odims, s.idim = dims[:-1], dims[-1]
        for d in ("In", "Out"):
            ctx.globals_.append("class NInner%s( Interface ):\n  def construct( s ):\n    s.msg = %sPort( Bits%d )\n" % (d, d, w))
            ctx.globals_.append("class NOuter%s( Interface ):\n  def construct( s ):\n    s.tag = %sPort( Bits2 )\n"
                                "    s.inner = [ NInner%s() for _ in range(%d) ]\n" % (d, d, d, s.idim))

    def _arr(s, name, cls):
        pre, post = _nest(s.odims)
        return ["s.%s = %s%s()%s" % (name, pre, cls, post)]

    def decl_in(s, name):
        return s._arr(name, "NOuterIn")

    def decl_out(s, name):
        return s._arr(name, "NOuterOut")

    def rd(s, name, ix):
        return "s.%s%s.inner[%s].msg" % (name, _sub(ix[:-1]), ix[-1])

    wr = rd

    def post_wr(s, name, mode):
        op = "//=" if mode == "n" else "@="
        return ["s.%s%s.tag %s s.fi[%d][1:3]" % (name, _sub(ix), op, _flat(s.odims, ix) % s.N) for ix in _elems(s.odims)]


class _NDIfcPort(_NDIfcNest):
    """an array of ports inside (an array of) interfaces: s.a[i].p[j]"""

    def __init__(s, ctx, dims, w):
        _NDBase.__init__(s, ctx, dims, w)
        s.odims, s.idim = dims[:-1], dims[-1]
        for d in ("In", "Out"):
            ctx.globals_.append("class NOuter%s( Interface ):\n  def construct( s ):\n    s.tag = %sPort( Bits2 )\n"
                                "    s.p = [ %sPort( Bits%d ) for _ in range(%d) ]\n" % (d, d, d, w, s.idim))

    def rd(s, name, ix):
        return "s.%s%s.p[%s]" % (name, _sub(ix[:-1]), ix[-1])

    wr = rd


class _NDComp(_NDBase):
    """array of sub-components: the parent writes the input ports and reads the output ports of the elements"""
    internal = True
    het = False

    def __init__(s, ctx, dims, w):
        _NDBase.__init__(s, ctx, dims, w)
        ctx.globals_.append("class NSub( Component ):\n  def construct( s, k ):\n    s.in_ = InPort( Bits%d )\n"
                            "    s.out = OutPort( Bits%d )\n    @update\n    def up():\n      s.out @= s.in_ + k\n" % (w, w))

    def decl_int(s, name):
        if s.het:
            def build(ix, dims):
                if not dims:
                    return "NSub( %d )" % (_flat(s.dims, ix) * 2 + 1)
                return "[ " + ", ".join(build(ix + (i,), dims[1:]) for i in range(dims[0])) + " ]"
            return ["s.%s = %s" % (name, build((), s.dims))]
        pre, post = _nest(s.dims)
        return ["s.%s = %sNSub( 5 )%s" % (name, pre, post)]

    def rd(s, name, ix):
        return "s.%s%s.out" % (name, _sub(ix))

    def wr(s, name, ix):
        return "s.%s%s.in_" % (name, _sub(ix))


class _NDCompHet(_NDComp):
    het = True


class _NDCompIfc(_NDBase):
    """array of sub-components with arrays of interfaces: s.c[i].ii[j].msg"""
    internal = True

    def __init__(s, ctx, dims, w):
        _NDBase.__init__(s, ctx, dims, w)
        s.odims, s.idim = dims[:-1], dims[-1]
        ctx.globals_.append("class NInIfc( Interface ):\n  def construct( s ):\n    s.msg = InPort( Bits%d )\n" % w)
        ctx.globals_.append("class NOutIfc( Interface ):\n  def construct( s ):\n    s.msg = OutPort( Bits%d )\n" % w)
        ctx.globals_.append("class NSubI( Component ):\n  def construct( s ):\n    s.ii = [ NInIfc() for _ in range(%d) ]\n"
                            "    s.oi = [ NOutIfc() for _ in range(%d) ]\n    @update\n    def up():\n"
                            "      for j in range(%d):\n        s.oi[j].msg @= s.ii[j].msg + ( j + 1 )\n"
                            % (s.idim, s.idim, s.idim))

    def decl_int(s, name):
        pre, post = _nest(s.odims)
        return ["s.%s = %sNSubI()%s" % (name, pre, post)]

    def rd(s, name, ix):
        return "s.%s%s.oi[%s].msg" % (name, _sub(ix[:-1]), ix[-1])

    def wr(s, name, ix):
        return "s.%s%s.ii[%s].msg" % (name, _sub(ix[:-1]), ix[-1])


class _NDCompPort(_NDCompIfc):
    """array of sub-components with arrays of ports: s.c[i].in_[j]"""

    def __init__(s, ctx, dims, w):
        _NDBase.__init__(s, ctx, dims, w)
        s.odims, s.idim = dims[:-1], dims[-1]
        ctx.globals_.append("class NSubI( Component ):\n  def construct( s ):\n    s.in_ = [ InPort( Bits%d ) for _ in range(%d) ]\n"
                            "    s.out = [ OutPort( Bits%d ) for _ in range(%d) ]\n    @update\n    def up():\n"
                            "      for j in range(%d):\n        s.out[j] @= s.in_[j] + ( j + 1 )\n"
                            % (w, s.idim, w, s.idim, s.idim))

    def rd(s, name, ix):
        return "s.%s%s.out[%s]" % (name, _sub(ix[:-1]), ix[-1])

    def wr(s, name, ix):
        return "s.%s%s.in_[%s]" % (name, _sub(ix[:-1]), ix[-1])


class _NDConstArr(_NDBase):
    """n-dimensional list of constants (the back ends accept constant indices only)"""
    writable = False
    modes = "cn"

    def decl_in(s, name):
        def build(ix, dims):
            if not dims:
                return "Bits%d( %d )" % (s.w, (_flat(s.dims, ix) * 37 + 11) & ((1 << s.w) - 1))
            return "[ " + ", ".join(build(ix + (i,), dims[1:]) for i in range(dims[0])) + " ]"
        return ["s.%s = %s" % (name, build((), s.dims))]

    def rd(s, name, ix):
        return "s.%s%s" % (name, _sub(ix))


_ND_CLS = {"sport": _NDSPort, "port": _NDPort, "wire": _NDWire, "pfield": _NDPField, "pfwire": _NDPFWire, "pftmp": _NDPFTmp, "sfield": _NDSField,
           "ifc": _NDIfc, "ifcnest": _NDIfcNest, "ifcport": _NDIfcPort, "comp": _NDComp, "comphet": _NDCompHet,
           "compifc": _NDCompIfc, "compport": _NDCompPort, "ffwire": _NDFFWire, "constarr": _NDConstArr}
_LOOPV = ["i", "j", "k"]
# access modes as they appear in violation keys (update-block modes share the prefix "ub-")
MODE = {"c": "ub-const", "l": "ub-loop", "v": "ub-var", "n": "connect"}


def nd_design(R, cons, nd):
    """One design of the grid: construct `cons` in `nd` dimensions, read and written with constant indices (c),
    loop-variable indices (l), signal indices (v) in update blocks and with constant indices in connect
    statements (n).  Flat one-dimensional port arrays (s.fi inputs, s.r* outputs) are the other side of
    every access, so the n-dimensional construct is the only place where the index order matters."""
    ctx = Ctx(R)
    dims = R.choice(ND_DIMS[nd])
    w = R.choice([8, 12])
    C = _ND_CLS[cons](ctx, dims, w)
    C.kind = cons
    N = C.N
    M = (1 << w) - 1
    es = _elems(dims)
    lv = _LOOPV[:nd]
    tag = "%s.d%d" % (cons, nd)
    pre1, post1 = _nest((N,))
    decl = ["s.fi = %sInPort( Bits%d )%s" % (pre1, w, post1)]
    decl += ["s.s%d = InPort( Bits%d )" % (k, clog2(d)) for k, d in enumerate(dims)]
    sel = ["s.s%d" % k for k in range(nd)]
    guard = " & ".join("( s.s%d < %d )" % (k, d) for k, d in enumerate(dims) if d & (d - 1))
    blocks, sigs = [], {}

    def cst(f):
        return (f * 29 + 7) & M

    def loops(body):
        out = []
        for k, v in enumerate(lv):
            out.append("  " * k + "for %s in range(%d):" % (v, dims[k]))
        return "\n".join(out + ["  " * nd + b for b in body])

    def conn(a, b):
        return "connect( %s, %s )" % (a, b) if C.connect_fn else "%s //= %s" % (a, b)

    def guarded(stmt, other):
        if not guard:
            return [stmt]
        return ["if %s:\n  %s%s" % (guard, stmt, "\nelse:\n  %s" % other if other else "")]

    def reader(inst, mode, sig):
        o = "r" + mode
        fe = _flat_expr(dims, lv)
        if mode == "v":
            decl.append("s.%s = OutPort( Bits%d )" % (o, w))
        else:
            decl.append("s.%s = %sOutPort( Bits%d )%s" % (o, pre1, w, post1))
        sigs[o] = sig
        if mode == "c":
            blocks.append(_block("up_rc", C.pre_rd(inst) + ["s.rc[%d] @= %s + %d" % (_flat(dims, ix), C.rd(inst, ix), cst(_flat(dims, ix)))
                                                            for ix in es]))
        elif mode == "l":
            blocks.append(_block("up_rl", C.pre_rd(inst) + [loops(["s.rl[%s] @= %s + ( %s )" % (fe, C.rd(inst, lv), fe)])]))
        elif mode == "v":
            blocks.append(_block("up_rv", C.pre_rd(inst) + guarded("s.rv @= %s" % C.rd(inst, sel), "s.rv @= %d" % cst(N))))
        else:
            for ix in es:
                decl.append(conn("s.rn[%d]" % _flat(dims, ix), C.rd(inst, ix)))

    def wblock(name, stmts):
        if C.ff:
            stmts = [st.replace(" @= ", " <<= ") for st in stmts]
        blocks.append(_block(name, stmts, ff=C.ff))

    def writer(inst, mode):
        fe = _flat_expr(dims, lv)
        if mode == "c":
            wblock("up_wc", [C.wr_stmt(inst, ix, "s.fi[%d] + %d" % (_flat(dims, ix), cst(_flat(dims, ix) + 3))) for ix in es]
                   + C.post_wr(inst, mode))
        elif mode == "l":
            wblock("up_wl", [loops([C.wr_stmt(inst, lv, "s.fi[%s] + ( %s )" % (fe, fe))])] + C.post_wr(inst, mode))
        elif mode == "v":
            wblock("up_wv", [C.wr_stmt(inst, ix, "Bits%d( %d )" % (w, cst(_flat(dims, ix) + 5))) for ix in es]
                   + guarded(C.wr_stmt(inst, sel, "s.fi[0]"), "") + C.post_wr(inst, mode))
        else:
            for ix in es:
                decl.append(conn(C.wr(inst, ix), "s.fi[%d]" % _flat(dims, ix)))
            decl.extend(conn(*x.split(" //= ")) for x in C.post_wr(inst, mode))

    modes = C.modes
    if C.internal:
        for m, rm in zip("clvn", "lcnv"):
            if m not in C.modes:
                continue
            decl += C.decl_int("w" + m)
            sigs["w" + m] = "%s.wr.%s" % (tag, MODE[m])
            writer("w" + m, m)
            reader("w" + m, rm, "%s.wr.%s+rd.%s" % (tag, MODE[m], MODE[rm]))
    else:
        if C.readable:
            decl += C.decl_in("a")
            sigs["a"] = "%s.in" % tag
            for m in modes:
                reader("a", m, "%s.rd.%s" % (tag, MODE[m]))
        if C.writable:
            for m in modes:
                decl += C.decl_out("o" + m)
                sigs["o" + m] = "%s.wr.%s" % (tag, MODE[m])
                writer("o" + m, m)
    xd, xb, xs = C.extra()
    decl += [d for d in xd if d not in decl]
    blocks += xb
    sigs.update(xs)
    return "nd_%s_d%d" % (cons, nd), _emit(ctx, blocks, decl), sigs


def fam_nd(R, idx):
    cons = ND_CONSTRUCTS[idx % len(ND_CONSTRUCTS)]
    nd = 1 + (idx // len(ND_CONSTRUCTS)) % 3
    return nd_design(R, cons, nd)



# range forms: (name, range text with %(n)d = number of elements; every value is < n)
LV_FORMS = [("asc", "range( %(n)d )"), ("asc2", "range( 2, %(n)d )"), ("step2", "range( 0, %(n)d, 2 )"),
            ("step3", "range( 1, %(n)d, 3 )"), ("desc", "range( %(m)d, 1, -1 )"), ("desc1", "range( %(m)d, 0, -1 )"),
            ("descstep", "range( %(m)d, 0, -2 )"), ("nested", None)]
# uses of the loop variable: (name, output kind, statement); kinds: a<w> = array of n Bits<w> (element i written),
# v = Bits<n> vector (bit i written), w = Bits<4n> vector (slice i written)
LV_USES = [
    ("idx",    "a8", "s.o_idx[i] @= s.x[i]"),
    ("bitidx", "v",  "s.o_bitidx[i] @= s.v[i]"),
    ("add",    "a8", "s.o_add[i] @= s.a + i"),
    ("sub",    "a8", "s.o_sub[i] @= s.a - i"),
    ("rsub",   "a8", "s.o_rsub[i] @= i - s.a"),
    ("and",    "a8", "s.o_and[i] @= s.a & i"),
    ("or",     "a8", "s.o_or[i] @= s.a | i"),
    ("xor",    "a8", "s.o_xor[i] @= i ^ s.a"),
    ("mul",    "a8", "s.o_mul[i] @= s.a * i"),
    ("lt",     "v",  "s.o_lt[i] @= s.b < i"),
    ("eq",     "v",  "s.o_eq[i] @= s.b == i"),
    ("ge",     "v",  "s.o_ge[i] @= i >= s.b"),
    ("shr",    "a8", "s.o_shr[i] @= s.a >> i"),
    ("shl",    "a8", "s.o_shl[i] @= s.a << i"),
    ("lshift", "a8", "s.o_lshift[i] @= Bits8( i ) << zext( s.b[0:2], 8 )"),
    ("castk",  "ak", "s.o_castk[i] @= Bits%(k)d( i )"),
    ("cast8",  "a8", "s.o_cast8[i] @= Bits8( i )"),
    ("castop", "a8", "s.o_castop[i] @= s.a + zext( Bits%(k)d( i ), 8 )"),
    ("zext",   "a8", "s.o_zext[i] @= zext( Bits%(k)d( i ), 8 )"),
    ("trunc",  "a2", "s.o_trunc[i] @= trunc( Bits8( i ), 2 )"),
    ("sextidx", "a8", "s.o_sextidx[i] @= sext( s.xs[i], 8 )"),
    ("slice",  "a4", "s.o_slice[i] @= s.big[ i*4 : i*4+4 ]"),
    ("slice1", "a4", "s.o_slice1[i] @= s.big[ i : i+4 ]"),
    ("wslice", "w",  "s.o_wslice[ i*4 : i*4+4 ] @= s.a[0:4] + i"),
    ("ifeq",   "a8", "if s.b == i:\n  s.o_ifeq[i] @= s.a"),
    ("ifexp",  "a8", "s.o_ifexp[i] @= s.a if s.b < i else s.x[i]"),
]


def fam_lv(R, idx):
    """Every use of a loop variable (index, operand, comparison, shift amount, shifted value, size casts,
    extensions, slice bounds) under every range form (ascending, offset, stepped, descending, nested)."""
    ctx = Ctx(R)
    form, rtxt = LV_FORMS[idx % len(LV_FORMS)]
    n = 8 if form.startswith("desc") or R.random() < 0.6 else 6
    k = clog2(n)
    sigs = {}
    if form == "nested":
        a, b = R.choice([(2, 3), (3, 2), (3, 4)])
        jr = R.choice(["range( %d )" % b, "range( %d, 0, -1 )" % (b - 1), "range( 1, %d )" % b])
        decl = ["s.a = InPort( Bits8 )", "s.x = [ [ InPort( Bits8 ) for _ in range(%d) ] for _ in range(%d) ]" % (b, a),
                "s.big = InPort( Bits%d )" % (a * b * 2)]
        outs = {"nidx": "s.o_nidx[i][j] @= s.x[i][j] + ( i*%d + j )" % b,
                "nflat": "s.o_nflat[i*%d + j][0] @= s.x[i][j]" % b,
                "nshift": "s.o_nshift[i][j] @= ( s.a >> i ) << j",
                "ncast": "s.o_ncast[i][j] @= zext( Bits2( i ), 8 ) + zext( Bits3( j ), 8 )",
                "nslice": "s.o_nslice[i][j] @= zext( s.big[ i*%d + j*2 : i*%d + j*2 + 2 ], 8 )" % (2 * b, 2 * b),
                "ncmp": "s.o_ncmp[i][j] @= s.a if s.a[0:2] == i else s.x[i][j] - j"}
        body = []
        for nm, st in outs.items():
            if nm == "nflat":
                decl.append("s.o_nflat = [ [ OutPort( Bits8 ) ] for _ in range(%d) ]" % (a * b))
            else:
                decl.append("s.o_%s = [ [ OutPort( Bits8 ) for _ in range(%d) ] for _ in range(%d) ]" % (nm, b, a))
            sigs["o_" + nm] = "lv.%s.nested" % nm
            body.append(st)
        dflt = "for i in range( %d ):\n  for j in range( %d ):\n%s" % (
            a, b, "\n".join("    s.o_%s[i][j] @= 0" % nm for nm in outs if nm != "nflat"))
        dflt += "\nfor i in range( %d ):\n  s.o_nflat[i][0] @= 0" % (a * b)
        main = "for i in range( %d ):\n  for j in %s:\n%s" % (a, jr, "\n".join("    " + ln for st in body for ln in st.split("\n")))
        return "lv_nested", _emit(ctx, [_block("up", [dflt, main])], decl), sigs
    rtxt = rtxt % {"n": n, "m": n - 1}
    decl = ["s.a = InPort( Bits8 )", "s.b = InPort( Bits4 )", "s.v = InPort( Bits%d )" % n,
            "s.x = [ InPort( Bits8 ) for _ in range(%d) ]" % n, "s.xs = [ InPort( Bits4 ) for _ in range(%d) ]" % n,
            "s.big = InPort( Bits%d )" % (4 * n)]
    dflt, dvec, body = [], [], []
    for nm, kind, st in LV_USES:
        st = st % {"k": k} if "%(" in st else st
        o = "o_" + nm
        sigs[o] = "lv.%s.%s" % (nm, form)
        if kind[0] == "a":
            w = k if kind == "ak" else int(kind[1:])
            decl.append("s.%s = [ OutPort( Bits%d ) for _ in range(%d) ]" % (o, w, n))
            dflt.append("  s.%s[d] @= 0" % o)
        else:
            decl.append("s.%s = OutPort( Bits%d )" % (o, n if kind == "v" else 4 * n))
            dvec.append("s.%s @= 0" % o)
        body.append(st)
    stmts = ["for d in range( %d ):\n%s" % (n, "\n".join(dflt))] + dvec
    stmts.append("for i in %s:\n%s" % (rtxt, "\n".join("  " + ln for st in body for ln in st.split("\n"))))
    return "lv_%s" % form, _emit(ctx, [_block("up", stmts)], decl), sigs


FAMILIES = {"unit": fam_unit, "ops": fam_ops, "expr": fam_expr, "ctrl": fam_ctrl, "loopidx": fam_loopidx, "struct": fam_struct,
            "hier": fam_hier, "seq": fam_seq, "misc": fam_misc, "nd": fam_nd, "lv": fam_lv, "stmt": fam_stmt}


def design(family, index, seed_tag=""):
    """-> (name, source, {"family", "shape", "sigs": {top-level output name: shape of its expression}})"""
    R = rng("svgen/%s/%s/%d" % (seed_tag, family, index))
    del _CTXS[:]
    r = FAMILIES[family](R, index)
    name, src = r[0], r[1]
    sigs = dict(r[2]) if len(r) > 2 else {}
    if sigs:
        for c in _CTXS:
            sigs.update(c.tmpsigs)
    meta = {"family": family, "shape": name, "sigs": sigs}
    if family in ("nd", "lv"):
        meta["nowidth"] = True          # the key of a failing output is family + shape class, without widths
        meta["nocross"] = True          # C12: no second validation of the SystemVerilog text (C03 validates it)
    return "gen:%s:%d:%s" % (family, index, name), src, meta
