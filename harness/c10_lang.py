"""C10 helper: the update-block language used by the C10 check.

  * tree nodes (dicts) of the design language, `render()` to Python source, `flat_shape()` (the
    node-kind sequence in the order used by c10_obs.convert, for the generator <-> RTLIR cross-check)
  * `BlockGen`: seeded random generator of update blocks over signals of the widths
    {1,2,7,8,31,32,33,49,50,64,65,70}, literals up to 2^70 (2^k, 2^k +- 1 boundaries), loops,
    temporaries, struct fields, if-expressions, constant slices, (un)equal shifts, casts
  * bitstruct shapes (leaf / struct / list, the JSON form of spec/BitStruct.tla), a catalogue of struct types
    with nested structs and 1-D/2-D/3-D list fields, seeded random struct types; field access at every
    depth, list-field indexing per dimension (constant, loop variable, signal; partial indexing), whole-struct
    reads / writes, struct <-> BitsN assignment, struct temporaries / constants / instances, struct ports of
    sub-components, interfaces and port arrays
  * `module_source()`: one importable component class per block
  * `from_model()`: TLC state (tree of records of RTLIRTypes.tla) -> block
"""

WIDTHS = [1, 2, 7, 8, 31, 32, 33, 49, 50, 64, 65, 70]
STRUCT_FIELDS = [("fa", 8), ("fb", 3), ("fc", 49), ("fd", 1)]      # bitstruct St
ARR_LEN = 4

MAX_OPS = ["+", "-", "*", "&", "|", "^", "%"]
SHIFT_OPS = ["<<", ">>"]
CMP_OPS = ["==", "!=", "<", "<=", ">", ">="]


def limbs(v):
    assert v >= 0
    out = []
    while True:
        out.append(v & 0x7fff)
        v >>= 15
        if v == 0:
            return out


def bitlen(v):
    return max(1, int(v).bit_length())


# ------------------------------------------------------------------------------------------
# shapes of bitstruct types (the JSON form of spec/BitStruct.tla: leaf / struct / list)
# ------------------------------------------------------------------------------------------

def leaf(w):
    return {"k": "leaf", "w": w}


def lst(dims, t):
    """[..[t]*dims[-1]..]*dims[0]: dims[0] is the outermost dimension (the first index)"""
    for n in reversed(dims):
        t = {"k": "list", "n": n, "t": t}
    return t


def struct(name, fields):
    """fields: [(name, shape)]; `cls` is the Python class name (not part of the TLA+ shape)"""
    return {"k": "struct", "cls": name, "fs": [{"n": f, "t": t} for f, t in fields]}


def bits_type(w):
    """source of the BitsN type (`from pymtl3 import *` defines Bits1 .. Bits255 only)"""
    return "Bits%d" % w if w < 256 else "mk_bits( %d )" % w


def type_source(sh):
    """Python source of the type annotation of a field of shape sh"""
    if sh["k"] == "leaf":
        return "Bits%d" % sh["w"]
    if sh["k"] == "list":
        return "[ %s ] * %d" % (type_source(sh["t"]), sh["n"])
    return sh["cls"]


def collect_structs(sh, acc):
    """class name -> shape of every bitstruct class below sh, nested classes first"""
    if sh["k"] == "list":
        collect_structs(sh["t"], acc)
    elif sh["k"] == "struct":
        for f in sh["fs"]:
            collect_structs(f["t"], acc)
        if sh["cls"] in acc:
            assert acc[sh["cls"]] == sh, (sh["cls"], sh, acc[sh["cls"]])
        acc[sh["cls"]] = sh
    return acc


def endpoints(sh, prefix=()):
    """every access path below a value of shape sh: [(steps, shape)], steps: ("f", name) | ("i", n)"""
    out = [(prefix, sh)]
    if sh["k"] == "struct":
        for f in sh["fs"]:
            out += endpoints(f["t"], prefix + (("f", f["n"]),))
    elif sh["k"] == "list":
        out += endpoints(sh["t"], prefix + (("i", sh["n"]),))
    return out


def same_shape(a, b):
    return a == b


def clog2(n):
    return 1 if n <= 1 else (n - 1).bit_length()


def access(base, sh, steps, index):
    """apply the steps to the expression `base` of shape sh; index(n) -> index expression for a dimension of n"""
    e = base
    for st in steps:
        if st[0] == "f":
            sh = next(f["t"] for f in sh["fs"] if f["n"] == st[1])
            e = {"k": "field", "a": e, "name": st[1], "w": shape_nbits(sh), "ty": sh, "st": sh["k"] == "struct"}
        else:
            sh = sh["t"]
            e = {"k": "idx", "a": e, "i": index(st[1]), "w": shape_nbits(sh), "ty": sh, "st": sh["k"] == "struct"}
    return e


def type_class(sh):
    """short class of a shape for violation keys: bits | list<k>d | struct[list<k>d][nested]"""
    def walk(x, top):
        md, nested = 0, False
        if x["k"] == "list":
            k, y = 0, x
            while y["k"] == "list":
                k, y = k + 1, y["t"]
            m2, n2 = walk(y, False)
            return max(k, m2), n2 or y["k"] == "struct"
        if x["k"] == "struct":
            for f in x["fs"]:
                m2, n2 = walk(f["t"], False)
                md, nested = max(md, m2), nested or n2 or f["t"]["k"] == "struct"
        return md, nested
    if sh["k"] == "leaf":
        return "bits"
    md, nested = walk(sh, True)
    if sh["k"] == "list":
        return "list%dd" % md
    return "struct" + ("[list%dd]" % md if md else "") + ("[nested]" if nested else "")


def shape_nbits(sh):
    if sh["k"] == "leaf":
        return sh["w"]
    if sh["k"] == "list":
        return sh["n"] * shape_nbits(sh["t"])
    return sum(shape_nbits(f["t"]) for f in sh["fs"])


# ------------------------------------------------------------------------------------------
# rendering
# ------------------------------------------------------------------------------------------

def render(n):
    k = n["k"]
    if k == "sig":
        return "s." + n["name"]
    if k == "field":
        return "%s.%s" % (render(n["a"]), n["name"])
    if k == "idx":                       # one dimension of a list field
        return "%s[%s]" % (render(n["a"]), render(n["i"]))
    if k == "sinst":
        return "%s( %s )" % (n["cls"], ", ".join(render(x) for x in n["args"]))
    if k == "sconst":                    # bitstruct free variable (module global)
        return n["name"]
    if k == "num":
        v = n["v"]
        return hex(v) if n.get("hex") else str(v)
    if k == "gnum":                      # int free variable (module global)
        return n["name"]
    if k == "bconst":                    # Bits free variable (module global)
        return n["name"]
    if k == "cast":
        return "Bits%d( %s )" % (n["n"], render(n["a"]))
    if k == "unop":
        return "(%s%s)" % (n["op"], render(n["a"]))
    if k in ("binop", "shift", "cmp"):
        return "(%s %s %s)" % (render(n["a"]), n["op"], render(n["b"]))
    if k == "ifexp":
        return "(%s if %s else %s)" % (render(n["a"]), render(n["c"]), render(n["b"]))
    if k == "concat":
        return "concat( %s )" % ", ".join(render(x) for x in n["args"])
    if k in ("zext", "sext", "trunc"):
        return "%s( %s, %d )" % (k, render(n["a"]), n["n"])
    if k == "reduce":
        return "reduce_%s( %s )" % (n["op"], render(n["a"]))
    if k == "bit":
        return "%s[%s]" % (render(n["a"]), render(n["i"]))
    if k == "elem":
        return "s.%s[%s]" % (n["name"], render(n["i"]))
    if k == "slice":
        return "%s[%s:%s]" % (render(n["a"]), render(n["lo"]), render(n["hi"]))
    if k in ("loopvar", "tmp", "tmpdef"):
        return n["name"]
    raise ValueError(k)


def render_stmt(st, ind, out, ff=False):
    pad = "  " * ind
    k = st["k"]
    if k == "assign":
        if st["t"]["k"] == "tmpdef":
            out.append("%s%s = %s" % (pad, render(st["t"]), render(st["v"])))
        else:
            out.append("%s%s %s %s" % (pad, render(st["t"]), "<<=" if ff else "@=", render(st["v"])))
    elif k == "if":
        out.append("%sif %s:" % (pad, render(st["c"])))
        for b in st["body"]:
            render_stmt(b, ind + 1, out, ff)
        if st["orelse"]:
            out.append("%selse:" % pad)
            for b in st["orelse"]:
                render_stmt(b, ind + 1, out, ff)
    elif k == "for":
        args = [render(x) for x in st["range"]]
        out.append("%sfor %s in range( %s ):" % (pad, st["var"], ", ".join(args)))
        for b in st["body"]:
            render_stmt(b, ind + 1, out, ff)
    else:
        raise ValueError(k)


# ------------------------------------------------------------------------------------------
# shape (kind sequence in c10_obs.convert order)
# ------------------------------------------------------------------------------------------

def _const_path(n):
    """a field / constant-index chain into a bitstruct constant"""
    while n["k"] in ("field", "idx"):
        if n["k"] == "idx" and (n["i"]["k"] != "num" or n["i"]["v"] >= n["a"]["ty"]["n"]):
            return False                 # a signal / loop variable / out-of-range index is not folded
        n = n["a"]
    return n["k"] == "sconst"


def _shape_expr(n, out):
    k = n["k"]
    if k in ("field", "idx") and n["ty"]["k"] == "leaf" and _const_path(n):
        # the generation pass folds a Bits field of a constant struct to a sized constant (all fields are 0)
        out.append(("bconst", n["w"], 0))
        return
    if k == "sig":
        out.append(("sig", n["w"]))
    elif k == "field":
        _shape_expr(n["a"], out)
        out.append(("field", n["w"]))
    elif k == "idx":
        _shape_expr(n["a"], out)
        _shape_expr(n["i"], out)
        out.append(("idx", n["w"]))
    elif k == "sinst":
        for x in n["args"]:
            _shape_expr(x, out)
        out.append(("sinst", len(n["args"])))
    elif k == "sconst":
        out.append(("sig", n["w"]))
    elif k in ("num", "gnum"):
        out.append(("num", n["v"]))
    elif k == "bconst":
        out.append(("bconst", n["w"], n["v"]))
    elif k == "cast":
        _shape_expr(n["a"], out)
        out.append(("cast", n["n"]))
    elif k == "unop":
        _shape_expr(n["a"], out)
        out.append(("unop", n["op"]))
    elif k in ("binop", "shift", "cmp"):
        _shape_expr(n["a"], out)
        _shape_expr(n["b"], out)
        out.append((k, n["op"]))
    elif k == "ifexp":
        _shape_expr(n["c"], out)
        _shape_expr(n["a"], out)
        _shape_expr(n["b"], out)
        out.append(("ifexp",))
    elif k == "concat":
        for x in n["args"]:
            _shape_expr(x, out)
        out.append(("concat", len(n["args"])))
    elif k in ("zext", "sext", "trunc"):
        _shape_expr(n["a"], out)
        out.append((k, n["n"]))
    elif k == "reduce":
        _shape_expr(n["a"], out)
        out.append(("reduce",))
    elif k == "bit":
        _shape_expr(n["a"], out)
        _shape_expr(n["i"], out)
        out.append(("bit",))
    elif k == "elem":
        _shape_expr(n["i"], out)
        out.append(("elem", n["n"], n["w"]))
    elif k == "slice":
        _shape_expr(n["a"], out)
        _shape_expr(n["lo"], out)
        _shape_expr(n["hi"], out)
        out.append(("slice",))
    elif k == "loopvar":
        out.append(("loopvar",))
    elif k == "tmp":
        out.append(("tmp",))
    elif k == "tmpdef":
        out.append(("tmpdef",))
    else:
        raise ValueError(k)


def _shape_stmt(st, out):
    k = st["k"]
    if k == "assign":
        _shape_expr(st["v"], out)
        _shape_expr(st["t"], out)
        out.append(("assign",))
    elif k == "if":
        _shape_expr(st["c"], out)
        out.append(("if",))
        for b in st["body"]:
            _shape_stmt(b, out)
        for b in st["orelse"]:
            _shape_stmt(b, out)
    elif k == "for":
        r = st["range"]
        full = ([{"k": "num", "v": 0}, r[0], {"k": "num", "v": 1}] if len(r) == 1 else
                [r[0], r[1], {"k": "num", "v": 1}] if len(r) == 2 else r)
        for x in full:
            _shape_expr(x, out)
        out.append(("for",))
        for b in st["body"]:
            _shape_stmt(b, out)


def flat_shape(stmts):
    out = []
    for st in stmts:
        _shape_stmt(st, out)
    return out


# ------------------------------------------------------------------------------------------
# blocks and modules
# ------------------------------------------------------------------------------------------

class Block:
    def __init__(self, name, stmts, ff=False, tag=""):
        self.name = name
        self.stmts = stmts
        self.ff = ff
        self.tag = tag
        self.decls = {}       # signal name -> ("in"|"out", type string)
        self.arrays = {}      # name -> type string
        self.gconsts = {}     # global name -> source expr
        self.structs = {}     # bitstruct class name -> shape
        self.subports = {}    # port name of the sub-component s.sub -> ("in"|"out", type string)
        self.ifcports = {}    # port name of the interface s.ifc -> ("in"|"out", type string)
        self._collect()

    def _collect(self):
        def ex(n, store=False):
            k = n["k"]
            if "ty" in n:
                collect_structs(n["ty"], self.structs)
            if k == "sig":
                tstr = (n["ty"]["cls"] if "ty" in n else "St") if n.get("st") else bits_type(n["w"])
                if n["name"].startswith("sub."):          # s.sub.pi_*: in-port of the child (written here)
                    self.subports[n["name"][4:]] = ("in" if n["name"][4:6] == "pi" else "out", tstr)
                elif n["name"].startswith("ifc."):        # s.ifc.pi_*: in-port of the top-level interface
                    self.ifcports[n["name"][4:]] = ("in" if n["name"][4:6] == "pi" else "out", tstr)
                else:
                    d = "out" if (store or n["name"][0] in "op") else "in"
                    self.decls[n["name"]] = (d, tstr)
            elif k == "elem":
                self.arrays[n["name"]] = n["ty"]["cls"] if n.get("st") else "Bits%d" % n["w"]
            elif k == "sconst":
                self.gconsts[n["name"]] = "%s()" % n["ty"]["cls"]
            elif k == "gnum":
                self.gconsts[n["name"]] = str(n["v"])
            elif k == "bconst":
                self.gconsts[n["name"]] = "%s( %d )" % (bits_type(n["w"]), n["v"])
            for f in ("a", "b", "c", "i", "lo", "hi"):
                if f in n and isinstance(n[f], dict):
                    ex(n[f], store and f == "a")
            for x in n.get("args", []):
                ex(x)

        def stv(st):
            if st["k"] == "assign":
                ex(st["v"])
                if st["t"]["k"] != "tmpdef":
                    ex(st["t"], True)
            elif st["k"] == "if":
                ex(st["c"])
                for b in st["body"] + st["orelse"]:
                    stv(b)
            elif st["k"] == "for":
                for x in st["range"]:
                    ex(x)
                for b in st["body"]:
                    stv(b)
        for st in self.stmts:
            stv(st)

    def lines(self):
        out = []
        for st in self.stmts:
            render_stmt(st, 0, out, self.ff)
        return out

    def describe(self):
        return "; ".join(l.strip() if not l.startswith(" ") else l for l in self.lines())


def module_source(blocks):
    src = ["from pymtl3 import *", "",
           "@bitstruct", "class St:"]
    for f, w in STRUCT_FIELDS:
        src.append("  %s: Bits%d" % (f, w))
    src.append("")
    sdone = {"St": ST_SHAPE}
    for b in blocks:
        for cls, sh in b.structs.items():      # insertion order: nested classes first
            if cls in sdone:
                assert sdone[cls] == sh, (cls, sh, sdone[cls])
                continue
            sdone[cls] = sh
            src += ["@bitstruct", "class %s:" % cls]
            for f in sh["fs"]:
                src.append("  %s: %s" % (f["n"], type_source(f["t"])))
            src.append("")
    gdone = {}
    for b in blocks:
        for g, e in sorted(b.gconsts.items()):
            if g in gdone:
                assert gdone[g] == e, (g, e, gdone[g])
                continue
            gdone[g] = e
            src.append("%s = %s" % (g, e))
    src.append("")
    for b in blocks:
        for what, base, ports in (("Sub", "Component", b.subports), ("Ifc", "Interface", b.ifcports)):
            if ports:
                src.append("class %s_%s( %s ):" % (b.name, what, base))
                src.append("  def construct( s ):")
                for nm, (d, ty) in sorted(ports.items()):
                    src.append("    s.%s = %s( %s )" % (nm, "InPort" if d == "in" else "OutPort", ty))
                src.append("")
        src.append("class %s( Component ):" % b.name)
        src.append("  def construct( s ):")
        for nm, (d, ty) in sorted(b.decls.items()):
            src.append("    s.%s = %s( %s )" % (nm, "InPort" if d == "in" else "OutPort", ty))
        for nm, ty in sorted(b.arrays.items()):
            src.append("    s.%s = [ InPort( %s ) for _ in range(%d) ]" % (nm, ty, ARR_LEN))
        if b.subports:
            src.append("    s.sub = %s_Sub()" % b.name)
        if b.ifcports:
            src.append("    s.ifc = %s_Ifc()" % b.name)
        src.append("    @%s" % ("update_ff" if b.ff else "update"))
        src.append("    def blk():")
        for l in b.lines():
            src.append("      " + l)
        src.append("")
    return "\n".join(src) + "\n"


# ------------------------------------------------------------------------------------------
# random generator
# ------------------------------------------------------------------------------------------

def sig(name, w, st=False):
    n = {"k": "sig", "name": name, "w": w, "st": st}
    if st:
        n["ty"] = ST_SHAPE
    return n


def ssig(name, sh):
    """a signal of shape sh (struct or leaf)"""
    return {"k": "sig", "name": name, "w": shape_nbits(sh), "st": sh["k"] == "struct", "ty": sh}


# the catalogue of bitstruct types (leaf widths from WIDTHS so that fields are usable as operands anywhere)
ST_SHAPE = struct("St", [(f, leaf(w)) for f, w in STRUCT_FIELDS])
FL = struct("Fl", [("a", leaf(7)), ("b", leaf(1))])                                        # flat: 8
P1 = struct("P1", [("hdr", leaf(8)), ("d", lst([6], leaf(2)))])                            # 8 + 6*2 = 20
P2 = struct("P2", [("hdr", leaf(7)), ("d", lst([2, 3], leaf(2))), ("e", leaf(1))])         # 7 + 2*3*2 + 1 = 20
P3 = struct("P3", [("hdr", leaf(2)), ("d", lst([2, 2, 3], leaf(1)))])                      # 2 + 2*2*3*1 = 14
NST = struct("Nst", [("tag", leaf(2)), ("f", FL), ("g", lst([2], FL)), ("m", lst([3, 2], FL)),
                     ("q", P2), ("v", lst([2, 2], leaf(33)))])                             # 2+8+16+48+20+132 = 226
DEEP = struct("Deep", [("n", NST), ("r", lst([2], P3)), ("z", leaf(1))])                   # 226 + 28 + 1 = 255
CATALOGUE = [ST_SHAPE, FL, P1, P2, P3, NST, DEEP]


def random_struct(R, name, depth=2, counter=None, max_nbits=640):
    """a seeded random bitstruct type: 1-4 fields; BitsN, 1-3 dimensional lists, nested structs
    (at most max_nbits bits: a bitstruct packs into a Bits of fewer than 1024 bits)"""
    if counter is None:
        while True:
            sh = random_struct(R, name, depth, [0], max_nbits)
            if shape_nbits(sh) <= max_nbits:
                return sh
    fields = []
    for j in range(R.randint(1, 4)):
        c = R.random()
        if c < 0.35 or depth <= 0:
            t = leaf(R.choice([1, 2, 3, 5, 7, 8, 9, 31, 32, 33]))
        elif c < 0.55 and depth > 0:
            counter[0] += 1
            t = random_struct(R, "%s_%d" % (name, counter[0]), depth - 1, counter)
        else:
            dims = [R.choice([1, 2, 2, 3, 4, 5]) for _ in range(R.choice([1, 2, 2, 3]))]
            if R.random() < 0.3 and depth > 0:
                counter[0] += 1
                el = random_struct(R, "%s_%d" % (name, counter[0]), depth - 1, counter)
            else:
                el = leaf(R.choice([1, 2, 3, 7, 8]))
            t = lst(dims, el)
        fields.append(("f%d" % j, t))
    return struct(name, fields)


def first_dim_only_nbits(sh):
    """the width a checker would compute if it multiplied the element width by the OUTERMOST dimension only"""
    if sh["k"] == "leaf":
        return sh["w"]
    if sh["k"] == "struct":
        return sum(first_dim_only_nbits(f["t"]) for f in sh["fs"])
    el = sh
    while el["k"] == "list":
        el = el["t"]
    return sh["n"] * first_dim_only_nbits(el)


def plausible_wrong_widths(sh):
    """widths a faulty width computation would give for shape sh (all different from the real width)"""
    w = shape_nbits(sh)

    def inner_dim_only(x):
        if x["k"] == "leaf":
            return x["w"]
        if x["k"] == "struct":
            return sum(inner_dim_only(f["t"]) for f in x["fs"])
        n = x["n"]
        while x["t"]["k"] == "list":
            x = x["t"]
            n = x["n"]
        return n * inner_dim_only(x["t"])

    def sum_dims(x):
        if x["k"] == "leaf":
            return x["w"]
        if x["k"] == "struct":
            return sum(sum_dims(f["t"]) for f in x["fs"])
        n = 0
        while x["k"] == "list":
            n += x["n"]
            x = x["t"]
        return n * sum_dims(x)

    def no_dims(x):
        if x["k"] == "leaf":
            return x["w"]
        if x["k"] == "struct":
            return sum(no_dims(f["t"]) for f in x["fs"])
        return no_dims(x["t"])

    def first_field(x):
        return shape_nbits(x["fs"][0]["t"]) if x["k"] == "struct" else shape_nbits(x)

    def last_field_dropped(x):
        return sum(shape_nbits(f["t"]) for f in x["fs"][:-1]) if x["k"] == "struct" else shape_nbits(x)
    cand = [first_dim_only_nbits(sh), inner_dim_only(sh), sum_dims(sh), no_dims(sh), first_field(sh),
            last_field_dropped(sh), w - 1, w + 1]
    out = []
    for c in cand:
        if c != w and c >= 1 and c not in out:
            out.append(c)
    return out


def num(v, hexa=False):
    return {"k": "num", "v": v, "hex": hexa}


class BlockGen:
    """Random update blocks.  `wild` is the probability of deliberately ill-sized choices
    (mismatching explicit widths, literals one bit too wide, unequal shifts, changing casts)."""

    def __init__(self, R, wild=0.12):
        self.R = R
        self.wild = wild

    # -- literals ------------------------------------------------------------------------
    def lit_fitting(self, w):
        """non-negative int that fits w bits, biased to the boundaries"""
        R = self.R
        top = (1 << w) - 1
        c = R.random()
        if c < 0.25:
            v = R.choice([0, 1, 2, 3, 5])
        elif c < 0.45:
            v = top
        elif c < 0.7:
            k = R.randint(0, w)
            v = (1 << k) + R.choice([-1, 0, 1])
        else:
            v = R.getrandbits(R.randint(1, w))
        v = max(0, min(top, v))
        return num(v, R.random() < 0.3)

    def lit_any(self):
        R = self.R
        k = R.randint(0, 70)
        v = (1 << k) + R.choice([-1, 0, 1]) if R.random() < 0.7 else R.getrandbits(R.randint(1, 71))
        return num(max(0, v), R.random() < 0.3)

    def wildly(self):
        return self.R.random() < self.wild

    # -- explicit expressions ------------------------------------------------------------
    def pick_w(self):
        return self.R.choice(WIDTHS)

    def other_w(self, w):
        return self.R.choice([x for x in WIDTHS if x != w])

    def in_sig(self, w):
        return sig("i%d_%d" % (w, self.R.randint(0, 1)), w)

    def explicit(self, w, depth):
        """expression meant to have explicit width w"""
        R = self.R
        if self.wildly():
            w = self.other_w(w)
        if depth <= 0:
            return self.leaf(w)
        opts = ["leaf", "leaf", "binop", "binop", "binlit", "unop", "shift", "ifexp", "cast", "tmp"]
        if w == 1:
            opts += ["cmp", "cmp", "cmplit", "reduce", "bit", "bit", "scmp"]
        if w >= 2:
            opts += ["concat"]
        if any(x < w for x in WIDTHS):
            opts += ["zext", "sext"]
        if any(x > w for x in WIDTHS):
            opts += ["trunc", "slice", "slice"]
        if w > 255:
            opts = [o for o in opts if o != "cast"]        # BitsN( .. ) is a name only for N < 256
        c = R.choice(opts)
        d = depth - 1
        if c == "leaf":
            return self.leaf(w)
        if c == "binop":
            return {"k": "binop", "op": R.choice(MAX_OPS[:-1]), "a": self.explicit(w, d), "b": self.explicit(w, d)}
        if c == "binlit":
            op = R.choice(MAX_OPS)
            lit = self.implicit(w, d)
            if op == "%" and lit["k"] == "num" and lit["v"] == 0:
                lit = num(1)
            e = self.explicit(w, d)
            if op == "%" or R.random() < 0.7:
                return {"k": "binop", "op": op, "a": e, "b": lit}
            return {"k": "binop", "op": op, "a": lit, "b": e}
        if c == "unop":
            return {"k": "unop", "op": "~", "a": self.explicit(w, d)}
        if c == "shift":
            a = self.explicit(w, d)
            r = R.random()
            if r < 0.45:
                b = self.explicit(w, d)
            elif r < 0.9:
                b = self.lit_fitting(min(w, 7)) if not self.wildly() else self.lit_any()
            else:
                b = self.explicit(self.other_w(w), 0)
            if b["k"] in ("num", "bconst", "gnum") and b["v"] > 300:
                b = num(R.choice([129, 255, 256, 300]))      # the checker folds constant shifts as Python ints
            return {"k": "shift", "op": R.choice(SHIFT_OPS), "a": a, "b": b}
        if c == "ifexp":
            cond = self.explicit(1, d) if R.random() < 0.8 else self.explicit(self.pick_w(), 0)
            r = R.random()
            if r < 0.6:
                a, b = self.explicit(w, d), self.explicit(w, d)
            elif r < 0.8:
                a, b = self.explicit(w, d), self.implicit(w, d)
            else:
                a, b = self.implicit(w, d), self.explicit(w, d)
            return {"k": "ifexp", "c": cond, "a": a, "b": b}
        if c == "cast":
            r = R.random()
            if r < 0.6:
                return {"k": "cast", "n": w, "a": self.lit_fitting(w) if not self.wildly() else self.lit_any()}
            if r < 0.9:
                return {"k": "cast", "n": w, "a": self.explicit(w, d)}
            return {"k": "cast", "n": w, "a": self.explicit(self.other_w(w), 0)}
        if c == "tmp":
            t = [n for n, (tw, tex) in self.tmps.items() if tw == w and tex]
            if t:
                return {"k": "tmp", "name": R.choice(t)}
            return self.leaf(w)
        if c == "cmp":
            cw = self.pick_w()
            return {"k": "cmp", "op": R.choice(CMP_OPS), "a": self.explicit(cw, d), "b": self.explicit(cw, d)}
        if c == "cmplit":
            cw = self.pick_w()
            e, lit = self.explicit(cw, d), self.implicit(cw, d)
            if R.random() < 0.7:
                return {"k": "cmp", "op": R.choice(CMP_OPS), "a": e, "b": lit}
            return {"k": "cmp", "op": R.choice(CMP_OPS), "a": lit, "b": e}
        if c == "scmp":
            S = R.choice(self.struct_shapes)
            return {"k": "cmp", "op": R.choice(["==", "!="]), "a": self.struct_expr(S, d), "b": self.struct_expr(S, d)}
        if c == "reduce":
            return {"k": "reduce", "op": R.choice(["and", "or", "xor"]), "a": self.explicit(self.pick_w(), d)}
        if c == "bit":
            bw = self.pick_w()
            base = self.in_sig(bw)
            r = R.random()
            if r < 0.5:
                idx = num(R.randrange(bw))
            elif r < 0.75 and self.loops:
                lv = [(n, m) for n, m in self.loops if m < bw]
                idx = {"k": "loopvar", "name": R.choice(lv)[0]} if lv else num(R.randrange(bw))
            else:
                iw = max(1, (bw - 1).bit_length())
                idx = self.in_sig(iw) if iw in WIDTHS else num(R.randrange(bw))
            return {"k": "bit", "a": base, "i": idx}
        if c == "concat":
            parts = []
            rest = w
            while rest > 0 and len(parts) < 3:
                cand = [x for x in WIDTHS if x <= rest]
                pw = rest if (len(parts) == 2 or not cand) else R.choice(cand)
                if pw not in WIDTHS:
                    return self.leaf(w)
                parts.append(pw)
                rest -= pw
            if rest != 0 or len(parts) < 2:
                return self.leaf(w)
            return {"k": "concat", "args": [self.explicit(p, d if len(parts) < 3 else 0) for p in parts]}
        if c in ("zext", "sext"):
            return {"k": c, "n": w, "a": self.explicit(R.choice([x for x in WIDTHS if x < w]), d)}
        if c == "trunc":
            return {"k": "trunc", "n": w, "a": self.explicit(R.choice([x for x in WIDTHS if x > w]), d)}
        if c == "slice":
            bw = R.choice([x for x in WIDTHS if x > w])
            lo = R.randint(0, bw - w)
            return {"k": "slice", "a": self.in_sig(bw), "lo": num(lo), "hi": num(lo + w)}
        raise AssertionError(c)

    def leaf(self, w):
        R = self.R
        c = R.random()
        if c < 0.12 and self.by_leaf.get(w):
            S, steps = R.choice(self.by_leaf[w])
            return access(self.struct_root(S), S, steps, self.index_expr)
        if c < 0.2 and w in (8, 32):
            r = R.random()
            if r < 0.5:
                idx = num(R.randrange(ARR_LEN))
            elif r < 0.75 and self.loops and any(m < ARR_LEN for _, m in self.loops):
                idx = {"k": "loopvar", "name": R.choice([n for n, m in self.loops if m < ARR_LEN])}
            else:
                idx = self.in_sig(2)
            return {"k": "elem", "name": "ar%d" % w, "n": ARR_LEN, "w": w, "i": idx}
        if c < 0.27:
            v = {1: 1, 2: 2, 7: 0x55, 8: 0xa5}.get(w, (1 << (w - 1)) | 5)
            return {"k": "bconst", "name": "KB%d" % w, "w": w, "v": v}
        return self.in_sig(w)

    # -- inferred-width expressions ------------------------------------------------------
    def implicit(self, w, depth):
        """inferred-width expression meant to fit an explicit context of w bits"""
        R = self.R
        if self.wildly():
            r = R.random()
            if r < 0.5:
                return num(1 << w, R.random() < 0.3)                # one bit too wide
            return self.lit_any()
        c = R.random()
        if depth <= 0 or c < 0.6:
            return self.lit_fitting(w)
        if c < 0.68 and self.loops:
            fit = [n for n, m in self.loops if bitlen(m) <= w]
            if fit:
                return {"k": "loopvar", "name": R.choice(fit)}
        if c < 0.74:
            t = [n for n, (tw, tex) in self.tmps.items() if not tex and tw <= w]
            if t:
                return {"k": "tmp", "name": R.choice(t)}
        if c < 0.80 and w >= 4:
            return {"k": "gnum", "name": "KI11", "v": 11}
        if c < 0.90:
            a, b = self.lit_fitting(min(w, 14)), self.lit_fitting(min(w, 14))
            op = R.choice(["+", "*", "&", "|", "^", "-"])
            if op == "-" and a["v"] < b["v"]:
                a, b = b, a
            if op == "*" and (a["v"] >= 32768 or b["v"] >= 32768):
                op = "+"
            return {"k": "binop", "op": op, "a": a, "b": b}
        if c < 0.95:
            return {"k": "ifexp", "c": self.explicit(1, 0), "a": self.lit_fitting(w), "b": self.lit_fitting(w)}
        if self.loops:
            n, m = R.choice(self.loops)
            return {"k": "binop", "op": R.choice(["+", "*"]), "a": {"k": "loopvar", "name": n}, "b": num(R.choice([1, 2]))}
        return self.lit_fitting(w)

    # -- bitstructs ----------------------------------------------------------------------
    def set_catalogue(self, cat):
        self.cat = cat
        self.by_leaf = {}            # width -> [(root struct, steps)] of the leaf endpoints
        self.by_cls = {}             # class name -> [(root struct, steps)] of the nested endpoints of that struct type
        self.lists = []              # [(root struct, steps, shape)] of the (partially indexed) list endpoints
        self.struct_shapes = []      # every struct type, nested ones included
        for S in cat:
            for steps, sh in endpoints(S):
                if sh["k"] == "leaf":
                    self.by_leaf.setdefault(sh["w"], []).append((S, steps))
                elif sh["k"] == "list":
                    self.lists.append((S, steps, sh))
                else:
                    if steps:
                        self.by_cls.setdefault(sh["cls"], []).append((S, steps))
                    if all(x["cls"] != sh["cls"] for x in self.struct_shapes):
                        self.struct_shapes.append(sh)

    def index_expr(self, n):
        """an index for a list dimension of n elements: constant, loop variable or a signal of clog2(n) bits"""
        R = self.R
        if self.wildly():
            return num(n + R.randint(0, 2)) if R.random() < 0.5 else self.in_sig(clog2(n) + 1)
        r = R.random()
        if r < 0.5:
            return num(R.randrange(n))
        lv = [nm for nm, m in self.loops if m < n]
        if r < 0.75 and lv:
            return {"k": "loopvar", "name": R.choice(lv)}
        return self.in_sig(clog2(n))

    def struct_root(self, S, out=False):
        """a signal-like expression of struct type S: top-level port, port of the sub-component / the
        interface, element of a port array, constant, temporary"""
        R = self.R
        cls = S["cls"]
        r = R.random()
        if out:
            if r < 0.7:
                return ssig("ost_%s" % cls, S)
            return ssig(("sub.pi_%s" if r < 0.85 else "ifc.po_%s") % cls, S)
        if r < 0.5:
            return ssig("%sst_%s" % (R.choice("ij"), cls), S)
        if r < 0.6:
            return ssig("sub.po_%s" % cls, S)
        if r < 0.7:
            return ssig("ifc.pi_%s" % cls, S)
        if r < 0.8:
            return {"k": "elem", "name": "ars_%s" % cls, "n": ARR_LEN, "w": shape_nbits(S), "st": True, "ty": S,
                    "i": self.index_expr(ARR_LEN)}
        if r < 0.88:
            return {"k": "sconst", "name": "KS_%s" % cls, "w": shape_nbits(S), "st": True, "ty": S}
        t = [n for n, sh in self.stmps.items() if sh["cls"] == cls]
        if t:
            return {"k": "tmp", "name": R.choice(t)}
        return ssig("ist_%s" % cls, S)

    def struct_expr(self, S, depth):
        """an expression of struct type S"""
        R = self.R
        if self.wildly():
            S = R.choice(self.struct_shapes)                 # (probably) another struct type
        r = R.random()
        nested = self.by_cls.get(S["cls"], [])
        if r < 0.35 and nested:
            T, steps = R.choice(nested)
            return access(self.struct_root(T), T, steps, self.index_expr)
        if r < 0.45 and depth > 0:
            return {"k": "ifexp", "c": self.explicit(1, 0), "a": self.struct_expr(S, depth - 1),
                    "b": self.struct_expr(S, depth - 1)}
        if r < 0.6 and all(f["t"]["k"] == "leaf" for f in S["fs"]):
            args = []
            for f in S["fs"]:
                fw = f["t"]["w"]
                args.append(self.explicit(fw, depth - 1) if R.random() < 0.6 else self.implicit(fw, 0))
            return {"k": "sinst", "cls": S["cls"], "ty": S, "w": shape_nbits(S), "st": True, "args": args}
        return self.struct_root(S)

    def struct_target(self, S):
        R = self.R
        nested = self.by_cls.get(S["cls"], [])
        if R.random() < 0.4 and nested:
            T, steps = R.choice(nested)
            return access(self.struct_root(T, out=True), T, steps, self.index_expr)
        return self.struct_root(S, out=True)

    def struct_stmt(self, depth):
        """whole-struct statements: copy, struct -> BitsN, BitsN -> struct, struct temporaries, list fields"""
        R = self.R
        S = R.choice(self.struct_shapes)
        w = shape_nbits(S)
        c = R.random()
        if c < 0.3:
            return [{"k": "assign", "t": self.struct_target(S), "v": self.struct_expr(S, depth)}]
        if c < 0.8:
            n = w
            if R.random() < 0.2 or self.wildly():
                n = R.choice(plausible_wrong_widths(S))
            if c < 0.55:        # pack
                return [{"k": "assign", "t": sig("o%d_%d" % (n, R.randint(0, 1)), n), "v": self.struct_expr(S, depth)}]
            v = self.explicit(n, depth - 1) if R.random() < 0.85 else self.implicit(n, 0)
            return [{"k": "assign", "t": self.struct_target(S), "v": v}]
        if c < 0.9:
            name = "u%d" % len(self.stmps)
            st = {"k": "assign", "t": {"k": "tmpdef", "name": name}, "v": self.struct_expr(S, depth - 1)}
            if st["v"]["k"] == "tmp" or _shape_of_expr(st["v"], self.stmps) is None:
                return [self.assign(depth)]
            self.stmps[name] = _shape_of_expr(st["v"], self.stmps)
            return [st, {"k": "assign", "t": self.struct_target(S), "v": self.struct_expr(S, depth)}]
        # a (partially indexed) list field on both sides
        T, steps, sh = R.choice(self.lists)
        return [{"k": "assign", "t": access(self.struct_root(T, out=True), T, steps, self.index_expr),
                 "v": access(self.struct_root(T), T, steps, self.index_expr)}]

    # -- statements ----------------------------------------------------------------------
    def target(self, w):
        R = self.R
        c = R.random()
        if c < 0.6:
            return sig("o%d_%d" % (w, R.randint(0, 1)), w)
        if c < 0.8:
            bigger = [x for x in WIDTHS if x > w]
            if bigger:
                bw = R.choice(bigger)
                lo = R.randint(0, bw - w)
                return {"k": "slice", "a": self.fresh_out(bw), "lo": num(lo), "hi": num(lo + w)}
        if c < 0.9 and w == 1:
            bw = self.pick_w()
            lv = [n for n, m in self.loops if m < bw]
            idx = {"k": "loopvar", "name": R.choice(lv)} if (lv and R.random() < 0.6) else num(R.randrange(bw))
            return {"k": "bit", "a": self.fresh_out(bw), "i": idx}
        if self.by_leaf.get(w):
            S, steps = R.choice(self.by_leaf[w])
            return access(self.struct_root(S, out=True), S, steps, self.index_expr)
        return sig("o%d_%d" % (w, R.randint(0, 1)), w)

    def fresh_out(self, w):
        """an output written only here (sibling slices written twice fail elaboration)"""
        self.nout += 1
        return sig("p%d_%d" % (w, self.nout), w)

    def assign(self, depth):
        R = self.R
        w = self.pick_w()
        t = self.target(w)
        r = R.random()
        if r < 0.78:
            v = self.explicit(w, depth)
        else:
            v = self.implicit(w, depth)
        return {"k": "assign", "t": t, "v": v}

    def stmt(self, depth, nest):
        R = self.R
        c = R.random()
        if c < 0.10:
            return self.struct_stmt(depth)
        if c < 0.60 or nest >= 2:
            return [self.assign(depth)]
        if c < 0.72:
            name = "t%d" % len(self.tmps)
            if R.random() < 0.7:
                w = self.pick_w()
                v = self.explicit(w, depth - 1)
                st = {"k": "assign", "t": {"k": "tmpdef", "name": name}, "v": v}
                self.tmps[name] = (w, True)
            else:
                v = self.lit_fitting(R.choice([3, 8, 20, 49, 50, 70])) if R.random() < 0.8 else self.lit_any()
                st = {"k": "assign", "t": {"k": "tmpdef", "name": name}, "v": v}
                self.tmps[name] = (bitlen(v["v"]), False)
            return [st, self.assign(depth)]
        if c < 0.84:
            cond = self.explicit(1, depth - 1) if R.random() < 0.7 else self.explicit(self.pick_w(), 0)
            tm, stm = dict(self.tmps), dict(self.stmps)
            body = self.stmt(depth - 1, nest + 1)
            self.tmps, self.stmps = dict(tm), dict(stm)
            orelse = self.stmt(depth - 1, nest + 1) if R.random() < 0.5 else []
            self.tmps, self.stmps = tm, stm
            return [{"k": "if", "c": cond, "body": body, "orelse": orelse}]
        # for loop
        var = "i%d" % nest if not any(n == "i%d" % nest for n, _ in self.loops) else "j%d" % len(self.loops)
        r = R.random()
        if r < 0.55:
            e = R.choice([1, 2, 3, 4, 5, 7, 8, 9, 16, 31, 32])
            rng, vals = [num(e)], range(e)
        elif r < 0.8:
            s0 = R.randint(0, 5)
            e = s0 + R.randint(0, 9)
            rng, vals = [num(s0), num(e)], range(s0, e)
        elif r < 0.93:
            s0, st = R.randint(0, 3), R.randint(1, 4)
            e = s0 + R.randint(1, 12)
            rng, vals = [num(s0), num(e), num(st)], range(s0, e, st)
        else:
            s0 = R.randint(1, 9)
            rng, vals = [num(s0), num(0), {"k": "unop", "op": "-", "a": num(1)}], range(s0, 0, -1)
        m = max(vals) if len(vals) else max(x["v"] for x in rng if x["k"] == "num")
        self.loops.append((var, m))
        tm, stm = dict(self.tmps), dict(self.stmps)
        body = []
        for _ in range(R.randint(1, 2)):
            body += self.stmt(depth - 1, nest + 1)
        self.tmps, self.stmps = tm, stm
        self.loops.pop()
        return [{"k": "for", "var": var, "range": rng, "body": body}]

    def block(self, name, depth=None):
        R = self.R
        self.tmps = {}
        self.stmps = {}       # struct-typed temporaries: name -> shape
        self.loops = []
        self.nout = 0
        self.set_catalogue(CATALOGUE + ([random_struct(R, "R" + name)] if R.random() < 0.3 else []))
        depth = R.choice([1, 2, 2, 3]) if depth is None else depth
        stmts = []
        for _ in range(R.choice([1, 1, 2, 3])):
            stmts += self.stmt(depth, 0)
        ff = R.random() < 0.12 and not _has_tmp_or_slice_target(stmts)
        return Block(name, stmts, ff=ff)


def _shape_of_expr(e, stmps):
    """shape of a struct-typed expression of the generator (None: not known)"""
    if "ty" in e:
        return e["ty"]
    if e["k"] == "tmp":
        return stmps.get(e["name"])
    if e["k"] == "ifexp":
        return _shape_of_expr(e["a"], stmps)
    return None


def _has_tmp_or_slice_target(stmts):
    for st in stmts:
        if st["k"] == "assign":
            if st["t"]["k"] != "sig":
                return True
        elif st["k"] == "if":
            if _has_tmp_or_slice_target(st["body"] + st["orelse"]):
                return True
        elif st["k"] == "for":
            if _has_tmp_or_slice_target(st["body"]):
                return True
    return False


# ------------------------------------------------------------------------------------------
# systematic families
# ------------------------------------------------------------------------------------------

def literal_values(kmax=70):
    vals = set()
    for k in range(0, kmax + 1):
        for dlt in (-1, 0, 1):
            v = (1 << k) + dlt
            if v >= 0:
                vals.add(v)
    return sorted(vals)


def literal_blocks(vals, per_block=24):
    """`t_k = <literal>` statements: the literal node keeps its natural inferred width."""
    blocks = []
    for b in range(0, len(vals), per_block):
        stmts = []
        for j, v in enumerate(vals[b:b + per_block]):
            stmts.append({"k": "assign", "t": {"k": "tmpdef", "name": "t%d" % j}, "v": num(v)})
        stmts.append({"k": "assign", "t": sig("o1_0", 1), "v": sig("i1_0", 1)})
        blocks.append(Block("Lit%d" % (b // per_block), stmts, tag="literal"))
    return blocks


def context_literal_blocks(R, n):
    """one literal against an explicit context of every width: compare / add / assign / if-exp."""
    out = []
    for j in range(n):
        w = WIDTHS[j % len(WIDTHS)]
        form = (j // len(WIDTHS)) % 4
        dlt = R.choice([-1, -1, 0, 0, 1])
        v = max(0, (1 << w) - 1 + dlt) if R.random() < 0.7 else (1 << R.randint(0, w)) + R.choice([-1, 0, 1])
        v = max(0, v)
        a = sig("i%d_0" % w, w)
        if form == 0:
            st = {"k": "assign", "t": sig("o1_0", 1), "v": {"k": "cmp", "op": R.choice(CMP_OPS), "a": a, "b": num(v)}}
        elif form == 1:
            st = {"k": "assign", "t": sig("o%d_0" % w, w), "v": {"k": "binop", "op": R.choice(["+", "&", "^"]), "a": num(v), "b": a}}
        elif form == 2:
            st = {"k": "assign", "t": sig("o%d_0" % w, w), "v": num(v)}
        else:
            st = {"k": "assign", "t": sig("o%d_0" % w, w),
                  "v": {"k": "ifexp", "c": sig("i1_0", 1), "a": a, "b": num(v)}}
        out.append(Block("Ctx%d" % j, [st], tag="context-literal"))
    return out


def loop_blocks():
    """loop variables of every small range against assignment, arithmetic, comparison and index contexts"""
    out = []
    j = 0
    for rng_ in ([2], [3], [4], [5], [8], [9], [1, 4], [2, 8, 3], [0, 9, 2], [0, 32], [0, 33],
                 [5, 0, -1], [6, 1, -2], [9, 2, -3], [32, 0, -8], [3, 0, -1]):      # descending: the first value is the largest
        vals = range(*rng_)
        m = max(vals)
        w = bitlen(m)
        lv = {"k": "loopvar", "name": "i"}
        for form in range(8):
            ww = min(x for x in WIDTHS if x >= w)
            if form == 0:      # loop variable assigned to a signal that just holds it
                body = {"k": "assign", "t": sig("o%d_0" % ww, ww), "v": lv}
            elif form == 1:    # i + 1 assigned to the same signal
                body = {"k": "assign", "t": sig("o%d_0" % ww, ww), "v": {"k": "binop", "op": "+", "a": lv, "b": num(1)}}
            elif form == 2:    # added to a signal
                body = {"k": "assign", "t": sig("o%d_0" % ww, ww),
                        "v": {"k": "binop", "op": "+", "a": sig("i%d_0" % ww, ww), "b": lv}}
            elif form == 3:    # compared with a signal
                body = {"k": "assign", "t": sig("o1_0", 1), "v": {"k": "cmp", "op": "==", "a": lv, "b": sig("i%d_0" % ww, ww)}}
            elif form == 6:    # assigned to a signal of exactly the bits of the largest value
                body = {"k": "assign", "t": sig("o%d_0" % w, w), "v": lv}
            elif form == 7:    # ... of the bits of the last value (too narrow for a descending loop)
                lw = bitlen(vals[-1])
                if lw >= w:
                    continue
                body = {"k": "assign", "t": sig("o%d_0" % lw, lw), "v": lv}
            elif form == 4:    # bit index
                bw = min(x for x in WIDTHS if x > m)
                body = {"k": "assign", "t": {"k": "bit", "a": sig("p%d_0" % bw, bw), "i": lv},
                        "v": {"k": "bit", "a": sig("i%d_0" % bw, bw), "i": lv}}
            else:              # shifted
                body = {"k": "assign", "t": sig("o%d_0" % ww, ww), "v": {"k": "shift", "op": "<<", "a": sig("i%d_0" % ww, ww), "b": lv}}
            rexp = [num(x) if x >= 0 else {"k": "unop", "op": "-", "a": num(-x)} for x in rng_]
            out.append(Block("Lp%d" % j, [{"k": "for", "var": "i", "range": rexp, "body": [body]}], tag="loop"))
            j += 1
    return out


def shape_blocks():
    """systematic small shapes that mix inferred and explicit sizing: if-expressions with a comparison / an
    inferred compound / literals of different widths as branches, constant expressions with an operand wider
    than the folded value, Bits closure constants in constant expressions, loop-variable shift amounts"""
    def bo(op, a, b):
        return {"k": "shift" if op in SHIFT_OPS else "binop", "op": op, "a": a, "b": b}

    def cmp_(op, a, b):
        return {"k": "cmp", "op": op, "a": a, "b": b}

    def ife(c, a, b):
        return {"k": "ifexp", "c": c, "a": a, "b": b}
    c1 = sig("i1_0", 1)
    out = []

    def add(tw, v, loop=None):
        st = {"k": "assign", "t": sig("o%d_0" % tw, tw), "v": v}
        if loop:
            st = {"k": "for", "var": "i", "range": [num(loop)], "body": [st]}
        out.append(Block("Sh%d" % len(out), [st], tag="shape"))
    lv = {"k": "loopvar", "name": "i"}
    for w in (2, 8, 33):
        a = sig("i%d_0" % w, w)
        big, small = (1 << w) - 1, 1
        # a comparison as a branch of an if-expression
        add(w, ife(c1, a, cmp_("==", a, num(1))))
        add(w, ife(c1, cmp_("<", a, num(1)), a))
        add(w, ife(c1, num(big), cmp_("<", c1, num(1))))
        add(1, ife(c1, cmp_("<", a, num(1)), num(big)))
        add(1, ife(c1, cmp_("<", a, num(1)), num(1)))
        # two inferred branches of different widths, narrow / wide first, alone and against an explicit operand
        for x, y in ((small, big), (big, small), (big, big + 1), (big + 1, big)):
            add(w, ife(c1, num(x), num(y)))
            add(w, bo("&", a, ife(c1, num(x), num(y))))
            add(1, cmp_("==", ife(c1, num(x), num(y)), a))
        # an inferred compound branch and an explicit one
        add(w, {"k": "zext", "n": w, "a": ife(c1, bo("+", num(1), num(2)), a)})
        add(w, {"k": "zext", "n": w, "a": ife(c1, a, bo("+", num(1), num(2)))})
        add(w, ife(c1, bo("&", num(1), num(big)), a))
        # constant expressions whose operand is wider than the folded value
        add(w, bo("+", a, bo(">>", num(1 << w), num(1))))
        add(w, bo("&", a, bo("&", num(1), num(1 << w))))
        add(1, cmp_("<", a, bo(">>", num(1 << w), num(w))))
        add(w, bo(">>", num(1 << w), num(1)))
        add(w, bo("+", num(1), bo(">>", num(1), num(w + 1))))
        # loop variable as a shift amount of an inferred operand
        add(w, bo("&", a, bo(">>", num(big), lv)), loop=w + 2)
        add(w, bo("&", a, bo("<<", num(1), lv)), loop=w)
        # Bits closure constants in constant expressions
        kb = {"k": "bconst", "name": "KS%d" % w, "w": w, "v": big - 1}
        add(w, bo("*", kb, num(big)))
        add(w, bo("+", kb, num(1)))
        add(min(x for x in WIDTHS if x >= 2 * w), bo("*", kb, num(big)))
        add(w, bo("-", kb, num(big)))
        add(w, bo("<<", kb, num(1)))
    # concatenations of up to six operands
    for parts in ((2, 2, 2, 1), (2, 2, 2, 1, 1), (8, 8, 8, 8), (1, 1, 1, 1, 2, 2), (31, 1, 1), (33, 8, 8, 1)):
        tw = sum(parts)
        cc = {"k": "concat", "args": [sig("i%d_%d" % (pw, j % 2), pw) for j, pw in enumerate(parts)]}
        add(tw, cc)
        add(1, {"k": "reduce", "op": "xor", "a": cc})          # a context that accepts any width
    # a comparison result (1 bit, explicitly sized) as an operand of a wider explicitly sized value, on
    # either side of arithmetic / bitwise / comparison operators: always a mismatch
    # (seeded change C10-C: a vector of any width compared equal to Bool when it was the LEFT operand type)
    for w in (2, 8, 33):
        a = sig("i%d_0" % w, w)
        lt = cmp_("<", a, num(1))
        for op in ("&", "+", "^"):
            add(w, bo(op, a, lt))
            add(w, bo(op, lt, a))
        for op in ("==", ">"):
            add(1, cmp_(op, a, lt))
            add(1, cmp_(op, lt, a))
        add(w, bo("|", a, cmp_("==", c1, num(1))))
        add(1, bo("&", c1, lt))                       # Bits1 with a comparison: fine
    # temporaries assigned more than once: a literal first and an explicitly sized signal of the literal's
    # inferred width later (in a branch), and the other way round, then used at the same / another width
    # (seeded change C10-D: the explicit / inferred flag of a temporary was recorded by its first assignment only)
    def tdef(name, v):
        return {"k": "assign", "t": {"k": "tmpdef", "name": name}, "v": v}

    def use(tw, v):
        return {"k": "assign", "t": sig("o%d_0" % tw, tw), "v": v}
    x = {"k": "tmp", "name": "x"}
    for w, litv in ((2, 3), (2, 2), (8, 200)):
        a = sig("i%d_0" % w, w)
        for first, second in ((num(litv), a), (a, num(litv))):
            for branch in (True, False):
                re_ = [{"k": "if", "c": c1, "body": [tdef("x", second)], "orelse": []}] if branch else [tdef("x", second)]
                for tw_use, mk in ((w, lambda: x), (33 if w != 33 else 8, lambda: x),
                                   (33 if w != 33 else 8, lambda: bo("+", sig("i%d_1" % (33 if w != 33 else 8), 33 if w != 33 else 8), x)),
                                   (1, lambda: cmp_("==", sig("i%d_1" % (33 if w != 33 else 8), 33 if w != 33 else 8), x))):
                    out.append(Block("Sh%d" % len(out), [tdef("x", first)] + re_ + [use(tw_use, mk())], tag="shape"))
    # unary operators on comparisons of ints
    add(1, {"k": "unop", "op": "~", "a": cmp_("==", num(1), num(1))})
    add(1, bo("&", c1, {"k": "unop", "op": "~", "a": cmp_("==", lv, num(0))}), loop=2)
    return out


def struct_blocks(R, nrandom, light=False):
    """systematic bitstruct family: for every struct type of the catalogue and `nrandom` seeded random struct
    types, every access path (fields at every depth, every list dimension indexed by a constant / a signal / a
    loop variable, partial indexing) is read, written and copied; every struct-typed endpoint is assigned to /
    from a BitsN signal of the right width and of every width a faulty width computation would give, copied
    through a temporary and compared; the whole struct also through ports of a sub-component, an interface,
    a port array and as a constant"""
    out = []

    def add(stmts, tag="struct"):
        out.append(Block("Sf%d" % len(out), stmts, tag=tag))

    def asg(t, v):
        return {"k": "assign", "t": t, "v": v}

    def const_index(j):
        return lambda n: num((0, n - 1, n // 2)[j % 3])

    def var_index(n):
        return sig("x%d_%d" % (clog2(n), n), clog2(n))

    shapes = list(CATALOGUE[1:]) + [random_struct(R, "Rs%d" % j, depth=2) for j in range(nrandom)]
    for sn, S in enumerate(shapes):
        cls = S["cls"]
        eps = endpoints(S)
        big = len(eps) > 40
        for en, (steps, sh) in enumerate(eps):
            w = shape_nbits(sh)
            ndim = sum(1 for st in steps if st[0] == "i")
            ixs = [const_index(en)] + ([var_index] if ndim else [])
            if ndim and not (light and big):
                ixs.append(const_index(en + 1))
            for ix in ixs:
                src = access(ssig("ist_" + cls, S), S, steps, ix)
                dst = access(ssig("ost_" + cls, S), S, steps, ix)
                if sh["k"] == "list":
                    add([asg(dst, src)])                                   # list @= list (no width involved)
                    if not big:
                        add([asg(sig("o%d_0" % w, w), src)])               # vector @= list
                    continue
                add([asg(sig("o%d_0" % w, w), src)])                       # read / pack
                add([asg(dst, sig("i%d_0" % w, w))])                       # write / unpack
                if sh["k"] == "struct":
                    add([asg(dst, src)])
            if ndim:
                # loop variable on the first list dimension, constants on the others
                first = [True]
                dim0 = next(st[1] for st in steps if st[0] == "i")

                def lix(n):
                    if first[0]:
                        first[0] = False
                        return {"k": "loopvar", "name": "i"}
                    return num(n - 1)
                src = access(ssig("ist_" + cls, S), S, steps, lix)
                first[0] = True
                dst = access(ssig("ost_" + cls, S), S, steps, lix)
                if sh["k"] != "list" and not (light and big and en % 3):
                    add([{"k": "for", "var": "i", "range": [num(dim0)], "body": [asg(dst, src)]}])
            if sh["k"] != "struct":
                continue
            ix = const_index(en)
            src = access(ssig("ist_" + cls, S), S, steps, ix)
            dst = access(ssig("ost_" + cls, S), S, steps, ix)
            wrong = plausible_wrong_widths(sh)
            if light and big:
                wrong = wrong[:3]
            for n in wrong:
                add([asg(sig("o%d_0" % n, n), src)], "struct-wrong-width")
                add([asg(dst, sig("i%d_0" % n, n))], "struct-wrong-width")
            # an integer literal on the RHS: the widest that fits, and one bit too wide
            add([asg(dst, num((1 << w) - 1, True))])
            add([asg(dst, num(1 << w, True))], "struct-wrong-width")
            tname = {"k": "tmpdef", "name": "u"}
            tmp = {"k": "tmp", "name": "u"}
            add([asg(tname, src), asg(dst, tmp)])
            add([asg(tname, src), asg(sig("o%d_0" % w, w), tmp)])
            if sh["fs"][0]["t"]["k"] == "leaf":
                fw = sh["fs"][0]["t"]["w"]
                add([asg(tname, src), asg(sig("o%d_0" % fw, fw),
                                          access(tmp, sh, (("f", sh["fs"][0]["n"]),), ix))])
            other = access(ssig("jst_" + cls, S), S, steps, ix)
            add([asg(sig("o1_0", 1), {"k": "cmp", "op": "==", "a": src, "b": other})])
            add([asg(dst, {"k": "ifexp", "c": sig("i1_0", 1), "a": src, "b": other})])
            if all(f["t"]["k"] == "leaf" for f in sh["fs"]):
                def inst(delta):
                    return {"k": "sinst", "cls": sh["cls"], "ty": sh, "w": w, "st": True,
                            "args": [sig("i%d_%d" % (f["t"]["w"] + (delta if j == 0 else 0), j % 2),
                                         f["t"]["w"] + (delta if j == 0 else 0)) for j, f in enumerate(sh["fs"])]}
                add([asg(dst, inst(0))])
                add([asg(sig("o%d_0" % w, w), inst(0))])
                add([asg(dst, inst(1))], "struct-wrong-width")
                lits = dict(inst(0))
                lits["args"] = [num((1 << f["t"]["w"]) - 1) for f in sh["fs"]]
                add([asg(dst, lits)])
                lits = dict(lits)
                lits["args"] = [num(1 << sh["fs"][0]["t"]["w"])] + lits["args"][1:]        # one bit too wide for the field
                add([asg(dst, lits)], "struct-wrong-width")
        # the whole struct through other kinds of ports
        w = shape_nbits(S)
        ist, ost = ssig("ist_" + cls, S), ssig("ost_" + cls, S)
        roots = [ssig("sub.po_" + cls, S), ssig("ifc.pi_" + cls, S),
                 {"k": "elem", "name": "ars_" + cls, "n": ARR_LEN, "w": w, "st": True, "ty": S, "i": num(sn % ARR_LEN)},
                 {"k": "elem", "name": "ars_" + cls, "n": ARR_LEN, "w": w, "st": True, "ty": S, "i": sig("x2_0", 2)},
                 {"k": "sconst", "name": "KS_" + cls, "w": w, "st": True, "ty": S}]
        for rt in roots:
            add([asg(ost, rt)])
            add([asg(sig("o%d_0" % w, w), rt)])
            for n in plausible_wrong_widths(S)[:2]:
                add([asg(sig("o%d_0" % n, n), rt)], "struct-wrong-width")
            leafs = [(st, sh) for st, sh in eps if sh["k"] == "leaf"]
            st, sh = leafs[sn % len(leafs)]
            add([asg(sig("o%d_0" % sh["w"], sh["w"]), access(rt, S, st, const_index(sn)))])
        for tg in (ssig("sub.pi_" + cls, S), ssig("ifc.po_" + cls, S)):
            add([asg(tg, ist)])
            add([asg(tg, sig("i%d_0" % w, w))])
            for n in plausible_wrong_widths(S)[:2]:
                add([asg(tg, sig("i%d_0" % n, n))], "struct-wrong-width")
            leafs = [(st, sh) for st, sh in eps if sh["k"] == "leaf"]
            st, sh = leafs[(sn + 1) % len(leafs)]
            add([asg(access(tg, S, st, const_index(sn)), sig("i%d_0" % sh["w"], sh["w"]))])
        # non-blocking variants
        out.append(Block("Sf%d" % len(out), [asg(ost, ist)], ff=True, tag="struct"))
        out.append(Block("Sf%d" % len(out), [asg(sig("o%d_0" % w, w), ist)], ff=True, tag="struct"))
        out.append(Block("Sf%d" % len(out), [asg(ost, sig("i%d_0" % w, w))], ff=True, tag="struct"))
        for n in plausible_wrong_widths(S)[:2]:
            out.append(Block("Sf%d" % len(out), [asg(sig("o%d_0" % n, n), ist)], ff=True, tag="struct-wrong-width"))
            out.append(Block("Sf%d" % len(out), [asg(ost, sig("i%d_0" % n, n))], ff=True, tag="struct-wrong-width"))
    return out


# ------------------------------------------------------------------------------------------
# TLC model states -> blocks
# ------------------------------------------------------------------------------------------

def _inferred(t):
    k = t["k"]
    if k == "num":
        return True
    if k in ("binop", "ifexp"):
        return _inferred(t["a"]) and _inferred(t["b"])
    if k in ("shift", "unop"):
        return _inferred(t["a"])
    return False


def inverts_inferred(t):
    """does the tree apply ~ to an inferred-width (Python int) operand?"""
    if t["k"] == "unop" and _inferred(t["a"]):
        return True
    return any(inverts_inferred(t[f]) for f in ("a", "b", "c") if isinstance(t.get(f), dict)) or \
        any(inverts_inferred(x) for x in t.get("args", []))


def from_model(e):
    """tree of records of RTLIRTypes.tla (parsed by tlc.parse_value) -> design-language tree"""
    k = e["k"]
    if k == "sig":
        return sig("m%d_0" % e["w"], e["w"])
    if k == "num":
        return num(e["v"])
    if k == "lv":                        # a loop variable ranging over 0 .. hi (see model_block)
        return {"k": "loopvar", "name": "i%d" % e["hi"], "hi": e["hi"]}
    if k == "unop":
        return {"k": "unop", "op": e["op"], "a": from_model(e["a"])}
    if k in ("binop", "shift", "cmp"):
        return {"k": k, "op": e["op"], "a": from_model(e["a"]), "b": from_model(e["b"])}
    if k == "ifexp":
        return {"k": "ifexp", "c": from_model(e["c"]), "a": from_model(e["a"]), "b": from_model(e["b"])}
    if k == "concat":
        return {"k": "concat", "args": [from_model(e["a"]), from_model(e["b"])]}
    if k in ("zext", "trunc", "cast"):
        return {"k": k, "n": e["n"], "a": from_model(e["a"])}
    if k == "reduce":
        return {"k": "reduce", "op": "or", "a": from_model(e["a"])}
    if k == "slice":
        return {"k": "slice", "a": from_model(e["a"]), "lo": num(e["lo"]), "hi": num(e["hi"])}
    raise ValueError(k)


def _loop_his(t, acc):
    if t["k"] == "loopvar" and "hi" in t:
        acc.add(t["hi"])
    for f in ("a", "b", "c", "i", "lo", "hi"):
        if isinstance(t.get(f), dict):
            _loop_his(t[f], acc)
    for x in t.get("args", []):
        _loop_his(x, acc)
    return acc


def _name_shape(sh, name, counter):
    """shape of a TLC state (tuples / dicts without class names) -> generator shape with class names"""
    if sh["k"] == "leaf":
        return leaf(sh["w"])
    if sh["k"] == "list":
        return {"k": "list", "n": sh["n"], "t": _name_shape(sh["t"], name, counter)}
    fields = [(f["n"], _name_shape(f["t"], name, counter)) for f in sh["fs"]]
    counter[0] += 1
    return struct("%s_%d" % (name, counter[0]), fields)


def struct_model_block(name, st, tag="struct-model"):
    """state (sh, path, op, tw) of RTLIRStructs.tla -> a block:
         copy    s.ost.<path> @= s.ist.<path>
         pack    s.o<tw>_0   @= s.ist.<path>
         unpack  s.ost.<path> @= s.i<tw>_0
       a constant index step is the literal, a variable index step a signal of clog2(n) bits"""
    S = _name_shape(st["sh"], "T" + name, [0])
    steps, idxs = [], []
    for p in st["path"]:
        if p["k"] == "f":
            steps.append(("f", p["n"]))
        else:
            steps.append(("i", None))
            idxs.append(p)

    def chooser():
        it = iter(idxs)

        def ix(n):
            p = next(it)
            return num(p["i"]) if p["k"] == "c" else sig("x%d_%d" % (clog2(n), n), clog2(n))
        return ix
    # fill in the list lengths of the index steps
    sh, full = S, []
    for stp in steps:
        if stp[0] == "f":
            sh = next(f["t"] for f in sh["fs"] if f["n"] == stp[1])
            full.append(stp)
        else:
            full.append(("i", sh["n"]))
            sh = sh["t"]
    src = access(ssig("ist_T", S), S, full, chooser())
    dst = access(ssig("ost_T", S), S, full, chooser())
    tw = st["tw"]
    if st["op"] == "copy":
        a = {"k": "assign", "t": dst, "v": src}
    elif st["op"] == "pack":
        a = {"k": "assign", "t": sig("o%d_0" % tw, tw), "v": src}
    elif st["op"] == "unpack":
        a = {"k": "assign", "t": dst, "v": sig("i%d_0" % tw, tw)}
    else:
        raise ValueError(st["op"])
    return Block(name, [a], tag=tag)


def model_block(name, e, tw, tag="model"):
    """state (e, tw) of RTLIRTypes.tla -> the block `s.o<tw>_0 @= e`, inside `for i<hi> in range(hi + 1)` for
    every loop-variable leaf of e"""
    tree = from_model(e)
    st = {"k": "assign", "t": sig("o%d_0" % tw, tw), "v": tree}
    for hi in sorted(_loop_his(tree, set())):
        st = {"k": "for", "var": "i%d" % hi, "range": [num(hi + 1)], "body": [st]}
    return Block(name, [st], tag=tag)

