"""Design corpus of the C13 check.  Every design is a generated Python file defining `build()`
(fresh, un-elaborated top).  Files are written into a directory of the run's scratch area; the
SAME path is used by every subprocess of a design (emitted text contains source paths).

Groups
  repo     DUTs of /repo/pymtl3/passes/testcases/test_cases.py (Case*.DUT); those pymtl3 refuses to
           translate are observations of a (deterministic) refusal
  stdlib   stdlib RTL components with several parameterisations
  example  ChecksumRTL, ProcRTL, ProcXcel
  collide  designs built so that different hardware competes for one name (classes, parameters,
           bitstructs, identifiers) plus the matching controls that must NOT be flagged.
           The design id is part of the violation keys: designs that exhibit one root cause share an
           id prefix of their own (samename_, pareq_, paraddr_, id_flat_, kw_, parstr_ ...), the
           controls (cls_, par_, arg_, hash_, bs_, ctl_ ...) never share it, so that a known-finding
           entry for the root cause cannot hide a control that starts to fail.
"""
import os
import re
import textwrap

PRE = "from pymtl3 import *\n"

# two children `a`, `b` (8-bit in_/out) under one top
TWO = '''
class Top( Component ):
  def construct( s ):
    s.in_ = InPort( 8 )
    s.o1 = OutPort( 8 )
    s.o2 = OutPort( 8 )
    s.a = {A}
    s.b = {B}
    s.a.in_ //= s.in_
    s.b.in_ //= s.in_
    s.a.out //= s.o1
    s.b.out //= s.o2

def build():
  return Top()
'''

# child whose hardware (an added constant) is a python function of its parameter
CHILD = '''
def _k( x ):
  {KEXPR}

class Child( Component ):
  def construct( s, x=1 ):
    s.in_ = InPort( 8 )
    s.out = OutPort( 8 )
    K = _k( x )
    @update
    def up():
      s.out @= s.in_ + K
'''

FACTORY = '''
def mk( k ):
  class Inner( Component ):
    def construct( s{PARAMS} ):
      s.in_ = InPort( 8 )
      s.out = OutPort( 8 )
      K = k
      @update
      def up():
        s.out @= s.in_ + K
  return Inner
'''


_D = textwrap.dedent


def _two(a, b):
    return TWO.format(A=a, B=b)


def _child(kexpr="return x if isinstance( x, int ) else 7"):
    return CHILD.format(KEXPR=kexpr)


def _collide(thorough):
    """list of (id, {filename: source}) ; the main file is <id>.py"""
    D = []

    def add(i, src, **extra):
        files = {i + ".py": PRE + src}
        for k, v in extra.items():
            files[k + ".py"] = PRE + v
        D.append((i, files))

    # ---- classes sharing __name__ -----------------------------------------------------------
    add("samename_factory_diff_body", FACTORY.format(PARAMS="") + _two("mk( 1 )()", "mk( 2 )()"))
    add("cls_factory_same_body", FACTORY.format(PARAMS="") + _two("mk( 1 )()", "mk( 1 )()"))       # control
    add("cls_factory_diff_default", _D('''
        def mk( k ):
          class Inner( Component ):
            def construct( s, x=k ):
              s.in_ = InPort( 8 )
              s.out = OutPort( 8 )
              K = x
              @update
              def up():
                s.out @= s.in_ + K
          return Inner
        ''') + _two("mk( 1 )()", "mk( 2 )()"))                                                       # control
    add("samename_factory_same_params", FACTORY.format(PARAMS=", x=3") +
        _two("mk( 1 )( 3 )", "mk( 2 )( x=3 )"))
    add("samename_factory_diff_ports", _D('''
        def mk( w ):
          class Inner( Component ):
            def construct( s ):
              s.in_ = InPort( 8 )
              s.out = OutPort( 8 )
              s.aux = OutPort( w )
              @update
              def up():
                s.out @= s.in_
                s.aux @= 0
          return Inner
        ''') + _two("mk( 4 )()", "mk( 5 )()"))
    add("samename_two_files", _D('''
        import samename_two_files_m1 as m1, samename_two_files_m2 as m2
        ''') + _two("m1.Stage()", "m2.Stage()"),
        samename_two_files_m1=_D('''
        class Stage( Component ):
          def construct( s ):
            s.in_ = InPort( 8 )
            s.out = OutPort( 8 )
            @update
            def up():
              s.out @= s.in_ + 1
        '''),
        samename_two_files_m2=_D('''
        class Stage( Component ):
          def construct( s ):
            s.in_ = InPort( 8 )
            s.out = OutPort( 8 )
            @update
            def up():
              s.out @= s.in_ & 15
        '''))
    add("cls_two_files_same_body", _D('''
        import cls_two_files_same_body_m1 as m1, cls_two_files_same_body_m2 as m2
        ''') + _two("m1.Stage()", "m2.Stage()"),
        cls_two_files_same_body_m1=_D('''
        class Stage( Component ):
          def construct( s ):
            s.in_ = InPort( 8 )
            s.out = OutPort( 8 )
            @update
            def up():
              s.out @= s.in_ + 1
        '''),
        cls_two_files_same_body_m2=_D('''
        # the same hardware defined a second time, at other line numbers


        class Stage( Component ):
          def construct( s ):
            s.in_ = InPort( 8 )
            s.out = OutPort( 8 )
            @update
            def up():
              s.out @= s.in_ + 1
        '''))                                                                                        # control
    add("samename_nested_inner", _D('''
        class OuterA( Component ):
          class Inner( Component ):
            def construct( s ):
              s.in_ = InPort( 8 )
              s.out = OutPort( 8 )
              @update
              def up():
                s.out @= s.in_ + 1
          def construct( s ):
            s.in_ = InPort( 8 )
            s.out = OutPort( 8 )
            s.inner = OuterA.Inner()
            s.inner.in_ //= s.in_
            s.inner.out //= s.out

        class OuterB( Component ):
          class Inner( Component ):
            def construct( s ):
              s.in_ = InPort( 8 )
              s.out = OutPort( 8 )
              @update
              def up():
                s.out @= s.in_ - 1
          def construct( s ):
            s.in_ = InPort( 8 )
            s.out = OutPort( 8 )
            s.inner = OuterB.Inner()
            s.inner.in_ //= s.in_
            s.inner.out //= s.out
        ''') + _two("OuterA()", "OuterB()"))
    add("samename_deep_hierarchy", _D('''
        def leaf( k ):
          class Leaf( Component ):
            def construct( s ):
              s.in_ = InPort( 8 )
              s.out = OutPort( 8 )
              K = k
              @update
              def up():
                s.out @= s.in_ ^ K
          return Leaf

        class Mid( Component ):
          def construct( s, k ):
            s.in_ = InPort( 8 )
            s.out = OutPort( 8 )
            s.leaf = leaf( k )()
            s.leaf.in_ //= s.in_
            s.leaf.out //= s.out

        class Upper( Component ):
          def construct( s, k ):
            s.in_ = InPort( 8 )
            s.out = OutPort( 8 )
            s.mid = [ Mid( k + i ) for i in range( 2 ) ]
            s.mid[0].in_ //= s.in_
            s.mid[1].in_ //= s.mid[0].out
            s.mid[1].out //= s.out
        ''') + _two("Upper( 1 )", "Upper( 5 )"))
    add("arr_elem_params", _D('''
        class Mid( Component ):
          def construct( s, k ):
            s.in_ = InPort( 8 )
            s.out = OutPort( 8 )
            K = k
            @update
            def up():
              s.out @= s.in_ ^ K

        class Top( Component ):
          def construct( s ):
            s.in_ = InPort( 8 )
            s.out = OutPort( 8 )
            s.mid = [ [ Mid( 4 * i + j ) for j in range( 2 ) ] for i in range( 2 ) ]
            s.mid[0][0].in_ //= s.in_
            s.mid[0][1].in_ //= s.mid[0][0].out
            s.mid[1][0].in_ //= s.mid[0][1].out
            s.mid[1][1].in_ //= s.mid[1][0].out
            s.mid[1][1].out //= s.out

        def build():
          return Top()
        '''))                 # component array whose elements differ in their parameters (control once fixed)
    add("samename_parent_child", _D('''
        import samename_parent_child_impl as impl

        class Wrap( Component ):
          def construct( s ):
            s.in_ = InPort( 8 )
            s.out = OutPort( 8 )
            s.inner = impl.Wrap()
            s.inner.in_ //= s.in_
            s.inner.out //= s.out

        def build():
          return Wrap()
        '''),
        samename_parent_child_impl=_D('''
        class Wrap( Component ):
          def construct( s ):
            s.in_ = InPort( 8 )
            s.out = OutPort( 8 )
            @update
            def up():
              s.out @= s.in_ + 1
        '''))
    add("samename_stdlib_queues", _D('''
        from pymtl3.stdlib.queues import queues as q_enq
        from pymtl3.stdlib.stream import queues as q_stream

        class Top( Component ):
          def construct( s ):
            s.a = q_enq.NormalQueueRTL( Bits8, 2 )
            s.b = q_stream.NormalQueueRTL( Bits8, 2 )
            s.enq_en = InPort(); s.enq_rdy = OutPort(); s.enq_msg = InPort( 8 )
            s.mid_en = Wire(); s.out_val = OutPort(); s.out_rdy = InPort(); s.out_msg = OutPort( 8 )
            s.a.enq.en //= s.enq_en
            s.a.enq.rdy //= s.enq_rdy
            s.a.enq.msg //= s.enq_msg
            s.a.deq.en //= s.mid_en
            s.b.recv.val //= s.mid_en
            s.b.recv.msg //= s.a.deq.ret
            s.b.send.val //= s.out_val
            s.b.send.rdy //= s.out_rdy
            s.b.send.msg //= s.out_msg
            @update
            def up_mid():
              s.mid_en @= s.a.deq.rdy & s.b.recv.rdy

        def build():
          return Top()
        '''))
    add("cls_concat_class_vs_param", _D('''
        class A( Component ):
          def construct( s, x, y ):
            s.in_ = InPort( 8 )
            s.out = OutPort( 8 )
            @update
            def up():
              s.out @= s.in_ + 1

        class A__x_1( Component ):
          def construct( s, y ):
            s.in_ = InPort( 8 )
            s.out = OutPort( 8 )
            @update
            def up():
              s.out @= s.in_ + 2
        ''') + _two("A( 1, 2 )", "A__x_1( 2 )"))

    # ---- parameters whose printed form is ambiguous ------------------------------------------
    tk = "return 2 if isinstance( x, str ) else 3 if isinstance( x, bool ) else 4 if isinstance( x, int ) else 5"
    add("pareq_int_vs_str", _child(tk) + _two("Child( 1 )", "Child( '1' )"))
    add("pareq_bool_vs_str", _child(tk) + _two("Child( True )", "Child( 'True' )"))
    add("pareq_none_vs_str", _child(tk) + _two("Child( None )", "Child( 'None' )"))
    add("pareq_bits_vs_int", _child("return x.nbits if isinstance( x, Bits ) else 9") +
        _two("Child( Bits1( 1 ) )", "Child( 1 )"))
    add("par_int_vs_bool", _child(tk) + _two("Child( 1 )", "Child( True )"))                       # control
    add("par_list_vs_tuple", _child("return len( x ) + ( 1 if isinstance( x, list ) else 7 )") +
        _two("Child( [ 1, 2 ] )", "Child( ( 1, 2 ) )"))                                             # control
    add("par_int_vs_float", _child("return 1 if isinstance( x, float ) else 2") +
        _two("Child( 1 )", "Child( 1.0 )"))                                                         # control
    # ---- default / keyword / positional / set_param (controls) -----------------------------
    add("arg_default_vs_explicit", _child() + _two("Child()", "Child( 1 )"))
    add("arg_kwarg_vs_positional", _child() + _two("Child( x=2 )", "Child( 2 )"))
    add("arg_diff_values", _child() + _two("Child( 2 )", "Child( 3 )"))
    add("arg_kwarg_order", _D('''
        class Child( Component ):
          def construct( s, p=1, q=2 ):
            s.in_ = InPort( 8 )
            s.out = OutPort( 8 )
            K = p * 16 + q
            @update
            def up():
              s.out @= s.in_ + K
        ''') + _two("Child( q=3, p=4 )", "Child( 4, 3 )"))
    add("arg_swapped_values", _D('''
        class Child( Component ):
          def construct( s, p=1, q=2 ):
            s.in_ = InPort( 8 )
            s.out = OutPort( 8 )
            K = p * 16 + q
            @update
            def up():
              s.out @= s.in_ + K
        ''') + _two("Child( 3, 4 )", "Child( 4, 3 )"))
    add("arg_kwarg_order_vs_swapped", _D('''
        class Child( Component ):
          def construct( s, p=1, q=2 ):
            s.in_ = InPort( 8 )
            s.out = OutPort( 8 )
            K = p * 16 + q
            @update
            def up():
              s.out @= s.in_ + K
        ''') + _two("Child( q=3, p=4 )", "Child( 3, 4 )"))                                        # control
    add("arg_set_param", _child() + TWO.format(A="Child()", B="Child()").replace(
        "def build():\n  return Top()",
        "def build():\n  top = Top()\n  top.set_param( 'top.a.construct', x=5 )\n  return top"))
    # ---- behaviour that is not a function of (class, parameters) ---------------------------
    add("beh_class_attribute", _D('''
        class Child( Component ):
          MODE = 1
          def construct( s ):
            s.in_ = InPort( 8 )
            s.out = OutPort( 8 )
            K = Child.MODE
            @update
            def up():
              s.out @= s.in_ + K

        def _mk( mode ):
          Child.MODE = mode
          return Child()
        ''') + _two("_mk( 1 )", "_mk( 2 )"))
    add("beh_lambda_connect", _D('''
        class Child( Component ):
          def construct( s ):
            s.in_ = InPort( 8 )
            s.out = OutPort( 8 )
            s.out //= lambda: s.in_ + 1
        ''') + _two("Child()", "Child()"))
    add("beh_same_class_twice", _child() + _two("Child( 4 )", "Child( 4 )"))                      # control
    # ---- hashed names ----------------------------------------------------------------------------
    LONG = _D('''
        class Child( Component ):
          def construct( s, first_parameter_name=1, second_parameter_name=2, third_parameter_name=3,
                         fourth_parameter_name=4 ):
            s.in_ = InPort( 8 )
            s.out = OutPort( 8 )
            K = first_parameter_name + 2 * second_parameter_name + 4 * third_parameter_name + 8 * fourth_parameter_name
            @update
            def up():
              s.out @= s.in_ + K
        ''')
    add("hash_long_params_diff", LONG + _two("Child( 1, 2, 3, 4 )", "Child( 1, 2, 3, 5 )"))      # control
    add("hash_long_params_same", LONG + _two("Child( 1, 2, 3, 4 )", "Child( fourth_parameter_name=4 )"))
    add("hash_special_chars", _child("return len( x )") +
        _two("Child( 'a b' )", "Child( 'a.b<c>[0]' )"))                                             # control
    add("hash_type_list", _child("return x[ 1 ].nbits") +
        _two("Child( [ Bits8, Bits16 ] )", "Child( [ Bits8, Bits32 ] )"))                           # control
    add("hash_dict_param", _child("return x[ 'k' ]") +
        _two("Child( { 'k' : 1, 'j' : 2 } )", "Child( { 'k' : 2, 'j' : 2 } )"))                    # control
    # parameters whose printed form is not a legal identifier fragment / not stable
    add("parstr_negative_int", _child("return x & 255") + _two("Child( -1 )", "Child( 1 )"))
    add("parstr_tuple1", _child("return x[ 0 ]") + _two("Child( ( 1, ) )", "Child( ( 2, ) )"))
    add("parstr_operator_string", _child("return len( x )") + _two("Child( 'a+b' )", "Child( 'a*b' )"))
    add("parstr_float_exp", _child("return 1") + _two("Child( 1e100 )", "Child( 1 )"))
    # printed forms that are Python identifiers but not (System)Verilog ones            # controls
    add("parstr_unicode_letter", _child("return len( x )") + _two("Child( '\u00b5s' )", "Child( 'ms' )"))
    add("parstr_unicode_digit_mark", _child("return len( x )") + _two("Child( 'x\u0660' )", "Child( 'e\u0301' )"))
    add("parstr_bitstruct_value", _D('''
        @bitstruct
        class Pt:
          x: Bits4
          y: Bits4
        ''') + _child("return int( x.y )") + _two("Child( Pt( 1, 2 ) )", "Child( Pt( 1, 3 ) )"))
    add("paraddr_function", _D('''
        def f1( v ): return v + 1
        ''') + _child("return x( 1 )") + _two("Child( f1 )", "Child( f1 )"))
    add("paraddr_object", _D('''
        class Cfg:
          def __init__( s, k ): s.k = k
        CFG = Cfg( 3 )
        ''') + _child("return x.k") + _two("Child( CFG )", "Child( CFG )"))
    add("parstr_set", _child("return len( x )") +
        _two("Child( { 'alpha', 'beta', 'gamma', 'delta' } )", "Child( { 'alpha' } )"))
    add("parstr_frozenset_int", _child("return len( x )") +
        _two("Child( frozenset( [ 1, 2, 3 ] ) )", "Child( frozenset( [ 1 ] ) )"))                   # control
    add("ctl_parstr_bitstruct_type", _D('''
        def mkmsg( w ):
          @bitstruct
          class Msg:
            a: mk_bits( w )
          return Msg
        class TChild( Component ):
          def construct( s, T ):
            s.in_ = InPort( 8 )
            s.out = OutPort( 8 )
            s.w = Wire( T )
            @update
            def up():
              s.w.a @= 1
              s.out @= s.in_ + zext( s.w.a, 8 ) if T.nbits < 8 else s.in_
        ''') + _two("TChild( mkmsg( 4 ) )", "TChild( mkmsg( 5 ) )"))                                 # control
    # ---- bitstructs ------------------------------------------------------------------------------
    SCHILD = _D('''
        class SChild( Component ):
          def construct( s, T ):
            s.in_ = InPort( 8 )
            s.out = OutPort( 8 )
            s.mi = InPort( T )
            s.mo = OutPort( T )
            @update
            def up():
              s.out @= s.in_
              s.mo @= s.mi
        ''')
    STOP = _D('''
        class Top( Component ):
          def construct( s ):
            s.in_ = InPort( 8 )
            s.o1 = OutPort( 8 )
            s.o2 = OutPort( 8 )
            s.a = SChild( TA )
            s.b = SChild( TB )
            s.i1 = InPort( TA )
            s.i2 = InPort( TB )
            s.m1 = OutPort( TA )
            s.m2 = OutPort( TB )
            s.a.in_ //= s.in_
            s.b.in_ //= s.in_
            s.a.out //= s.o1
            s.b.out //= s.o2
            s.a.mi //= s.i1
            s.b.mi //= s.i2
            s.a.mo //= s.m1
            s.b.mo //= s.m2

        def build():
          return Top()
        ''')

    def structs(i, ta, tb):
        add(i, "def _ta():\n" + textwrap.indent(ta, "  ") + "\n  return Msg\n" +
            "def _tb():\n" + textwrap.indent(tb, "  ") + "\n  return Msg\n" +
            "TA = _ta()\nTB = _tb()\n" + SCHILD + STOP)

    structs("bs_same_name_diff_fields", _D('''
        @bitstruct
        class Msg:
          a: Bits8
        '''), _D('''
        @bitstruct
        class Msg:
          b: Bits8
        '''))                                                                                         # control
    structs("bs_same_name_diff_widths", _D('''
        @bitstruct
        class Msg:
          a: Bits8
        '''), _D('''
        @bitstruct
        class Msg:
          a: Bits9
        '''))                                                                                         # control
    structs("bs_same_name_same_fields", _D('''
        @bitstruct
        class Msg:
          a: Bits8
          b: Bits4
        '''), _D('''
        @bitstruct
        class Msg:
          a: Bits8
          b: Bits4
        '''))                                                                                         # control
    structs("bs_field_order", _D('''
        @bitstruct
        class Msg:
          a: Bits8
          b: Bits8
        '''), _D('''
        @bitstruct
        class Msg:
          b: Bits8
          a: Bits8
        '''))                                                                                         # control
    structs("bs_long_fields", _D('''
        @bitstruct
        class Msg:
          a_rather_long_field_name_number_one: Bits8
          a_rather_long_field_name_number_two: Bits8
          a_rather_long_field_name_number_three: Bits8
        '''), _D('''
        @bitstruct
        class Msg:
          a_rather_long_field_name_number_one: Bits8
          a_rather_long_field_name_number_two: Bits8
          a_rather_long_field_name_number_three: Bits7
        '''))                                                                                         # control
    structs("bs_list_field", _D('''
        @bitstruct
        class Msg:
          a: [ Bits8 ] * 2
        '''), _D('''
        @bitstruct
        class Msg:
          a: [ Bits8 ] * 3
        '''))                                                                                         # control
    structs("bs_nested_same_inner_name", _D('''
        @bitstruct
        class In:
          c: Bits8
        @bitstruct
        class Msg:
          a: In
        '''), _D('''
        @bitstruct
        class In:
          d: Bits8
        @bitstruct
        class Msg:
          a: In
        '''))                                                                                         # control
    structs("bs_concat_nested_vs_flat", _D('''
        @bitstruct
        class T:
          c: Bits8
        @bitstruct
        class Msg:
          a: T
        '''), _D('''
        @bitstruct
        class Msg:
          a_T__c: Bits8
        '''))
    structs("bs_concat_field_vs_width", _D('''
        @bitstruct
        class Msg:
          a: Bits8
          a_8: Bits4
        '''), _D('''
        @bitstruct
        class Msg:
          a_8__a: Bits8
          x: Bits4
        '''))                                                                                         # control?
    # ---- identifiers ---------------------------------------------------------------------------
    ONE = _D('''
        def build():
          return Top()
        ''')
    add("id_flat_wire_vs_child_port", _child() + _D('''
        class Top( Component ):
          def construct( s ):
            s.in_ = InPort( 8 )
            s.out = OutPort( 8 )
            s.a__out = Wire( 8 )
            s.a = Child( 2 )
            s.a.in_ //= s.in_
            @update
            def up():
              s.a__out @= s.in_
              s.out @= s.a.out + s.a__out
        ''') + ONE)
    add("id_flat_list_vs_scalar_child", _child() + _D('''
        class Top( Component ):
          def construct( s ):
            s.in_ = InPort( 8 )
            s.o = [ OutPort( 8 ) for _ in range( 3 ) ]
            s.b = [ Child( 2 ) for _ in range( 2 ) ]
            s.b__0 = Child( 3 )
            for i in range( 2 ):
              s.b[i].in_ //= s.in_
              s.b[i].out //= s.o[i]
            s.b__0.in_ //= s.in_
            s.b__0.out //= s.o[2]
        ''') + ONE)
    add("id_flat_port_vs_ifc_port", _D('''
        class Ifc( Interface ):
          def construct( s ):
            s.msg = InPort( 8 )
            s.val = InPort()
        class Top( Component ):
          def construct( s ):
            s.x = Ifc()
            s.x__msg = InPort( 8 )
            s.out = OutPort( 8 )
            @update
            def up():
              s.out @= s.x.msg + s.x__msg
        ''') + ONE)
    add("id_block_vs_signal", _D('''
        class Top( Component ):
          def construct( s ):
            s.in_ = InPort( 8 )
            s.out = OutPort( 8 )
            s.tmp = Wire( 8 )
            @update
            def tmp():
              s.tmp @= s.in_ + 1
            @update
            def up():
              s.out @= s.tmp
        ''') + ONE)
    add("id_tmpvar_concat", _D('''
        class Top( Component ):
          def construct( s ):
            s.in_ = InPort( 8 )
            s.o1 = OutPort( 8 )
            s.o2 = OutPort( 4 )
            @update
            def up():
              y_x = s.in_ + 1
              s.o1 @= y_x
            @update
            def up_y():
              x = s.in_[0:4]
              s.o2 @= x
        ''') + ONE)
    add("id_flat_struct_port_vs_port", _D('''
        @bitstruct
        class P:
          f: Bits8
          g: Bits8
        class Top( Component ):
          def construct( s ):
            s.p = InPort( P )
            s.p__f = InPort( 8 )
            s.out = OutPort( 8 )
            @update
            def up():
              s.out @= s.p.f + s.p__f
        ''') + ONE)
    add("id_flat_array_port_vs_port", _D('''
        class Top( Component ):
          def construct( s ):
            s.p = [ InPort( 8 ) for _ in range( 2 ) ]
            s.p__0 = InPort( 8 )
            s.out = OutPort( 8 )
            @update
            def up():
              s.out @= s.p[0] + s.p__0 + s.p[1]
        ''') + ONE)
    add("id_unicode_signal", _D('''
        class Top( Component ):
          def construct( s ):
            s.in_ = InPort( 8 )
            s.größe = OutPort( 8 )
            @update
            def up():
              s.größe @= s.in_
        ''') + ONE)
    # names that are reserved words of (System)Verilog, in several name classes
    new = ["let", "strong", "weak", "soft", "until", "checker", "restrict", "implies", "nexttime",
           "untyped", "interconnect", "nettype", "eventually", "unique0", "implements", "s_always",
           "until_with", "accept_on", "reject_on", "endchecker", "s_until", "sync_accept_on"]
    old = ["reg", "wire", "logic", "bit", "int", "type", "string", "do", "begin", "end", "input",
           "output", "module", "static", "var", "time", "real", "event", "table", "small", "cell",
           "design", "instance", "use", "alias", "byte", "new", "this", "super", "null", "edge",
           "signed", "join", "force", "wait", "context", "final", "packed", "priority", "unique"]
    def kwport(i, words):
        decl = "".join("    s.%s = OutPort( 8 )\n" % w for w in words)
        stm = "".join("      s.%s @= s.in_\n" % w for w in words)
        add(i, "class Top( Component ):\n  def construct( s ):\n    s.in_ = InPort( 8 )\n" + decl +
            "    @update\n    def up():\n" + stm + ONE)
    kwport("kw_port_all_sv2009", new)
    for w in (new + old) if thorough else (new[:4] + old[:8]):
        kwport("kw_port_" + w, [w])
    for w in (["let", "strong", "reg", "logic", "module", "checker"] if thorough else ["let", "reg"]):
        add("kw_wire_" + w, _D('''
        class Top( Component ):
          def construct( s ):
            s.in_ = InPort( 8 )
            s.out = OutPort( 8 )
            s.%s = Wire( 8 )
            @update
            def up():
              s.%s @= s.in_
              s.out @= s.%s
        ''') % (w, w, w) + ONE)
        add("kw_block_" + w, _D('''
        class Top( Component ):
          def construct( s ):
            s.in_ = InPort( 8 )
            s.out = OutPort( 8 )
            @update
            def %s():
              s.out @= s.in_
        ''') % w + ONE)
        add("kw_inst_" + w, _child() + _D('''
        class Top( Component ):
          def construct( s ):
            s.in_ = InPort( 8 )
            s.out = OutPort( 8 )
            s.%s = Child( 2 )
            s.%s.in_ //= s.in_
            s.%s.out //= s.out
        ''') % (w, w, w) + ONE)
        add("kw_field_" + w, _D('''
        @bitstruct
        class P:
          %s: Bits8
          g: Bits8
        class Top( Component ):
          def construct( s ):
            s.p = InPort( P )
            s.out = OutPort( 8 )
            @update
            def up():
              s.out @= s.p.%s
        ''') % (w, w) + ONE)
        add("kw_tmpvar_" + w, _D('''
        class Top( Component ):
          def construct( s ):
            s.in_ = InPort( 8 )
            s.out = OutPort( 8 )
            @update
            def up():
              %s = s.in_ + 1
              s.out @= %s
        ''') % (w, w) + ONE)
    return D


_STDLIB = [
    ("Reg8", "from pymtl3.stdlib.basic_rtl import Reg", "Reg( Bits8 )"),
    ("RegEn16", "from pymtl3.stdlib.basic_rtl import RegEn", "RegEn( Bits16 )"),
    ("RegRst8v3", "from pymtl3.stdlib.basic_rtl import RegRst", "RegRst( Bits8, 3 )"),
    ("RegEnRst32", "from pymtl3.stdlib.basic_rtl import RegEnRst", "RegEnRst( Bits32, reset_value=508 )"),
    ("Mux8x4", "from pymtl3.stdlib.basic_rtl import Mux", "Mux( Bits8, 4 )"),
    ("Mux1x2", "from pymtl3.stdlib.basic_rtl import Mux", "Mux( Bits1, 2 )"),
    ("Demux", "from pymtl3.stdlib.basic_rtl.arithmetics import Demux", "Demux( Bits8, 4 )"),
    ("RShift", "from pymtl3.stdlib.basic_rtl import RightLogicalShifter", "RightLogicalShifter( Bits16, 4 )"),
    ("LShift", "from pymtl3.stdlib.basic_rtl import LeftLogicalShifter", "LeftLogicalShifter( Bits16, 4 )"),
    ("Incr", "from pymtl3.stdlib.basic_rtl import Incrementer", "Incrementer( Bits8, 2 )"),
    ("Adder", "from pymtl3.stdlib.basic_rtl import Adder", "Adder( Bits8 )"),
    ("And", "from pymtl3.stdlib.basic_rtl import And", "And( Bits8 )"),
    ("Sub", "from pymtl3.stdlib.basic_rtl import Subtractor", "Subtractor( Bits8 )"),
    ("ZeroCmp", "from pymtl3.stdlib.basic_rtl import ZeroComparator", "ZeroComparator( Bits8 )"),
    ("LTCmp", "from pymtl3.stdlib.basic_rtl import LTComparator", "LTComparator( Bits8 )"),
    ("LECmp", "from pymtl3.stdlib.basic_rtl import LEComparator", "LEComparator( Bits8 )"),
    ("EqCmp", "from pymtl3.stdlib.basic_rtl.arithmetics import EqComparator", "EqComparator( Bits8 )"),
    ("Arb4", "from pymtl3.stdlib.basic_rtl.arbiters import RoundRobinArbiter", "RoundRobinArbiter( 4 )"),
    ("ArbEn3", "from pymtl3.stdlib.basic_rtl.arbiters import RoundRobinArbiterEn", "RoundRobinArbiterEn( 3 )"),
    ("Xbar", "from pymtl3.stdlib.basic_rtl.crossbars import Crossbar", "Crossbar( 3, Bits8 )"),
    ("Encoder", "from pymtl3.stdlib.basic_rtl.encoders import Encoder", "Encoder( 8, 3 )"),
    ("RF", "from pymtl3.stdlib.basic_rtl import RegisterFile", "RegisterFile( Bits8, 8, 2, 1 )"),
    ("RFconst0", "from pymtl3.stdlib.basic_rtl import RegisterFile", "RegisterFile( Bits32, 32, 2, 1, True )"),
    ("RFRst", "from pymtl3.stdlib.basic_rtl.register_files import RegisterFileRst", "RegisterFileRst( Bits8, 4, 1, 2 )"),
    ("NormalQ2", "from pymtl3.stdlib.queues import NormalQueueRTL", "NormalQueueRTL( Bits8, 2 )"),
    ("NormalQ1", "from pymtl3.stdlib.queues import NormalQueueRTL", "NormalQueueRTL( Bits8, 1 )"),
    ("PipeQ4", "from pymtl3.stdlib.queues import PipeQueueRTL", "PipeQueueRTL( Bits16, 4 )"),
    ("PipeQ1", "from pymtl3.stdlib.queues import PipeQueueRTL", "PipeQueueRTL( Bits16, 1 )"),
    ("BypassQ3", "from pymtl3.stdlib.queues import BypassQueueRTL", "BypassQueueRTL( Bits32, 3 )"),
    ("BypassQ1", "from pymtl3.stdlib.queues import BypassQueueRTL", "BypassQueueRTL( Bits32, 1 )"),
    ("StreamNormalQ", "from pymtl3.stdlib.stream.queues import NormalQueueRTL", "NormalQueueRTL( Bits8, 2 )"),
    ("StreamPipeQ", "from pymtl3.stdlib.stream.queues import PipeQueueRTL", "PipeQueueRTL( Bits8, 2 )"),
    ("StreamBypassQ", "from pymtl3.stdlib.stream.queues import BypassQueueRTL", "BypassQueueRTL( Bits8, 2 )"),
    ("StreamBypassQ1", "from pymtl3.stdlib.stream.queues import BypassQueueRTL", "BypassQueueRTL( Bits8, 1 )"),
    ("EnRdyPipe1", "from pymtl3.stdlib.queues.enrdy_queues import PipeQueue1RTL", "PipeQueue1RTL( Bits8 )"),
    ("EnRdyBypass2", "from pymtl3.stdlib.queues.enrdy_queues import BypassQueue2RTL", "BypassQueue2RTL( Bits8 )"),
    ("EnRdyNormal1", "from pymtl3.stdlib.queues.enrdy_queues import NormalQueue1RTL", "NormalQueue1RTL( Bits8 )"),
    ("CombROM", "from pymtl3.stdlib.mem.ROMRTL import CombinationalROMRTL", "CombinationalROMRTL( 8, [ 1, 2, 3, 4, 5, 6, 7, 8 ] )"),
    ("SeqROM", "from pymtl3.stdlib.mem.ROMRTL import SequentialROMRTL", "SequentialROMRTL( 4, [ 9, 8, 7, 6 ] )"),
    ("QueueStruct", "from pymtl3.stdlib.queues import NormalQueueRTL\nfrom pymtl3.stdlib.mem import mk_mem_msg\nReq, Resp = mk_mem_msg( 8, 32, 32 )",
     "NormalQueueRTL( Req, 2 )"),
    ("QueueStructResp", "from pymtl3.stdlib.queues import BypassQueueRTL\nfrom pymtl3.stdlib.mem import mk_mem_msg\nReq, Resp = mk_mem_msg( 8, 32, 32 )",
     "BypassQueueRTL( Resp, 2 )"),
]

_EXAMPLES = [
    ("ChecksumRTL", "from examples.ex02_cksum.ChecksumRTL import ChecksumRTL", "ChecksumRTL()"),
    ("StepUnit", "from examples.ex02_cksum.ChecksumRTL import StepUnit", "StepUnit()"),
    ("ProcRTL", "from examples.ex03_proc.ProcRTL import ProcRTL", "ProcRTL()"),
    ("ChecksumXcelRTL", "from examples.ex04_xcel.ChecksumXcelRTL import ChecksumXcelRTL", "ChecksumXcelRTL()"),
    ("ProcXcelRTL", "from examples.ex04_xcel.ProcXcel import ProcXcel\nfrom examples.ex03_proc.ProcRTL import ProcRTL\n"
                    "from examples.ex04_xcel.ChecksumXcelRTL import ChecksumXcelRTL", "ProcXcel( ProcRTL, ChecksumXcelRTL )"),
]


def repo_case_names(repo):
    src = open(os.path.join(repo, "pymtl3", "passes", "testcases", "test_cases.py")).read()
    names = re.findall(r"^class (Case\w+)\s*[:(]", src, re.M)
    out = []
    for n in names:
        # only cases with a DUT class of their own or an alias (`DUT = ...`)
        m = re.search(r"^class %s\s*[:(].*?(?=^class |\Z)" % re.escape(n), src, re.M | re.S)
        if m and re.search(r"^\s+(class DUT\b|DUT\s*=)", m.group(0), re.M):
            out.append(n)
    return out


# designs that carry translation metadata (explicit module / file names on the top AND on sub-components) or are
# Verilog placeholders (hand-written source files pickled into the output, several v_libs).  The design module
# defines prepare(top), run by the worker after elaborate() and before the translation pass (the documented
# flow: set_metadata(...), apply( VerilogPlaceholderPass() ), apply( VerilogTranslationPass() )).
# Added after seeded changes C13-C (v_libs de-duplicated through a set: library order depended on the hash
# seed) and C13-D (explicit_module_name honoured for the top only: a child instantiated under a name that is
# never defined).
_META = {}
_META["meta_child_explicit_names"] = _D('''
    from pymtl3.passes.backends.verilog import VerilogTranslationPass
    from pymtl3.passes.backends.yosys import YosysTranslationPass
    class Incr( Component ):
      def construct( s, amount=1 ):
        s.in_ = InPort( 8 )
        s.out = OutPort( 8 )
        K = amount
        @update
        def up():
          s.out @= s.in_ + K
    class Stage( Component ):
      def construct( s ):
        s.in_ = InPort( 8 )
        s.out = OutPort( 8 )
        s.inc = Incr( 3 )
        s.inc.in_ //= s.in_
        s.out //= s.inc.out
    class Top( Component ):
      def construct( s ):
        s.in_ = InPort( 8 )
        s.out = OutPort( 8 )
        s.first  = Stage()
        s.second = Incr( 5 )
        s.third  = Stage()
        s.first.in_  //= s.in_
        s.second.in_ //= s.first.out
        s.third.in_  //= s.second.out
        s.out        //= s.third.out
    def build():
      return Top()
    def prepare( top ):
      for P in ( VerilogTranslationPass, YosysTranslationPass ):
        top.set_metadata( P.explicit_module_name, "TopChip" )
        top.first.set_metadata( P.explicit_module_name, "StageMacro" )
        top.second.set_metadata( P.explicit_module_name, "Bump" )
    ''')
_META["meta_grandchild_explicit_name"] = _D('''
    from pymtl3.passes.backends.verilog import VerilogTranslationPass
    from pymtl3.passes.backends.yosys import YosysTranslationPass
    class Leaf( Component ):
      def construct( s ):
        s.in_ = InPort( 4 )
        s.out = OutPort( 4 )
        s.out //= lambda: ~s.in_
    class Mid( Component ):
      def construct( s ):
        s.in_ = InPort( 4 )
        s.out = OutPort( 4 )
        s.l = [ Leaf() for _ in range(2) ]
        s.l[0].in_ //= s.in_
        s.l[1].in_ //= s.l[0].out
        s.out //= s.l[1].out
    class Top( Component ):
      def construct( s ):
        s.in_ = InPort( 4 )
        s.out = OutPort( 4 )
        s.m = Mid()
        s.m.in_ //= s.in_
        s.out //= s.m.out
    def build():
      return Top()
    def prepare( top ):
      for P in ( VerilogTranslationPass, YosysTranslationPass ):
        top.m.l[1].set_metadata( P.explicit_module_name, "LeafHardMacro" )
        top.set_metadata( P.explicit_file_name, "chip_top" )
    ''')
_META["ph_vlibs_multi"] = _D('''
    import os
    from pymtl3.passes.backends.verilog import VerilogPlaceholder, VerilogPlaceholderPass
    _HERE = os.path.dirname( os.path.abspath( __file__ ) )
    _LIBS = [ "Zeta", "Alpha", "Mid", "Beta", "Omega", "Gamma" ]
    def _w( name, text ):
      p = os.path.join( _HERE, name )
      if not os.path.exists( p ):
        with open( p, "w" ) as f: f.write( text )
      return p
    for _i, _n in enumerate( _LIBS ):
      _w( "phlib_%s.v" % _n, "module PhLib%s ( input logic [7:0] a, output logic [7:0] y );\\n  assign y = a + 8\'d%d;\\nendmodule\\n" % ( _n, _i + 1 ) )
    _w( "PhTop.v", "module PhTop ( input logic clk, input logic reset, input logic [7:0] d, output logic [7:0] q );\\n"
        "  logic [7:0] t0, t1;\\n  PhLibZeta u0 ( .a( d ), .y( t0 ) );\\n  PhLibGamma u1 ( .a( t0 ), .y( t1 ) );\\n  assign q = t1;\\nendmodule\\n" )
    class PhTop( VerilogPlaceholder, Component ):
      def construct( s ):
        s.d = InPort( Bits8 )
        s.q = OutPort( Bits8 )
        s.set_metadata( VerilogPlaceholderPass.src_file, os.path.join( _HERE, "PhTop.v" ) )
        s.set_metadata( VerilogPlaceholderPass.top_module, "PhTop" )
        s.set_metadata( VerilogPlaceholderPass.v_libs, [ os.path.join( _HERE, "phlib_%s.v" % n ) for n in _LIBS ] )
    class Top( Component ):
      def construct( s ):
        s.d = InPort( Bits8 )
        s.q = OutPort( Bits8 )
        s.ph = PhTop()
        s.ph.d //= s.d
        s.q //= s.ph.q
    def build():
      return Top()
    def prepare( top ):
      top.apply( VerilogPlaceholderPass() )
    ''')
# cases of the repository that need the placeholder pass / carry metadata
_META_REPO = [("pymtl3.passes.backends.verilog.testcases.test_cases", n) for n in
              ("CasePlaceholderTranslationVReg", "CasePlaceholderTranslationRegIncr",
               "CaseVLibsTranslation", "CaseMultiPlaceholderImport")]
# (not CaseVIncludePopulation: its hand-written VRegPassThrough.v instantiates VReg without including it - "we
#  assume the include directory is passed to Verilator" - so the undefined module name is in the user's own text)
# cases of the general list that must be in every tier (translation metadata on a sub-component)
_MUST_CASES = ["CaseChildExplicitModuleName"]


def write(ddir, repo, tier, rng):
    """Write the corpus into ddir; return list of dict(id, file, group)."""
    os.makedirs(ddir, exist_ok=True)
    out = []

    def put(i, group, files):
        for fn, src in files.items():
            with open(os.path.join(ddir, fn), "w", encoding="utf-8") as f:
                f.write(src)
        out.append({"id": i, "file": os.path.join(ddir, i + ".py"), "group": group})

    for i, files in _collide(tier != 'quick'):
        put(i, "collide", files)
    for i, imp, expr in _STDLIB:
        put("std_" + i, "stdlib", {"std_" + i + ".py": PRE + imp + "\ndef build():\n  return " + expr + "\n"})
    for i, imp, expr in _EXAMPLES:
        put("ex_" + i, "example", {"ex_" + i + ".py": PRE + imp + "\ndef build():\n  return " + expr + "\n"})
    for i, src in _META.items():
        put(i, "meta", {i + ".py": PRE + src})
    for modn, n in _META_REPO:
        put("vcase_" + n, "meta", {"vcase_" + n + ".py":
            "from %s import %s\nfrom pymtl3.passes.backends.verilog import VerilogPlaceholderPass\n"
            "def build():\n  return %s.DUT()\ndef prepare( top ):\n  top.apply( VerilogPlaceholderPass() )\n" % (modn, n, n)})
    cases = repo_case_names(repo)
    if tier == "quick":
        cases = sorted(set(rng.sample(cases, min(len(cases), 70))) | {n for n in _MUST_CASES if n in cases})
    for n in cases:
        put("case_" + n, "repo", {"case_" + n + ".py":
            "from pymtl3.passes.testcases.test_cases import %s\ndef build():\n  return %s.DUT()\n" % (n, n)})
    only = os.environ.get("VERIF_C13_ONLY")          # development: restrict the corpus to ids matching a regex
    if only:
        out = [d for d in out if re.search(only, d["id"])]
    return out
