"""Harness tops for C18's delay-pipe part: the real DelayPipeDeqCL / DelayPipeSendCL / StallCL inside a
top with a producer block, a consumer block (or a CL callee with a controllable rdy) and the
observations of one cycle; a software delay pipe with the same driver interface (for the canaries:
it can be made to deliver early, swap two messages, drop one); drivers for random histories.

This module must stay a real .py file: its update blocks are parsed by pymtl3.  pymtl3's own
M()/U() constraints order the blocks; `order` adds U(producer) < U(consumer) (1) or the opposite (2)
where the pipe leaves the order open (DelayPipeDeqCL with delay >= 1 promises the same outcome).

One cycle = one `step(eo, do, st=None)`; the observation has the vocabulary of spec/DelayPipe.tla:
  eo, m   the producer offered message m (serial number; 0 when it did not offer)
  do      kind deq: the consumer block calls deq() if deq.rdy(); kind send: recv.rdy() of the consumer
  st      stall decision: scripted (walk), read from the tapped random stream, or None (no StallCL)
  er, ex  enq.rdy() seen by the producer block, message handed over
  dr, dx  kind deq: deq.rdy() seen by the consumer block, deq() called; kind send: dr = dx = recv() was called
  g       kind deq: peek() when dr (the message at the exit); kind send: the message received; 0 = none
  p       list(pipeline) after the cycle (0 = None): the projected state
"""
from random import Random

from pymtl3 import Bits32, Component, DefaultPassGroup, M, U, non_blocking, update_once

from pymtl3.stdlib.delays.DelayPipeCL import DelayPipeDeqCL, DelayPipeSendCL
from pymtl3.stdlib.delays.StallCL import StallCL


class Ctl:
    """Plain shared state between the driver and the harness blocks."""

    def __init__(s):
        s.eo = False
        s.msg = None
        s.do = False
        s.clear()

    def clear(s):
        s.er = s.ex = s.dr = s.dx = False
        s.got = []
        s.peeked = None
        s.ncalls = 0


class Script:
    """Stands in for StallCL.stall_rgen in the graph walk: the walk dictates the draw."""

    def __init__(s):
        s.stall = False
        s.n = 0

    def random(s):
        s.n += 1
        return 0.0 if s.stall else 1.0


class Tap:
    """Wraps the real seeded Random of a StallCL instance: same stream, draws recorded."""

    def __init__(s, rgen):
        s.rgen = rgen
        s.draws = []

    def random(s):
        x = s.rgen.random()
        s.draws.append(x)
        return x


class CtlSinkCL(Component):
    """CL callee whose rdy is whatever the driver says for this cycle."""

    def construct(s, ctl):
        s.ctl = ctl

    @non_blocking(lambda s: s.ctl.do)
    def recv(s, msg):
        s.ctl.got.append(msg)
        s.ctl.dx = True

    def line_trace(s):
        return ""


class DeqTop(Component):

    def construct(s, delay, ctl, stall, order):
        s.ctl = ctl
        s.pipe = DelayPipeDeqCL(delay)
        if stall is not None:
            s.stall = StallCL(stall[0], stall[1])
            s.stall.send //= s.pipe.enq

            @update_once
            def up_prod_stall():
                c = s.ctl
                c.er = bool(s.stall.recv.rdy())
                if c.eo and c.er:
                    s.stall.recv(c.msg)
                    c.ex = True
            prod = up_prod_stall
        else:
            @update_once
            def up_prod():
                c = s.ctl
                c.er = bool(s.pipe.enq.rdy())
                if c.eo and c.er:
                    s.pipe.enq(c.msg)
                    c.ex = True
            prod = up_prod

        @update_once
        def up_cons():
            c = s.ctl
            c.dr = bool(s.pipe.deq.rdy())
            if c.dr:
                c.peeked = s.pipe.peek()
                if c.do:
                    c.got.append(s.pipe.deq())
                    c.dx = True

        if order == 1:
            s.add_constraints(U(prod) < U(up_cons))
        elif order == 2:
            s.add_constraints(U(up_cons) < U(prod))

    def line_trace(s):
        return ""


class SendTop(Component):

    def construct(s, delay, ctl, stall, order):
        s.ctl = ctl
        s.pipe = DelayPipeSendCL(delay)
        s.sink = CtlSinkCL(ctl)
        s.pipe.send //= s.sink.recv
        if stall is not None:
            s.stall = StallCL(stall[0], stall[1])
            s.stall.send //= s.pipe.enq

            @update_once
            def up_prod_stall():
                c = s.ctl
                c.er = bool(s.stall.recv.rdy())
                if c.eo and c.er:
                    s.stall.recv(c.msg)
                    c.ex = True
        else:
            @update_once
            def up_prod():
                c = s.ctl
                c.er = bool(s.pipe.enq.rdy())
                if c.eo and c.er:
                    s.pipe.enq(c.msg)
                    c.ex = True

    def line_trace(s):
        return ""


def _num(x):
    return 0 if x is None else int(x)


class RealPipe:
    """The real classes behind the driver interface."""

    def __init__(s, kind, delay, stall=None, order=0, scripted=False, base=0):
        s.kind, s.delay, s.base = kind, delay, base
        s.ctl = Ctl()
        s.top = (DeqTop if kind == "deq" else SendTop)(delay, s.ctl, stall, order)
        s.top.elaborate()
        s.script = s.tap = None
        if stall is not None:
            if scripted:
                s.script = s.top.stall.stall_rgen = Script()
            else:
                s.tap = s.top.stall.stall_rgen = Tap(s.top.stall.stall_rgen)
        s.stall_prob = stall[0] if stall is not None else None
        s.top.apply(DefaultPassGroup())
        s.top.sim_reset()
        s.ctl.clear()

    def schedule(s):
        return [f.__name__ for f in s.top._sched.update_schedule] if hasattr(s.top, "_sched") else []

    def proj(s):
        p = getattr(s.top.pipe, "pipeline", None)
        return [] if p is None else [(_num(x) - s.base if x is not None else 0) for x in p]

    def step(s, eo, m, do, st=None):
        c = s.ctl
        c.clear()
        c.eo, c.do = bool(eo), bool(do)
        c.msg = Bits32(s.base + m) if eo else None
        if s.script is not None:
            s.script.stall = bool(st)
        nd = len(s.tap.draws) if s.tap is not None else 0
        s.top.sim_tick()
        if s.tap is not None:
            draws = s.tap.draws[nd:]
            # ready <=> draw > stall_prob; the producer block evaluates recv.rdy() once per cycle
            st = None if len(draws) != 1 else (not draws[0] > s.stall_prob)
        g = 0
        if s.kind == "deq":
            if c.dr:
                g = _num(c.peeked) - s.base
            if c.dx and (len(c.got) != 1 or _num(c.got[0]) - s.base != g):
                g = -1 if len(c.got) != 1 else _num(c.got[0]) - s.base   # deq() returned something else than peek()
            dr = c.dr
        else:
            dr = c.dx
            if c.dx:
                g = _num(c.got[0]) - s.base if len(c.got) == 1 else -1
        return {"eo": int(bool(eo)), "m": int(m) if eo else 0, "do": int(bool(do)),
                "st": -1 if st is None else int(bool(st)),
                "er": int(c.er), "ex": int(c.ex), "dr": int(dr), "dx": int(c.dx), "g": g, "p": s.proj()}


class SoftPipe:
    """A software delay pipe written from the description in spec/DelayPipe.tla, with the driver
    interface of RealPipe.  fault: None | "early" (deliverable one cycle early) | "swap" (two
    neighbouring messages exchanged once) | "drop" (one message vanishes while the pipe advances)."""

    def __init__(s, kind, delay, fault=None, fault_at=2):
        s.kind, s.delay, s.fault, s.fault_at = kind, delay, fault, fault_at
        n = delay + 1 if kind == "deq" else delay
        s.p = [0] * n
        s.nacc = 0
        s.done_fault = False

    def proj(s):
        return list(s.p)

    def _rot(s):
        if s.p:
            s.p = [s.p[-1]] + s.p[:-1]

    def _maybe_fault(s):
        occ = [i for i, x in enumerate(s.p) if x]
        if s.done_fault or s.nacc < s.fault_at:
            return
        if s.fault == "swap" and len(occ) >= 2:
            i, j = occ[0], occ[1]
            s.p[i], s.p[j] = s.p[j], s.p[i]
            s.done_fault = True
        elif s.fault == "drop" and len(occ) >= 1:
            s.p[occ[0]] = 0
            s.done_fault = True

    def _put(s, m):
        """enq: slot 0 -- or, fault 'early', one slot further (at the exit a cycle too soon)"""
        if s.fault == "early" and not s.done_fault and s.nacc >= s.fault_at and len(s.p) >= 2 and s.p[1] == 0:
            s.p[1] = m
            s.done_fault = True
        else:
            s.p[0] = m

    def step(s, eo, m, do, st=None):
        st = bool(st) if st is not None and st != -1 else False
        eoe = bool(eo) and not st
        p, d = s.p, s.delay
        er = ex = dr = dx = False
        g = 0
        if s.kind == "deq":
            if d == 0:
                er = p[0] == 0
                ex = eoe and er
                if ex:
                    p[0] = m
                dr = p[0] != 0
                g = p[0]
                dx = bool(do) and dr
                if dx:
                    p[0] = 0
            else:
                if p[-1] == 0:
                    s._rot()
                    p = s.p
                er = p[0] == 0
                ex = eoe and er
                dr = p[-1] != 0
                g = p[-1]
                dx = bool(do) and dr
                if dx:
                    p[-1] = 0
                if ex:
                    s._put(m)
        else:
            if d == 0:
                er = bool(do)
                ex = dr = dx = eoe and er
                g = m if ex else 0
            else:
                if p[-1] != 0:
                    if do:
                        g, dx, dr = p[-1], True, True
                        p[-1] = 0
                        s._rot()
                else:
                    s._rot()
                p = s.p
                er = p[0] == 0
                ex = eoe and er
                if ex:
                    s._put(m)
        if ex:
            s.nacc += 1
        s._maybe_fault()
        er = er and not st
        return {"eo": int(bool(eo)), "m": int(m) if eo else 0, "do": int(bool(do)), "st": int(st),
                "er": int(er), "ex": int(ex), "dr": int(dr), "dx": int(dx), "g": g, "p": list(s.p)}


# ----------------------------------------------------------------------------------------------
# random bursty histories (code -> spec)
# ----------------------------------------------------------------------------------------------

def _pattern(R, n):
    """n Booleans: bursts / gaps / coin flips, chosen per segment."""
    out = []
    while len(out) < n:
        mode = R.choice(["on", "on", "off", "coin", "coin", "rare", "alt"])
        ln = R.randint(1, 14)
        if mode == "on":
            out += [True] * ln
        elif mode == "off":
            out += [False] * ln
        elif mode == "coin":
            pr = R.choice([.2, .5, .8])
            out += [R.random() < pr for _ in range(ln)]
        elif mode == "rare":
            out += [R.random() < .1 for _ in range(ln)]
        else:
            out += [bool(i & 1) for i in range(ln)]
    return out[:n]


def run_history(job):
    """job: dict(kind, delay, stall (None | [prob, seed]), order, ncycles, seed).  Drives the real
    pipe with a bursty producer / consumer, then drains it.  Returns the trace dict."""
    R = Random(job["seed"])
    kind, d = job["kind"], job["delay"]
    stall = tuple(job["stall"]) if job.get("stall") else None
    try:
        dut = (RealPipe(kind, d, stall, job.get("order", 0)) if not job.get("soft")
               else SoftPipe(kind, d, job.get("fault"), job.get("fault_at", 2)))
        n = job["ncycles"]
        eos, dos = _pattern(R, n), _pattern(R, n)
        ev = []
        nxt = 1
        for c in range(n):
            e = dut.step(eos[c], nxt if eos[c] else 0, dos[c])
            if e["ex"]:
                nxt += 1
            ev.append(e)
        # drain: no offers, consumer always ready; delay + 2 cycles per message that may be inside
        for c in range((d + 2) * (d + 3) + 4):
            ev.append(dut.step(False, 0, True))
    except Exception as ex:          # an exception inside the simulated design is reported
        import traceback
        return {"exc": "%s: %s" % (type(ex).__name__, ex), "tb": traceback.format_exc()[-1500:], "job": job}
    return {"kind": kind, "d": d, "stall": stall is not None, "ev": ev, "nacc": nxt - 1, "job": job,
            "sched": dut.schedule() if hasattr(dut, "schedule") else []}
