"""Harness hierarchies and class palettes for C15 (replace_component histories).

Static source file: pymtl3 parses update blocks with inspect.getsourcelines, so the palette classes
must live in a real module.  Nothing here is derived from the repository; pymtl3 is imported from
$VERIF_REPO by the caller (common.use_repo()).

Three families, each with its own harness hierarchy, positions and per-position palettes; all
classes that fit one position have the SAME port interface (that is what makes them exchangeable by
replace_component) but differ in KIND (pure RTL, registers driving the port, internal method nets
with no external method port, nested children with value nets between grand-children, internal
constants and slice connections, placeholders, and - for a hosting position - wrapper classes):

  RTL  ports in_ : InPort(Bits8), en : InPort(Bits1), out : OutPort(Bits8);  construct(s, k)
  PB   "parent blocks": five in-ports (one per kind of parent block that writes it), a struct
       in-port, out-port, struct out-port and a nested child x; the harness reads / writes them
       from @update, @update_ff, @update_once, lambda and @s.func blocks, whole / slice / field,
       and reads a grand-child's port through the child
  CL   callee method ports enq(msg), deq(), tag() (stateless), plus a non-blocking interface peek
       (CalleeIfcCL)

Position names are the strings used in Replace.tla (`a`, `c[0]`, `d[0][1]`, `m`, `m.g`, ...); the
full name of the component at a position is "s." + position.  A hosting position (`m`, `w`) has the
nested position (`m.g`, `w.foo`) below it: its classes are constructed with the CLASS of the nested
component as argument.

FAMILIES (end of file) describes every family for harness/c15_proj.py.
"""
from collections import deque

from pymtl3 import *                                   # noqa: F401,F403
from pymtl3.dsl import (CalleeIfcCL, CalleePort, CallerPort, M, Placeholder, U, RD, WR, method_port,
                        non_blocking, update_once)

# ======================================================================================
# RTL palette
# ======================================================================================


class Comb(Component):
    """one @update block"""
    def construct(s, k=1):
        s.in_ = InPort(Bits8)
        s.en = InPort(Bits1)
        s.out = OutPort(Bits8)

        @update
        def up_comb():
            s.out @= s.in_ + k


class Reg(Component):
    """@update_ff block, a wire, an internal net (out <- r)"""
    def construct(s, k=1):
        s.in_ = InPort(Bits8)
        s.en = InPort(Bits1)
        s.out = OutPort(Bits8)
        s.r = Wire(Bits8)

        @update_ff
        def up_reg():
            if s.reset:
                s.r <<= 0
            elif s.en:
                s.r <<= s.in_ + k

        s.out //= s.r


class Lam(Component):
    """lambda blocks (names derived from the signal's full name)"""
    def construct(s, k=1):
        s.in_ = InPort(Bits8)
        s.en = InPort(Bits1)
        s.out = OutPort(Bits8)
        s.t = Wire(Bits8)
        s.t //= lambda: s.in_ ^ k
        s.out //= lambda: s.t + 1


class Cons(Component):
    """two blocks with explicit U-U, RD-U and WR-U constraints"""
    def construct(s, k=1):
        s.in_ = InPort(Bits8)
        s.en = InPort(Bits1)
        s.out = OutPort(Bits8)
        s.w = Wire(Bits8)
        s.v = Wire(Bits8)

        @update
        def up_a():
            s.w @= s.in_ + k
            s.v @= s.in_ & 15

        @update
        def up_b():
            s.out @= s.w | s.v

        s.add_constraints(
            U(up_a) < U(up_b),
            WR(s.w) < U(up_b),
            RD(s.v) > U(up_a),
        )


class Func(Component):
    """@s.func helpers called from an update block (reads/writes merged into the block)"""
    def construct(s, k=1):
        s.in_ = InPort(Bits8)
        s.en = InPort(Bits1)
        s.out = OutPort(Bits8)
        s.acc = Wire(Bits8)

        @s.func
        def f_rd():
            s.acc @= s.in_ - k

        @s.func
        def f_wr():
            f_rd()
            s.out @= s.acc

        @update
        def up_func():
            f_wr()


class Slc(Component):
    """slices connected to slices (sliced signals are named objects of the component)"""
    def construct(s, k=1):
        s.in_ = InPort(Bits8)
        s.en = InPort(Bits1)
        s.out = OutPort(Bits8)
        s.out[0:4] //= s.in_[4:8]
        s.out[4:8] //= s.in_[0:4]


class Nest(Component):
    """nested children, a list of children, constants connected to children's in-ports, a block
    reading a child's out-port"""
    def construct(s, k=1):
        s.in_ = InPort(Bits8)
        s.en = InPort(Bits1)
        s.out = OutPort(Bits8)
        s.x = Comb(k)
        s.y = [Reg(k + 1), Lam(k + 2)]
        s.x.in_ //= s.in_
        s.x.en //= 0
        s.y[0].in_ //= s.x.out
        s.y[0].en //= s.en
        s.y[1].in_ //= s.y[0].out
        s.y[1].en //= 1

        @update
        def up_nest():
            s.out @= s.y[1].out + s.x.out



class AddCL(Component):
    """method-only helper (no value port at all)"""
    def construct(s, k=1):
        s.k = k

    @method_port
    def add(s, x):
        return x + s.k


class Mix(Component):
    """RTL interface, CL inside: a CallerPort connected to a sub-component's CalleePort (a method net
    that lives entirely inside the component) and an update_once block; no external method port"""
    def construct(s, k=1):
        s.in_ = InPort(Bits8)
        s.en = InPort(Bits1)
        s.out = OutPort(Bits8)
        s.adder = AddCL(k)
        s.add = CallerPort()
        s.add //= s.adder.add

        @update_once
        def up_mix():
            s.out @= s.add(s.in_)


class RegO(Component):
    """an update_ff block drives the out-port itself (the port is the register)"""
    def construct(s, k=1):
        s.in_ = InPort(Bits8)
        s.en = InPort(Bits1)
        s.out = OutPort(Bits8)

        @update_ff
        def up_rego():
            if s.reset:
                s.out <<= 0
            elif s.en:
                s.out <<= s.in_ - k


class Hold(Placeholder, Component):
    """placeholder: ports only"""
    def construct(s, k=1):
        s.in_ = InPort(Bits8)
        s.en = InPort(Bits1)
        s.out = OutPort(Bits8)


RTL_PALETTE = {"Comb": Comb, "Reg": Reg, "Lam": Lam, "Cons": Cons, "Func": Func, "Slc": Slc,
               "Nest": Nest, "Mix": Mix, "RegO": RegO, "Hold": Hold}

# ======================================================================================
# RTL harness hierarchy
# ======================================================================================

RTL_POSITIONS = ["a", "c[0]", "c[1]", "d[0][1]", "d[1][0]", "m", "m.g"]
RTL_FIXED = {"d[0][0]": "Comb", "d[1][1]": "Reg"}     # non-replaceable neighbours in the 2-D list
RTL_K = {"a": 1, "c[0]": 2, "c[1]": 3, "d[0][0]": 4, "d[0][1]": 5, "d[1][0]": 6, "d[1][1]": 7, "m.g": 9}


class Mid(Component):
    """hosts the grand-child position m.g: connection, constant and update block at the parent"""
    def construct(s, G):
        s.in_ = InPort(Bits8)
        s.out = OutPort(Bits8)
        s.g = G(RTL_K["m.g"])
        s.g.in_ //= s.in_
        s.g.en //= 1

        @update
        def up_mid():
            s.out @= s.g.out + 1

        # value constraint declared by the parent on a port of the grand-child
        s.add_constraints(RD(s.g.out) > U(up_mid))


class MidB(Component):
    """same interface as Mid, other kinds of blocks around the grand-child: an update_ff block writes
    its in-port, a lambda reads its out-port"""
    def construct(s, G):
        s.in_ = InPort(Bits8)
        s.out = OutPort(Bits8)
        s.g = G(RTL_K["m.g"])
        s.g.in_ //= s.in_

        @update_ff
        def ff_midb():
            s.g.en <<= ~s.g.en

        s.out //= lambda: s.g.out ^ 3


RTL_HOSTS = {"Mid": Mid, "MidB": MidB}


class RtlTop(Component):
    def construct(s, cfg):
        P = RTL_PALETTE
        K = RTL_K
        s.in_ = InPort(Bits8)
        s.en = InPort(Bits1)
        s.out = [OutPort(Bits8) for _ in range(4)]
        s.tmp = Wire(Bits8)

        s.a = P[cfg["a"]](K["a"])
        s.c = [P[cfg["c[%d]" % i]](K["c[%d]" % i]) for i in range(2)]
        s.d = [[P[cfg.get("d[%d][%d]" % (i, j), RTL_FIXED.get("d[%d][%d]" % (i, j)))](K["d[%d][%d]" % (i, j)])
                for j in range(2)] for i in range(2)]
        s.m = RTL_HOSTS[cfg["m"]](P[cfg["m.g"]])

        # plain child: connections from top-level ports
        s.a.in_ //= s.in_
        s.a.en //= s.en

        # list elements: sibling-to-sibling connection, constant, parent-level blocks that write a
        # child's in-port / read a child's out-port, parent-level lambda writing a child's in-port
        s.c[0].in_ //= s.a.out
        s.c[0].en //= 1

        @update
        def up_c1():
            s.c[1].in_ @= zext(s.c[0].out[0:7], 8)   # reads a slice of a child's out-port

        s.c[1].en //= lambda: s.en & s.in_[0]
        s.out[0] //= s.c[1].out

        # 2-D list: chain through replaceable and fixed elements; parent-level function reading a
        # child's out-port
        s.d[0][0].in_ //= s.in_
        s.d[0][0].en //= s.en
        s.d[0][1].in_ //= s.d[0][0].out
        s.d[0][1].en //= s.a.out[0]            # slice of another position's out-port
        s.d[1][0].in_ //= s.d[0][1].out
        s.d[1][0].en //= s.d[1][0].out[7]      # connection between two ports of the same child
        s.d[1][1].in_ //= s.d[1][0].out
        s.d[1][1].en //= s.en

        @s.func
        def f_d():
            s.tmp @= s.d[1][0].out ^ s.d[1][1].out

        @update
        def up_d():
            f_d()

        s.out[1] //= s.tmp

        # grand-child
        s.m.in_ //= s.a.out
        s.out[2] //= s.m.out
        s.out[3] //= s.d[0][1].out


# ======================================================================================
# PB family: parent blocks of every kind x {read, write} x {in-port, out-port, slice, field,
# grand-child port through the child}
# ======================================================================================


@bitstruct
class Pair:
    a: Bits4
    b: Bits4


def _pb_ports(s):
    s.iu = InPort(Bits8)      # written by a parent @update block
    s.if_ = InPort(Bits8)     # written by a parent @update_ff block (a register that is the child's port)
    s.il = InPort(Bits8)      # written by a parent lambda
    s.ifn = InPort(Bits8)     # written slice-wise (a @s.func helper / an @update block of the parent)
    s.io = InPort(Bits8)      # written by a parent @update_once block
    s.ist = InPort(Pair)      # written field-wise by the parent
    s.o = OutPort(Bits8)
    s.ost = OutPort(Pair)


class PLeaf(Component):
    def construct(s, k=1):
        s.in_ = InPort(Bits8)
        s.out = OutPort(Bits8)

        @update
        def up_leaf():
            s.out @= s.in_ + k


class PComb(Component):
    """one @update block; reads / writes the struct ports field-wise (the same fields the parent
    mentions)"""
    def construct(s, k=1):
        _pb_ports(s)
        s.x = PLeaf(k)
        s.x.in_ //= s.iu

        @update
        def up_pc():
            s.o @= s.x.out + s.if_ + s.il + s.ifn + s.io
            s.ost.a @= s.ist.b ^ k
            s.ost.b @= s.ist.a


class PReg(Component):
    """update_ff registers: one block writes the out-port itself, another a wire connected to the
    struct out-port"""
    def construct(s, k=1):
        _pb_ports(s)
        s.x = PLeaf(k)
        s.x.in_ //= s.if_
        s.acc = Wire(Bits8)
        s.rst = Wire(Pair)

        @update_ff
        def ff_pr():
            if s.reset:
                s.o <<= 0
                s.acc <<= 0
            else:
                s.o <<= s.x.out + s.iu + s.acc
                s.acc <<= s.il + s.ifn + s.io

        @update_ff
        def ff_pr2():
            s.rst <<= s.ist

        s.ost //= s.rst


class PMix(Component):
    """CL inside: an internal method net (CallerPort - sub-component CalleePort) and an update_once
    block; no external method port"""
    def construct(s, k=1):
        _pb_ports(s)
        s.x = PLeaf(k)
        s.x.in_ //= s.iu
        s.adder = AddCL(k)
        s.add = CallerPort()
        s.add //= s.adder.add

        @update_once
        def once_pm():
            s.o @= s.add(s.x.out + s.if_) ^ s.il ^ s.ifn ^ s.io

        @update
        def up_pm():
            s.ost @= s.ist


class PNest(Component):
    """more nested children: a value net between two grand-children, a constant, internal
    connections between slices of ports and between struct fields"""
    def construct(s, k=1):
        _pb_ports(s)
        s.x = PLeaf(k)
        s.y = PLeaf(k + 1)
        s.z = [PLeaf(k + 2 + i) for i in range(2)]
        s.x.in_ //= s.iu
        s.y.in_ //= s.x.out
        s.z[0].in_ //= s.if_
        s.z[1].in_ //= 7
        s.w = Wire(Bits8)
        s.w[0:4] //= s.y.out[0:4]
        s.w[4:8] //= s.z[0].out[4:8]
        s.ost.a //= s.ist.b
        s.ost.b //= s.ist.a

        @update
        def up_pn():
            s.o @= s.w + s.z[1].out + s.il + s.ifn + s.io


PB_PALETTE = {"PComb": PComb, "PReg": PReg, "PMix": PMix, "PNest": PNest}
PB_POSITIONS = ["c", "l[0]", "l[1]", "m", "m.g", "h.g", "h.e[1]"]
PB_K = {"c": 1, "l[0]": 2, "l[1]": 4, "m.g": 9, "h.g": 6, "h.e[1]": 3}


class PBMid(Component):
    """hosts the grand-child position m.g; connections, a constant, @update, @update_ff and lambda
    blocks at the level of the hosting component"""
    def construct(s, G):
        s.in_ = InPort(Bits8)
        s.o = OutPort(Bits8)
        s.q = OutPort(Bits4)
        s.g = G(PB_K["m.g"])
        s.f = PLeaf(3)                  # a second, fixed child (read from the top through this component)
        s.f.in_ //= s.in_
        s.g.iu //= s.in_
        s.g.ifn //= 3
        s.g.io //= s.in_

        @update_ff
        def ff_mid():
            s.g.if_ <<= s.in_ + 2

        s.g.il //= lambda: s.in_ ^ 9

        @update
        def up_mid():
            s.g.ist.a @= s.in_[0:4]
            s.g.ist.b @= s.in_[4:8]

        s.o //= s.g.o
        s.q //= s.g.ost.a


class PBMidB(Component):
    """same interface; every port of the grand-child is handled by another kind of block / connection
    than in PBMid"""
    def construct(s, G):
        s.in_ = InPort(Bits8)
        s.o = OutPort(Bits8)
        s.q = OutPort(Bits4)
        s.g = G(PB_K["m.g"])
        s.f = PLeaf(3)
        s.f.in_ //= s.in_

        @update
        def up_midb():
            s.g.iu @= s.in_
            s.g.il @= s.in_ + 1

        @update_ff
        def ff_midb():
            s.g.if_ <<= s.in_
            s.g.io <<= s.in_ ^ 1

        s.g.ifn //= lambda: s.in_ & 15
        s.g.ist.a //= s.in_[0:4]
        s.g.ist.b //= s.in_[4:8]
        s.o //= lambda: s.g.o + 1

        @update
        def up_q():
            s.q @= s.g.ost.a


PB_HOSTS = {"PBMid": PBMid, "PBMidB": PBMidB}


class PBFix(Component):
    """fixed (not replaceable) host of the position h.g, whose port a block of the TOP reads"""
    def construct(s, G, E=None):
        s.in_ = InPort(Bits8)
        s.o = OutPort(Bits8)
        s.g = G(PB_K["h.g"])
        s.st = Wire(Pair)
        # a LIST of children below a component that is not the top: element 1 is the position h.e[1]
        E = E or G
        s.oe = OutPort(Bits8)
        s.e = [PB_PALETTE[sorted(PB_PALETTE)[0]](5), E(PB_K["h.e[1]"])]
        for x in s.e:
            x.iu //= s.in_
            x.if_ //= s.in_
            x.il //= s.in_
            x.ifn //= 1
            x.io //= s.in_
            x.ist //= s.st
        s.oe //= s.e[1].o
        s.g.iu //= s.in_
        s.g.if_ //= s.in_
        s.g.il //= s.in_
        s.g.ifn //= 1
        s.g.io //= s.in_
        s.g.ist //= s.st
        s.o //= s.g.o

        @update
        def up_fix():
            s.st.a @= s.in_[4:8]
            s.st.b @= s.in_[0:4]


class PBTop(Component):
    def construct(s, cfg):
        P = PB_PALETTE
        K = PB_K
        s.in_ = InPort(Bits8)
        s.en = InPort(Bits1)
        s.out = [OutPort(Bits8) for _ in range(9)]
        s.r0 = Wire(Bits8)
        s.t_once = Wire(Bits8)
        s.t0 = Wire(Bits8)
        s.t1 = Wire(Bits4)
        s.t2 = Wire(Bits4)
        s.t3 = Wire(Bits8)
        s.t4 = Wire(Bits8)
        s.t5 = Wire(Bits4)
        s.t6 = Wire(Bits8)

        s.c = P[cfg["c"]](K["c"])
        s.l = [P[cfg["l[%d]" % i]](K["l[%d]" % i]) for i in range(2)]
        s.m = PB_HOSTS[cfg["m"]](P[cfg["m.g"]])
        s.h = PBFix(P[cfg["h.g"]], P[cfg["h.e[1]"]])

        # ---- plain child c: every kind of block writes one of its in-ports ...
        @update
        def up_wu():                       # @update: whole in-port and a field of the struct in-port
            s.c.iu @= s.in_ + 1
            s.c.ist.a @= s.in_[0:4]

        @update
        def up_wu2():                      # @update: the other field and a slice of an in-port
            s.c.ist.b @= s.in_[4:8]
            s.c.ifn[4:8] @= s.in_[0:4]

        @update_ff
        def ff_w():                        # @update_ff: the child's in-port is a register of the parent;
            s.c.if_ <<= s.in_ ^ 85         # the block also reads a slice of the child's out-port
            s.r0 <<= zext(s.c.o[0:4], 8)

        s.c.il //= lambda: s.in_ + 3       # lambda writes an in-port

        @s.func
        def f_w():                         # @s.func helper writes the other slice
            s.c.ifn[0:4] @= s.in_[4:8]

        @update
        def up_f():
            f_w()

        @update_once
        def once_w():                      # @update_once writes an in-port
            s.c.io @= s.in_ - 1

        @update_once
        def once_r():                      # @update_once reads a slice of the out-port
            s.t_once @= zext(s.c.o[4:8], 8)

        # ---- ... and reads its out-ports (whole / field), a grand-child's port through it, and the
        #      in-ports the parent drives
        @update
        def up_r():
            s.t0 @= s.c.o + s.c.x.out

        s.t1 //= lambda: s.c.ost.a + 1

        @s.func
        def f_r():
            s.t2 @= s.c.ost.b

        @update
        def up_fr():
            f_r()

        s.t3 //= lambda: s.c.iu & s.c.if_

        # ---- list elements: blocks over all elements, sibling connections, slices, constant, struct
        @update
        def up_l():
            for i in range(2):
                s.l[i].iu @= s.in_ + i

        @update_ff
        def ff_l():
            for i in range(2):
                s.l[i].if_ <<= s.c.o

        s.l[0].il //= s.c.o
        s.l[1].il //= s.l[0].o
        s.l[0].ifn //= 5
        s.l[1].ifn[0:4] //= s.in_[0:4]
        s.l[1].ifn[4:8] //= s.l[0].o[4:8]
        s.l[0].io //= lambda: zext(s.en, 8)
        s.l[1].io //= s.in_
        s.l[0].ist //= s.c.ost
        s.l[1].ist //= s.l[0].ost

        @update
        def up_lr():
            s.t4 @= s.l[0].o ^ s.l[1].o

        s.t5 //= lambda: s.l[1].ost.a

        # ---- hosting position m: a block of the top reads a port of m's fixed child through m;
        #      position h.g below the fixed host h: a block TWO levels above the replaced component
        #      reads its port
        s.m.in_ //= s.c.o
        s.h.in_ //= s.in_

        @update
        def up_deep():
            s.t6 @= s.h.g.o + s.m.f.out + s.m.o

        s.out[0] //= s.r0
        s.out[1] //= s.t_once
        s.out[2] //= s.t0
        s.out[3] //= lambda: zext(s.t1, 8) + zext(s.t2, 8)
        s.out[4] //= s.t3
        s.out[5] //= s.t4
        s.out[6] //= lambda: zext(s.t5, 8) + zext(s.m.q, 8)
        s.out[7] //= s.t6
        s.out[8] //= s.l[1].o


# ======================================================================================
# CL palette:  enq(msg) / deq() callee ports and a non-blocking `peek` interface
# ======================================================================================


class QByp(Component):
    def construct(s):
        s.q = deque()
        s.add_constraints(M(s.enq) < M(s.deq), M(s.deq) < M(s.peek))

    @method_port
    def enq(s, msg):
        s.q.appendleft(msg)

    @method_port
    def deq(s):
        return s.q.pop() if s.q else None

    @method_port
    def tag(s):
        return 1

    @non_blocking(lambda s: len(s.q) > 0)
    def peek(s):
        return s.q[-1]


class QPipe(Component):
    def construct(s):
        s.q = deque()
        s.add_constraints(M(s.deq) < M(s.enq), M(s.peek) < M(s.deq))

    @method_port
    def enq(s, msg):
        s.q.appendleft(msg)

    @method_port
    def deq(s):
        return s.q.pop() if s.q else None

    @method_port
    def tag(s):
        return 2

    @non_blocking(lambda s: len(s.q) > 0)
    def peek(s):
        return s.q[-1]


class QCnt(Component):
    """update_once block and U-M constraints"""
    def construct(s):
        s.q = deque()
        s.n = 0

        @update_once
        def up_cnt():
            s.n += 1

        s.add_constraints(U(up_cnt) < M(s.enq), M(s.enq) < M(s.deq), U(up_cnt) < M(s.peek),
                          M(s.deq) < M(s.peek))

    @method_port
    def enq(s, msg):
        s.q.appendleft((msg + s.n) & 255)

    @method_port
    def deq(s):
        return s.q.pop() if s.q else None

    @method_port
    def tag(s):
        return 3

    @non_blocking(lambda s: len(s.q) > 0)
    def peek(s):
        return s.q[-1]


class QNest(Component):
    """callee ports forwarded to a nested child; own update_once block calling the child"""
    def construct(s):
        s.enq = CalleePort()
        s.deq = CalleePort()
        s.peek = CalleeIfcCL()
        s.tag = CalleePort()
        s.inner = QByp()
        s.inner.enq //= s.enq
        s.inner.deq //= s.deq
        s.inner.peek //= s.peek
        s.inner.tag //= s.tag


class Cnt(Component):
    """RTL register: out <= out + inc"""
    def construct(s):
        s.inc = InPort(Bits8)
        s.out = OutPort(Bits8)

        @update_ff
        def ff_cnt():
            if s.reset:
                s.out <<= 0
            else:
                s.out <<= s.out + s.inc


class QReg(Component):
    """method interface, RTL inside: a register sub-component fed by a constant through a wire (value
    nets, a constant and an update_ff block inside a component of a CL design)"""
    def construct(s):
        s.q = deque()
        s.cnt = Cnt()
        s.step = Wire(Bits8)
        s.step //= 2
        s.cnt.inc //= s.step
        s.add_constraints(M(s.enq) < M(s.deq), M(s.deq) < M(s.peek))

    @method_port
    def enq(s, msg):
        s.q.appendleft((msg + int(s.cnt.out)) & 255)

    @method_port
    def deq(s):
        return s.q.pop() if s.q else None

    @method_port
    def tag(s):
        return 5

    @non_blocking(lambda s: len(s.q) > 0)
    def peek(s):
        return s.q[-1]


class QHold(Placeholder, Component):
    def construct(s):
        s.enq = CalleePort()
        s.deq = CalleePort()
        s.peek = CalleeIfcCL()
        s.tag = CalleePort()


CL_PALETTE = {"QByp": QByp, "QPipe": QPipe, "QCnt": QCnt, "QNest": QNest, "QReg": QReg, "QHold": QHold}
CL_POSITIONS = ["q", "qs[0]", "qs[1]", "w", "w.foo"]


class CLMid(Component):
    def construct(s, G):
        s.enq = CalleePort()
        s.deq = CalleePort()
        s.foo = G()
        s.foo.enq //= s.enq
        s.foo.deq //= s.deq
        s.seen = []
        s.tags = []
        s.idle = 0

        @update_once
        def up_peek():
            if s.foo.peek.rdy():
                s.seen.append(s.foo.peek())

        @update_once
        def up_idle():
            s.idle += 1

        # method constraint declared by the parent on a method port of the grand-child (up_idle is
        # otherwise unconstrained, so no palette class contradicts it)
        s.add_constraints(M(s.foo.enq) < U(up_idle))


class CLMidB(Component):
    """same interface as CLMid; the grand-child's interface is called from a @s.func helper"""
    def construct(s, G):
        s.enq = CalleePort()
        s.deq = CalleePort()
        s.foo = G()
        s.foo.deq //= s.deq
        s.foo.enq //= s.enq
        s.seen = []
        s.tags = []
        s.idle = 0

        @s.func
        def f_probe():                    # helper: calls that commute with everything else
            if s.foo.peek.rdy():
                s.foo.peek()
            s.tags.append(s.foo.tag())

        @update_once
        def up_peekb():
            f_probe()
            if s.foo.peek.rdy():
                s.seen.append(s.foo.peek() ^ 1)


CL_HOSTS = {"CLMid": CLMid, "CLMidB": CLMidB}


class ClTop(Component):
    def construct(s, cfg):
        P = CL_PALETTE
        s.q = P[cfg["q"]]()
        s.qs = [P[cfg["qs[%d]" % i]]() for i in range(2)]
        s.w = CL_HOSTS[cfg["w"]](P[cfg["w.foo"]])
        s.count = 0
        s.log = []
        s.tags = []

        @update_once
        def up_src():
            s.q.enq((s.count * 7 + 3) & 255)
            s.count += 1

        @update_once
        def up_x0():
            x = s.q.deq()
            if x is not None:
                s.qs[0].enq(x)
            if s.q.peek.rdy():
                s.log.append(("pk", s.q.peek()))

        @update_once
        def up_x1():
            x = s.qs[0].deq()
            if x is not None:
                s.qs[1].enq(x ^ 1)

        # method calls made inside a @s.func helper do not take part in the method constraints of the
        # block that calls the helper, so the helper only calls what commutes with everything else:
        # the stateless tag() port of a child and of a list element, and the rdy() of an interface
        @s.func
        def f_tag():
            if s.q.peek.rdy():
                s.q.peek()                # (no side effect; the value is not used)
            s.tags.append((s.q.tag(), s.qs[1].tag()))

        @update_once
        def up_tag():
            f_tag()

        @update_once
        def up_x2():
            x = s.qs[1].deq()
            if x is not None:
                s.w.enq(x)

        @update_once
        def up_sink():
            x = s.w.deq()
            s.log.append(("dq", x))
            if s.w.foo.peek.rdy():        # the grand-child's interface, called through the child
                s.log.append(("wp", s.w.foo.peek()))


# ======================================================================================
# family descriptors (harness/c15_proj.py: Family)
#   palof     position -> names of the classes that fit there (first = base class)
#   below     hosting position -> nested positions
#   make      (position, class name, configuration) -> a new, not yet elaborated object for
#             replace_component_with_obj (a hosting class gets the classes currently below it)
#   pass_groups  simulation pass groups under which the mutated design and the design built from
#             scratch are compared (SimpleSimPass breaks ties of its schedule with the global random
#             generator: only for the families whose behaviour does not depend on the order of
#             method calls)
# ======================================================================================


def _rtl_make(pos, cls, cfg):
    if pos == "m":
        return RTL_HOSTS[cls](RTL_PALETTE[cfg["m.g"]])
    return RTL_PALETTE[cls](RTL_K[pos])


def _pb_make(pos, cls, cfg):
    if pos == "m":
        return PB_HOSTS[cls](PB_PALETTE[cfg["m.g"]])
    return PB_PALETTE[cls](PB_K[pos])


def _cl_make(pos, cls, cfg):
    if pos == "w":
        return CL_HOSTS[cls](CL_PALETTE[cfg["w.foo"]])
    return CL_PALETTE[cls]()


def _palof(positions, leaf, hosts, host_pos):
    return {p: (list(hosts) if p == host_pos else list(leaf)) for p in positions}


FAMILIES = {
    "RTL": dict(top=RtlTop, positions=RTL_POSITIONS, classes=dict(RTL_PALETTE, **RTL_HOSTS),
                palof=_palof(RTL_POSITIONS, RTL_PALETTE, RTL_HOSTS, "m"), below={"m": ["m.g"]},
                make=_rtl_make, driver="rtl", pass_groups=("DefaultPassGroup", "Mamba2020", "SimpleSimPass")),
    "PB": dict(top=PBTop, positions=PB_POSITIONS, classes=dict(PB_PALETTE, **PB_HOSTS),
               palof=_palof(PB_POSITIONS, PB_PALETTE, PB_HOSTS, "m"), below={"m": ["m.g"]},
               make=_pb_make, driver="rtl", pass_groups=("DefaultPassGroup", "Mamba2020", "SimpleSimPass")),
    "CL": dict(top=ClTop, positions=CL_POSITIONS, classes=dict(CL_PALETTE, **CL_HOSTS),
               palof=_palof(CL_POSITIONS, CL_PALETTE, CL_HOSTS, "w"), below={"w": ["w.foo"]},
               make=_cl_make, driver="cl", pass_groups=("DefaultPassGroup", "Mamba2020")),
}


# --------------------------------------------------------------------------------------
# parameters set with set_param and replace_component (scenario phase of props/c15.py)
# --------------------------------------------------------------------------------------

class ParLeaf(Component):
    def construct(s, k=1):
        s.in_ = InPort(Bits8)
        s.out = OutPort(Bits8)
        K = k

        @update
        def up():
            s.out @= s.in_ + K


class ParLeafX(Component):
    def construct(s, k=1):
        s.in_ = InPort(Bits8)
        s.out = OutPort(Bits8)
        K = k

        @update
        def up():
            s.out @= s.in_ ^ K


class ParMid(Component):
    def construct(s):
        s.in_ = InPort(Bits8)
        s.out = [OutPort(Bits8) for _ in range(2)]
        s.ys = [ParLeaf() for _ in range(2)]
        for i in range(2):
            s.ys[i].in_ //= s.in_
            s.out[i] //= s.ys[i].out


class ParTop(Component):
    """children addressed by set_param: a plain attribute, list elements (by index and by a regular
    expression), and list elements one level down"""
    def construct(s, cls_of=None):
        cls_of = cls_of or {}
        s.in_ = InPort(Bits8)
        s.out = [OutPort(Bits8) for _ in range(5)]
        s.p = cls_of.get("p", ParLeaf)()
        s.xs = [cls_of.get("xs[%d]" % i, ParLeaf)() for i in range(2)]
        s.mid = ParMid()
        s.p.in_ //= s.in_
        s.out[0] //= s.p.out
        for i in range(2):
            s.xs[i].in_ //= s.in_
            s.out[1 + i] //= s.xs[i].out
        s.mid.in_ //= s.in_
        s.out[3] //= s.mid.out[0]
        s.out[4] //= s.mid.out[1]


PAR_SETS = [("top.p.construct", 3), ("top.xs[1].construct", 5), ("top.xs*.construct", 7), ("top.mid.ys[0].construct", 9)]
