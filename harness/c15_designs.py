"""Harness hierarchies and class palettes for C15 (replace_component histories).

Static source file: pymtl3 parses update blocks with inspect.getsourcelines, so the palette classes
must live in a real module.  Nothing here is derived from the repository; pymtl3 is imported from
$VERIF_REPO by the caller (common.use_repo()).

Two families, each with its own harness hierarchy, positions and palette; all classes of one palette
have the SAME port interface (that is what makes them exchangeable by replace_component):

  RTL  ports in_ : InPort(Bits8), en : InPort(Bits1), out : OutPort(Bits8);  construct(s, k)
  CL   callee method ports enq(msg), deq(), plus a non-blocking interface peek (CalleeIfcCL)

Position names are the strings used in Replace.tla (`a`, `c[0]`, `d[0][1]`, `m.g`, ...); the full
name of the component at a position is "s." + position.
"""
from collections import deque

from pymtl3 import *                                   # noqa: F401,F403
from pymtl3.dsl import (CalleeIfcCL, CalleePort, M, Placeholder, U, RD, WR, method_port, non_blocking,
                        update_once)

# ======================================================================================
# RTL palette
# ======================================================================================


class Comb(Component):
    """one @update block"""
    def construct(s, k=1):
        s.in_ = InPort(Bits8)
        s.en = InPort(Bits1)
        s.out = OutPort(Bits8)

        @update
        def up_comb():
            s.out @= s.in_ + k


class Reg(Component):
    """@update_ff block, a wire, an internal net (out <- r)"""
    def construct(s, k=1):
        s.in_ = InPort(Bits8)
        s.en = InPort(Bits1)
        s.out = OutPort(Bits8)
        s.r = Wire(Bits8)

        @update_ff
        def up_reg():
            if s.reset:
                s.r <<= 0
            elif s.en:
                s.r <<= s.in_ + k

        s.out //= s.r


class Lam(Component):
    """lambda blocks (names derived from the signal's full name)"""
    def construct(s, k=1):
        s.in_ = InPort(Bits8)
        s.en = InPort(Bits1)
        s.out = OutPort(Bits8)
        s.t = Wire(Bits8)
        s.t //= lambda: s.in_ ^ k
        s.out //= lambda: s.t + 1


class Cons(Component):
    """two blocks with explicit U-U, RD-U and WR-U constraints"""
    def construct(s, k=1):
        s.in_ = InPort(Bits8)
        s.en = InPort(Bits1)
        s.out = OutPort(Bits8)
        s.w = Wire(Bits8)
        s.v = Wire(Bits8)

        @update
        def up_a():
            s.w @= s.in_ + k
            s.v @= s.in_ & 15

        @update
        def up_b():
            s.out @= s.w | s.v

        s.add_constraints(
            U(up_a) < U(up_b),
            WR(s.w) < U(up_b),
            RD(s.v) > U(up_a),
        )


class Func(Component):
    """@s.func helpers called from an update block (reads/writes merged into the block)"""
    def construct(s, k=1):
        s.in_ = InPort(Bits8)
        s.en = InPort(Bits1)
        s.out = OutPort(Bits8)
        s.acc = Wire(Bits8)

        @s.func
        def f_rd():
            s.acc @= s.in_ - k

        @s.func
        def f_wr():
            f_rd()
            s.out @= s.acc

        @update
        def up_func():
            f_wr()


class Slc(Component):
    """slices connected to slices (sliced signals are named objects of the component)"""
    def construct(s, k=1):
        s.in_ = InPort(Bits8)
        s.en = InPort(Bits1)
        s.out = OutPort(Bits8)
        s.out[0:4] //= s.in_[4:8]
        s.out[4:8] //= s.in_[0:4]


class Nest(Component):
    """nested children, a list of children, constants connected to children's in-ports, a block
    reading a child's out-port"""
    def construct(s, k=1):
        s.in_ = InPort(Bits8)
        s.en = InPort(Bits1)
        s.out = OutPort(Bits8)
        s.x = Comb(k)
        s.y = [Reg(k + 1), Lam(k + 2)]
        s.x.in_ //= s.in_
        s.x.en //= 0
        s.y[0].in_ //= s.x.out
        s.y[0].en //= s.en
        s.y[1].in_ //= s.y[0].out
        s.y[1].en //= 1

        @update
        def up_nest():
            s.out @= s.y[1].out + s.x.out



class Hold(Placeholder, Component):
    """placeholder: ports only"""
    def construct(s, k=1):
        s.in_ = InPort(Bits8)
        s.en = InPort(Bits1)
        s.out = OutPort(Bits8)


RTL_PALETTE = {"Comb": Comb, "Reg": Reg, "Lam": Lam, "Cons": Cons, "Func": Func, "Slc": Slc,
               "Nest": Nest, "Hold": Hold}

# ======================================================================================
# RTL harness hierarchy
# ======================================================================================

RTL_POSITIONS = ["a", "c[0]", "c[1]", "d[0][1]", "d[1][0]", "m.g"]
RTL_FIXED = {"d[0][0]": "Comb", "d[1][1]": "Reg"}     # non-replaceable neighbours in the 2-D list
RTL_K = {"a": 1, "c[0]": 2, "c[1]": 3, "d[0][0]": 4, "d[0][1]": 5, "d[1][0]": 6, "d[1][1]": 7, "m.g": 9}


class Mid(Component):
    """hosts the grand-child position m.g: connection, constant and update block at the parent"""
    def construct(s, G):
        s.in_ = InPort(Bits8)
        s.out = OutPort(Bits8)
        s.g = G(RTL_K["m.g"])
        s.g.in_ //= s.in_
        s.g.en //= 1

        @update
        def up_mid():
            s.out @= s.g.out + 1

        # value constraint declared by the parent on a port of the grand-child
        s.add_constraints(RD(s.g.out) > U(up_mid))



class RtlTop(Component):
    def construct(s, cfg):
        P = RTL_PALETTE
        K = RTL_K
        s.in_ = InPort(Bits8)
        s.en = InPort(Bits1)
        s.out = [OutPort(Bits8) for _ in range(4)]
        s.tmp = Wire(Bits8)

        s.a = P[cfg["a"]](K["a"])
        s.c = [P[cfg["c[%d]" % i]](K["c[%d]" % i]) for i in range(2)]
        s.d = [[P[cfg.get("d[%d][%d]" % (i, j), RTL_FIXED.get("d[%d][%d]" % (i, j)))](K["d[%d][%d]" % (i, j)])
                for j in range(2)] for i in range(2)]
        s.m = Mid(P[cfg["m.g"]])

        # plain child: connections from top-level ports
        s.a.in_ //= s.in_
        s.a.en //= s.en

        # list elements: sibling-to-sibling connection, constant, parent-level blocks that write a
        # child's in-port / read a child's out-port, parent-level lambda writing a child's in-port
        s.c[0].in_ //= s.a.out
        s.c[0].en //= 1

        @update
        def up_c1():
            s.c[1].in_ @= zext(s.c[0].out[0:7], 8)   # reads a slice of a child's out-port

        s.c[1].en //= lambda: s.en & s.in_[0]
        s.out[0] //= s.c[1].out

        # 2-D list: chain through replaceable and fixed elements; parent-level function reading a
        # child's out-port
        s.d[0][0].in_ //= s.in_
        s.d[0][0].en //= s.en
        s.d[0][1].in_ //= s.d[0][0].out
        s.d[0][1].en //= s.a.out[0]            # slice of another position's out-port
        s.d[1][0].in_ //= s.d[0][1].out
        s.d[1][0].en //= s.d[1][0].out[7]      # connection between two ports of the same child
        s.d[1][1].in_ //= s.d[1][0].out
        s.d[1][1].en //= s.en

        @s.func
        def f_d():
            s.tmp @= s.d[1][0].out ^ s.d[1][1].out

        @update
        def up_d():
            f_d()

        s.out[1] //= s.tmp

        # grand-child
        s.m.in_ //= s.a.out
        s.out[2] //= s.m.out
        s.out[3] //= s.d[0][1].out


# ======================================================================================
# CL palette:  enq(msg) / deq() callee ports and a non-blocking `peek` interface
# ======================================================================================


class QByp(Component):
    def construct(s):
        s.q = deque()
        s.add_constraints(M(s.enq) < M(s.deq), M(s.deq) < M(s.peek))

    @method_port
    def enq(s, msg):
        s.q.appendleft(msg)

    @method_port
    def deq(s):
        return s.q.pop() if s.q else None

    @non_blocking(lambda s: len(s.q) > 0)
    def peek(s):
        return s.q[-1]


class QPipe(Component):
    def construct(s):
        s.q = deque()
        s.add_constraints(M(s.deq) < M(s.enq), M(s.peek) < M(s.deq))

    @method_port
    def enq(s, msg):
        s.q.appendleft(msg)

    @method_port
    def deq(s):
        return s.q.pop() if s.q else None

    @non_blocking(lambda s: len(s.q) > 0)
    def peek(s):
        return s.q[-1]


class QCnt(Component):
    """update_once block and U-M constraints"""
    def construct(s):
        s.q = deque()
        s.n = 0

        @update_once
        def up_cnt():
            s.n += 1

        s.add_constraints(U(up_cnt) < M(s.enq), M(s.enq) < M(s.deq), U(up_cnt) < M(s.peek),
                          M(s.deq) < M(s.peek))

    @method_port
    def enq(s, msg):
        s.q.appendleft((msg + s.n) & 255)

    @method_port
    def deq(s):
        return s.q.pop() if s.q else None

    @non_blocking(lambda s: len(s.q) > 0)
    def peek(s):
        return s.q[-1]


class QNest(Component):
    """callee ports forwarded to a nested child; own update_once block calling the child"""
    def construct(s):
        s.enq = CalleePort()
        s.deq = CalleePort()
        s.peek = CalleeIfcCL()
        s.inner = QByp()
        s.inner.enq //= s.enq
        s.inner.deq //= s.deq
        s.inner.peek //= s.peek


class QHold(Placeholder, Component):
    def construct(s):
        s.enq = CalleePort()
        s.deq = CalleePort()
        s.peek = CalleeIfcCL()


CL_PALETTE = {"QByp": QByp, "QPipe": QPipe, "QCnt": QCnt, "QNest": QNest, "QHold": QHold}
CL_POSITIONS = ["q", "qs[0]", "qs[1]", "w.foo"]


class CLMid(Component):
    def construct(s, G):
        s.enq = CalleePort()
        s.deq = CalleePort()
        s.foo = G()
        s.foo.enq //= s.enq
        s.foo.deq //= s.deq
        s.seen = []
        s.idle = 0

        @update_once
        def up_peek():
            if s.foo.peek.rdy():
                s.seen.append(s.foo.peek())

        @update_once
        def up_idle():
            s.idle += 1

        # method constraint declared by the parent on a method port of the grand-child (up_idle is
        # otherwise unconstrained, so no palette class contradicts it)
        s.add_constraints(M(s.foo.enq) < U(up_idle))


class ClTop(Component):
    def construct(s, cfg):
        P = CL_PALETTE
        s.q = P[cfg["q"]]()
        s.qs = [P[cfg["qs[%d]" % i]]() for i in range(2)]
        s.w = CLMid(P[cfg["w.foo"]])
        s.count = 0
        s.log = []

        @update_once
        def up_src():
            s.q.enq((s.count * 7 + 3) & 255)
            s.count += 1

        @update_once
        def up_x0():
            x = s.q.deq()
            if x is not None:
                s.qs[0].enq(x)
            if s.q.peek.rdy():
                s.log.append(("pk", s.q.peek()))

        @update_once
        def up_x1():
            x = s.qs[0].deq()
            if x is not None:
                s.qs[1].enq(x ^ 1)

        @update_once
        def up_x2():
            x = s.qs[1].deq()
            if x is not None:
                s.w.enq(x)

        @update_once
        def up_sink():
            x = s.w.deq()
            s.log.append(("dq", x))
