"""Light-weight, independent module-table extractor for the (System)Verilog text emitted by the
pymtl3 translation passes (property C13).  It is NOT a Verilog parser: it tokenises, strips
comments, and recognises just enough structure to build

  typedefs   name -> {digest, fields[], uses[]}          (`typedef struct packed { .. } NAME;`)
  modules    name -> {digest, ports[], decls[], insts[], blocks.., uses[]}
  scopes     list of (scope id, [identifier, ...]) in declaration order:
               "$defs"            module names            (definitions name space)
               "$unit"            typedef names           (compilation-unit name space)
               "T:<typedef>"      struct member names
               "M:<module>"       ports, parameters, nets/variables, instance names, named blocks
               "M:<module>/<blk>" declarations local to a named block (and nested named blocks)
               "...//for<k>"      loop variable declared in a `for (int i = ..` header
  instantiations (module, instance name, instantiated module name)

Everything the extractor does not recognise raises ParseError (the harness turns that into a
machinery failure, never into a verdict).  Digest of a definition = sha256 over its token
sequence (comments and white space removed, compiler directives kept), so two bodies are equal
iff they are the same hardware text.
"""
import hashlib
import re

# IEEE 1800-2017 Annex B (all reserved words of Verilog-1995/2001/2005 and SystemVerilog
# 2005/2009/2012/2017).  Written out here independently of pymtl3's own list.
KEYWORDS_1800_2005 = """
accept_on alias always always_comb always_ff always_latch and assert assign assume automatic before
begin bind bins binsof bit break buf bufif0 bufif1 byte case casex casez cell chandle class clocking
cmos config const constraint context continue cover covergroup coverpoint cross deassign default
defparam design disable dist do edge else end endcase endclass endclocking endconfig endfunction
endgenerate endgroup endinterface endmodule endpackage endprimitive endprogram endproperty endspecify
endsequence endtable endtask enum event expect export extends extern final first_match for force
foreach forever fork forkjoin function generate genvar highz0 highz1 if iff ifnone ignore_bins
illegal_bins import incdir include initial inout input inside instance int integer interface
intersect join join_any join_none large liblist library local localparam logic longint macromodule
matches medium modport module nand negedge new nmos nor noshowcancelled not notif0 notif1 null or
output package packed parameter pmos posedge primitive priority program property protected pull0
pull1 pulldown pullup pulsestyle_ondetect pulsestyle_onevent pure rand randc randcase randsequence
rcmos real realtime ref reg release repeat return rnmos rpmos rtran rtranif0 rtranif1 scalared
sequence shortint shortreal showcancelled signed small solve specify specparam static string strong0
strong1 struct super supply0 supply1 table tagged task this throughout time timeprecision timeunit
tran tranif0 tranif1 tri tri0 tri1 triand trior trireg type typedef union unique unsigned use uwire
var vectored virtual void wait wait_order wand weak0 weak1 while wildcard wire with within wor xnor
xor
""".split()
KEYWORDS_1800_2005.remove("accept_on")
# added by IEEE 1800-2009 / 1800-2012 (1800-2017 added none)
KEYWORDS_1800_2009_2012 = """
accept_on checker endchecker eventually global implies let nexttime reject_on restrict s_always
s_eventually s_nexttime s_until s_until_with strong sync_accept_on sync_reject_on unique0 until
until_with untyped weak implements interconnect nettype soft
""".split()
KEYWORDS = sorted(set(KEYWORDS_1800_2005) | set(KEYWORDS_1800_2009_2012))
_KW = set(KEYWORDS)

IDENT_RE = re.compile(r"[A-Za-z_][A-Za-z0-9_$]*\Z")


class ParseError(Exception):
    pass


# --------------------------------------------------------------------------------------
# tokeniser
# --------------------------------------------------------------------------------------

_TOK = re.compile(r"""
    (?P<ws>\s+)
  | (?P<lc>//[^\n]*)
  | (?P<bc>/\*.*?\*/)
  | (?P<dir>`[A-Za-z_][A-Za-z0-9_]*)
  | (?P<str>"(?:[^"\\]|\\.)*")
  | (?P<num>(?:[0-9][0-9_]*)?'[sS]?[bBoOdDhH][0-9a-fA-FxXzZ_?]+ | [0-9][0-9_]*(?:\.[0-9_]+)?(?:[eE][-+]?[0-9]+)?)
  | (?P<id>[A-Za-z_][A-Za-z0-9_$]* | \\[^\s]+)
  | (?P<op><<<=|>>>=|===|!==|<<<|>>>|<<=|>>=|==\?|!=\?|\+=|-=|\*=|/=|%=|&=|\|=|\^=|<=|>=|==|!=|&&|\|\||<<|>>|\*\*|\+\+|--|->|::|\+:|-:|'\(|'\{|[-+*/%&|^~!<>=?:;,.(){}\[\]@\#'$])
  | (?P<bad>.)
""", re.X | re.S)


def tokenize(text):
    """List of (kind, text, start, end) with white space and comments removed; kind in
    id/num/str/op/dir/bad.  A '-' inside what pymtl3 meant to be an identifier is an operator
    here, which is exactly how a Verilog front end would see it; characters outside the Verilog
    character set become `bad` tokens (names are later cut out of the raw text, so they are
    reported as written)."""
    out = []
    i, n = 0, len(text)
    while i < n:
        m = _TOK.match(text, i)
        if not m:
            raise ParseError("cannot tokenise at offset %d: %r" % (i, text[i:i + 40]))
        i = m.end()
        k = m.lastgroup
        if k in ("ws", "lc", "bc"):
            continue
        out.append((k, m.group(k).strip(), m.start(), m.end()))
    return out


def digest_tokens(toks):
    return hashlib.sha256("\x1f".join(t[1] for t in toks).encode()).hexdigest()


def legal_identifier(name):
    return bool(IDENT_RE.match(name)) and name not in _KW


# --------------------------------------------------------------------------------------
# structure
# --------------------------------------------------------------------------------------

_BUILTIN_TYPES = {"logic", "wire", "reg", "integer", "int", "bit", "byte", "shortint", "longint",
                  "time", "real", "genvar", "var"}
_QUALS = {"signed", "unsigned", "automatic", "static", "const", "var"}
_DIRS = {"input", "output", "inout"}


class _Cur:
    def __init__(self, toks, text=""):
        self.t = toks
        self.i = 0
        self.text = text

    def ctx(self, a=6, b=4):
        return " ".join(x[1] for x in self.t[max(0, self.i - a):self.i + b])

    def raw_until(self, stops):
        """Raw source text from the current token up to (not including) the first token in
        `stops`; the cursor is left on that token.  Used for names, so that a name containing
        characters that are not legal in an identifier is reported as written."""
        j = self.i
        while j < len(self.t) and self.t[j][1] not in stops:
            j += 1
        if j >= len(self.t) or j == self.i:
            raise ParseError("name expected near %r" % self.ctx())
        raw = self.text[self.t[self.i][2]:self.t[j - 1][3]]
        self.i = j
        return re.sub(r"\s+", " ", raw.strip())

    def peek(self, k=0):
        j = self.i + k
        return self.t[j][1] if j < len(self.t) else None

    def kind(self, k=0):
        j = self.i + k
        return self.t[j][0] if j < len(self.t) else None

    def next(self):
        if self.i >= len(self.t):
            raise ParseError("unexpected end of text")
        v = self.t[self.i][1]
        self.i += 1
        return v

    def expect(self, s):
        v = self.next()
        if v != s:
            raise ParseError("expected %r, got %r (token %d; context %s)" %
                             (s, v, self.i, self.ctx(8, 4)))

    def skip_balanced(self, open_, close):
        """cursor is just after an `open_`; skip to after the matching `close`."""
        depth = 1
        while depth:
            v = self.next()
            if v == open_ or (open_ == "(" and v == "'(") or (open_ == "{" and v == "'{"):
                depth += 1
            elif v == close:
                depth -= 1

    def skip_dims(self):
        while self.peek() == "[":
            self.next()
            self.skip_balanced("[", "]")

    def skip_to_semicolon(self):
        """skip a simple statement / item up to and including ';' (balanced brackets)."""
        while True:
            v = self.next()
            if v in ("(", "'("):
                self.skip_balanced("(", ")")
            elif v == "[":
                self.skip_balanced("[", "]")
            elif v in ("{", "'{"):
                self.skip_balanced("{", "}")
            elif v == ";":
                return


class Table:
    def __init__(self):
        self.typedefs = {}      # name -> dict(digest, fields, uses, n)  (first definition)
        self.modules = {}       # name -> dict(...)
        self.def_order = []     # (kind, name, digest) in text order, duplicates included
        self.scopes = []        # [scope id, [names]]
        self.insts = []         # (module, inst name, modname)
        self.kinds = {}         # (scope id, name) -> [kind of each declaration]  (diagnosis only)
        self._scope_ix = {}

    def declare(self, scope, name, kind="var"):
        """kind: port | var | inst | block | loopvar | field | module | typedef"""
        if scope not in self._scope_ix:
            self._scope_ix[scope] = len(self.scopes)
            self.scopes.append([scope, []])
        self.scopes[self._scope_ix[scope]][1].append(name)
        self.kinds.setdefault((scope, name), []).append(kind)

    def as_json(self):
        return {"def_order": [list(x) for x in self.def_order],
                "scopes": [[s, list(n)] for s, n in self.scopes],
                "insts": [list(x) for x in self.insts],
                "typedefs": {k: {"digest": v["digest"], "uses": v["uses"]} for k, v in self.typedefs.items()},
                "modules": {k: {"digest": v["digest"], "uses": v["uses"], "insts": v["insts"],
                                "ports": v["ports"]} for k, v in self.modules.items()}}


def _is_name(cur, k=0):
    return cur.kind(k) == "id"


def _parse_decl_names(cur, tab, scope, typedef_names, stop=(";",)):
    """cursor at the first token of a data declaration  [quals] TYPE [dims] name [dims] [= e] {, name ..} ;
    Records the declared names, leaves the cursor after the terminating ';'.  Returns the type
    names referenced."""
    used = []
    while cur.peek() in _QUALS or cur.peek() in ("localparam", "parameter"):
        cur.next()
    t = cur.peek()
    if t in _BUILTIN_TYPES:
        cur.next()
        if t in ("wire", "var", "tri") and cur.peek() in _BUILTIN_TYPES \
                and (cur.peek(1) == "[" or cur.kind(1) == "id"):      # `wire logic [..] x`
            cur.next()
    elif t in typedef_names:
        used.append(cur.next())
    elif cur.kind() == "id" and cur.kind(1) == "id" and t not in _KW:
        # `UNKNOWN_TYPE name ...;` : a user type we have no definition of
        used.append(cur.next())
    # else: implicit type (`localparam NAME = ..`)
    while cur.peek() in _QUALS:
        cur.next()
    cur.skip_dims()
    while True:
        if cur.peek() in (";", ",", "=", "[", None):
            raise ParseError("declaration without a name in scope %s near %r" %
                             (scope, cur.ctx(6, 3)))
        tab.declare(scope, cur.raw_until((";", ",", "=", "[")))
        cur.skip_dims()
        if cur.peek() == "=":
            cur.next()
            depth = 0
            while True:
                v = cur.peek()
                if v is None:
                    raise ParseError("unterminated initialiser")
                if depth == 0 and v in (",", ";"):
                    break
                cur.next()
                if v in ("(", "'(", "[", "{", "'{"):
                    depth += 1
                elif v in (")", "]", "}"):
                    depth -= 1
        v = cur.next()
        if v == ";":
            return used
        if v != ",":
            raise ParseError("unexpected %r in declaration (scope %s)" % (v, scope))


def _parse_typedef(cur, tab):
    start = cur.i
    cur.expect("typedef")
    cur.expect("struct")
    while cur.peek() in ("packed", "signed", "unsigned"):
        cur.next()
    cur.expect("{")
    tmp = Table()
    uses = []
    while cur.peek() != "}":
        uses += _parse_decl_names(cur, tmp, "f", set(tab.typedefs))
    cur.expect("}")
    name = cur.raw_until((";", "["))
    cur.skip_dims()
    cur.expect(";")
    toks = cur.t[start:cur.i]
    dg = digest_tokens(toks)
    fields = tmp.scopes[0][1] if tmp.scopes else []
    tab.def_order.append(("typedef", name, dg))
    tab.declare("$unit", name, "typedef")
    n = sum(1 for k, nm, _ in tab.def_order if k == "typedef" and nm == name)
    scope = "T:%s" % name if n == 1 else "T:%s#%d" % (name, n)
    for f in fields:
        tab.declare(scope, f, "field")
    if name not in tab.typedefs:
        tab.typedefs[name] = {"digest": dg, "fields": fields, "uses": sorted(set(uses))}


def _parse_block(cur, tab, scope, typedef_names, counter):
    """cursor just after `begin`.  Parses up to and including the matching `end [: label]`."""
    if cur.peek() == ":":
        cur.next()
        label = cur.next()
        tab.declare(scope, label, "block")
        inner = scope + "/" + label
    else:
        counter[0] += 1
        inner = scope + "//blk%d" % counter[0]
    while True:
        v = cur.peek()
        if v is None:
            raise ParseError("unterminated begin block in %s" % scope)
        if v == "end":
            cur.next()
            if cur.peek() == ":":
                cur.next()
                cur.next()
            return
        _parse_stmt(cur, tab, inner, typedef_names, counter)


def _parse_stmt(cur, tab, scope, typedef_names, counter):
    v = cur.peek()
    if v == "begin":
        cur.next()
        _parse_block(cur, tab, scope, typedef_names, counter)
    elif v == "if":
        cur.next()
        cur.expect("(")
        cur.skip_balanced("(", ")")
        _parse_stmt(cur, tab, scope, typedef_names, counter)
        if cur.peek() == "else":
            cur.next()
            _parse_stmt(cur, tab, scope, typedef_names, counter)
    elif v in ("unique", "priority", "unique0"):
        cur.next()
        _parse_stmt(cur, tab, scope, typedef_names, counter)
    elif v == "for":
        cur.next()
        cur.expect("(")
        fs = scope
        if cur.peek() in _BUILTIN_TYPES or cur.peek() in typedef_names:
            # loop variable declared in the header: its own scope
            counter[0] += 1
            fs = scope + "//for%d" % counter[0]
            cur.next()
            while cur.peek() in _QUALS or cur.peek() in _BUILTIN_TYPES:
                cur.next()
            cur.skip_dims()
            tab.declare(fs, cur.next(), "loopvar")
        cur.skip_balanced("(", ")")
        _parse_stmt(cur, tab, fs, typedef_names, counter)
    elif v in ("case", "casez", "casex"):
        cur.next()
        cur.expect("(")
        cur.skip_balanced("(", ")")
        while cur.peek() != "endcase":
            if cur.peek() is None:
                raise ParseError("unterminated case")
            # case item:  expr {, expr} : stmt   |  default [:] stmt
            if cur.peek() == "default":
                cur.next()
                if cur.peek() == ":":
                    cur.next()
            else:
                depth = 0
                while True:
                    t = cur.next()
                    if t in ("(", "'(", "[", "{", "'{"):
                        depth += 1
                    elif t in (")", "]", "}"):
                        depth -= 1
                    elif t == "?" and depth == 0:
                        depth += 0      # ternary in a label is not emitted by pymtl3
                    elif t == ":" and depth == 0:
                        break
            _parse_stmt(cur, tab, scope, typedef_names, counter)
        cur.next()
    elif (v in _BUILTIN_TYPES or v in typedef_names or v in _QUALS) and \
            cur.peek(1) not in ("=", "<=", ".", ";"):
        _parse_decl_names(cur, tab, scope, typedef_names)
    elif v == ";":
        cur.next()
    elif v in ("while", "repeat", "forever", "do", "fork", "foreach", "function", "task", "generate",
               "disable", "wait", "assert", "assume", "cover"):
        raise ParseError("statement kind %r is outside the subset handled by modtable" % v)
    else:
        cur.skip_to_semicolon()


def _parse_module(cur, tab):
    start = cur.i
    cur.expect("module")
    # header: `module <name as written> [ ( ports ) ] ;`  The name may contain characters that are
    # illegal in an identifier (even parentheses), so the port list is located from the END of the
    # header: it is the last balanced parenthesis group before the first ';' outside brackets.
    j, depth = cur.i, 0
    while j < len(cur.t):
        tj = cur.t[j][1]
        if tj in ("(", "'(", "[", "{", "'{"):
            depth += 1
        elif tj in (")", "]", "}"):
            depth -= 1
        elif tj == ";" and depth <= 0:
            break
        j += 1
    if j >= len(cur.t):
        raise ParseError("module header is not terminated")
    k = j
    if cur.t[j - 1][1] == ")":
        k, depth = j - 1, 0
        while k > cur.i:
            tk = cur.t[k][1]
            if tk == ")":
                depth += 1
            elif tk in ("(", "'("):
                depth -= 1
                if depth == 0:
                    break
            k -= 1
    if k <= cur.i:
        raise ParseError("module without a name near %r" % cur.ctx(2, 8))
    name = re.sub(r"\s+", " ", cur.text[cur.t[cur.i][2]:cur.t[k - 1][3]].strip())
    if "#" in name:
        raise ParseError("parameterised module header %r is outside the subset" % name)
    cur.i = k
    n_prev = sum(1 for k, nm, _ in tab.def_order if k == "module" and nm == name)
    scope = "M:%s" % name if n_prev == 0 else "M:%s#%d" % (name, n_prev + 1)
    tdn = set(tab.typedefs)
    ports, insts, uses = [], [], []
    if cur.peek() == "(":
        cur.next()
        # ANSI port list
        while cur.peek() != ")":
            if cur.peek() == ",":
                cur.next()
                continue
            if cur.kind() == "dir":           # `ifndef SYNTHESIS around a port (not emitted today)
                cur.next()
                if cur.kind() == "id":
                    cur.next()
                continue
            d = None
            if cur.peek() in _DIRS:
                d = cur.next()
            while cur.peek() in _BUILTIN_TYPES or cur.peek() in _QUALS:
                cur.next()
            if cur.kind() == "id" and cur.kind(1) == "id" and cur.peek() not in _KW:
                uses.append(cur.next())       # user-defined type
            elif cur.peek() in tdn and (cur.kind(1) == "id" or cur.peek(1) == "["):
                uses.append(cur.next())
            cur.skip_dims()
            if cur.peek() in (",", ")", "[", "=", None):
                raise ParseError("port without a name in module %s near %r" %
                                 (name, cur.ctx(6, 3)))
            p = cur.raw_until((",", ")", "[", "="))
            tab.declare(scope, p, "port")
            ports.append(p)
            cur.skip_dims()
        cur.expect(")")
    cur.expect(";")
    counter = [0]
    while True:
        v = cur.peek()
        if v is None:
            raise ParseError("module %s is not closed by endmodule" % name)
        if v == "endmodule":
            cur.next()
            break
        if cur.kind() == "dir":
            cur.next()
            if v in ("`ifndef", "`ifdef", "`define", "`undef", "`include", "`elsif"):
                cur.next()
            continue
        if v in ("localparam", "parameter") or v in _BUILTIN_TYPES or v in _QUALS:
            uses += _parse_decl_names(cur, tab, scope, tdn)
        elif v == "assign":
            cur.skip_to_semicolon()
        elif v in ("always_comb", "always_ff", "always_latch", "always", "initial", "final"):
            cur.next()
            if cur.peek() == "@":
                cur.next()
                if cur.peek() == "(":
                    cur.next()
                    cur.skip_balanced("(", ")")
                else:
                    cur.next()
            _parse_stmt(cur, tab, scope, tdn, counter)
        elif v in ("module", "typedef", "generate", "function", "task", "genvar", "interface", "class",
                   "package", "import", "defparam", "specify", "primitive"):
            raise ParseError("module item %r (in module %s) is outside the subset handled by modtable"
                             % (v, name))
        elif cur.kind() == "id":
            # `TYPE [dims] name ..;`  (declaration)  or  `MOD [#(..)] inst ( .. );`  (instantiation)
            if v in _KW:
                raise ParseError("unexpected keyword %r at module item level in %s" % (v, name))
            # extent of the item: up to the first ';' outside brackets
            j, depth = cur.i, 0
            while j < len(cur.t):
                tj = cur.t[j][1]
                if tj in ("(", "'(", "[", "{", "'{"):
                    depth += 1
                elif tj in (")", "]", "}"):
                    depth -= 1
                elif tj == ";" and depth <= 0:
                    break
                j += 1
            if j >= len(cur.t):
                raise ParseError("unterminated module item in %s near %r" % (name, cur.ctx(0, 6)))
            stop = "="
            if cur.t[j - 1][1] == ")":
                # `<module name as written> <instance name> ( <connections> ) ;`  The module name
                # may contain characters that are illegal in an identifier (even brackets), so
                # the connection list is found from the END of the item.
                k, depth = j - 1, 0
                while k > cur.i:
                    tk = cur.t[k][1]
                    if tk == ")":
                        depth += 1
                    elif tk in ("(", "'("):
                        depth -= 1
                        if depth == 0:
                            break
                    k -= 1
                if k - cur.i >= 2 and cur.t[k - 1][0] == "id" and cur.t[k][1] == "(":
                    stop = "("
            if stop == "(":
                modname = re.sub(r"\s+", " ", cur.text[cur.t[cur.i][2]:cur.t[k - 2][3]].strip())
                if "#" in modname:
                    # `<module> #( <parameter assignments> ) <instance> ( ... )`: the wrapper of a Verilog
                    # placeholder instantiates the hand-written module this way
                    mm = re.match(r"^([^#]*?)\s*#\s*\(.*\)$", modname, re.S)
                    if not mm or not mm.group(1):
                        raise ParseError("parameterised instantiation in %s is outside the subset" % name)
                    modname = mm.group(1)
                iname = cur.t[k - 1][1]
                cur.i = j + 1
                tab.declare(scope, iname, "inst")
                insts.append([iname, modname])
                tab.insts.append((name, iname, modname))
            elif cur.kind(1) == "id" or cur.peek(1) == "[":
                uses += _parse_decl_names(cur, tab, scope, tdn | {v})
            else:
                raise ParseError("unrecognised module item starting %r in module %s" %
                                 (cur.ctx(0, 6), name))
        else:
            raise ParseError("unrecognised module item starting %r in module %s" %
                             (cur.ctx(0, 6), name))
    toks = cur.t[start:cur.i]
    dg = digest_tokens(toks)
    tab.def_order.append(("module", name, dg))
    tab.declare("$defs", name, "module")
    # typedef names referenced anywhere in the module text (ports, declarations, casts)
    body_ids = {t[1] for t in toks if t[0] == "id"}
    uses = sorted((set(uses) | (body_ids & tdn)))
    if name not in tab.modules:
        tab.modules[name] = {"digest": dg, "ports": ports, "insts": insts, "uses": uses}


def parse(text):
    """Parse emitted text into a Table."""
    cur = _Cur(tokenize(text), text)
    tab = Table()
    while cur.peek() is not None:
        v = cur.peek()
        if v == "typedef":
            _parse_typedef(cur, tab)
        elif v == "module":
            _parse_module(cur, tab)
        elif cur.kind() == "dir":
            cur.next()
            if v in ("`ifndef", "`ifdef", "`define", "`undef", "`include", "`elsif", "`default_nettype",
                     "`timescale", "`line"):
                if v == "`timescale":
                    cur.next(), cur.next(), cur.next()
                elif v == "`line":          # `line <number> "<file>" <level>  (pickled placeholder sources)
                    cur.next(), cur.next(), cur.next()
                else:
                    cur.next()
        else:
            raise ParseError("unexpected top-level token %r" % v)
    return tab


def typedef_closure(tab, names):
    """Transitive closure of typedef names reachable from `names` (only those defined in tab)."""
    seen, todo = set(), list(names)
    while todo:
        n = todo.pop()
        if n in seen or n not in tab.typedefs:
            continue
        seen.add(n)
        todo += tab.typedefs[n]["uses"]
    return sorted(seen)
