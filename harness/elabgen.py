"""Design descriptors for spec/Elab.tla (C08, C09): model, pymtl3 code generation, elaboration
workers, comparison with the TLC classification.

A `Design` is the Python twin of the descriptor documented in Elab.tla.  `Design.tlc()` is what TLC
sees, `gen_variant()` prints one statement permutation / side-flip assignment as real pymtl3 source
(one Component class per component of the hierarchy, statements literally in that order).
Statements are connects ('c'), @update / lambda / @update_ff blocks ('u', 'l', 'f') and `@s.func`
helper functions ('h'); blocks and helpers name the helpers they call (`calls`, indices into
`stmts`), helpers are printed as `@s.func def fn<index>()` wherever the permutation puts them.

Run as a script (`python elabgen.py job.json out.json`) this file is the elaboration worker: it is
started by `run_jobs()` in sub-processes (one PYTHONHASHSEED each), writes the generated classes
into its scratch directory, imports them, elaborates every variant, projects
get_all_value_nets() and simulates a few variants under DefaultPassGroup.
"""
import importlib
import itertools
import json
import os
import random
import re
import subprocess
import sys
import time

# ------------------------------------------------------------------------------------------
# types and views
# ------------------------------------------------------------------------------------------

TYPES = {"b2": ("Bits2", 2), "b4": ("Bits4", 4), "b8": ("Bits8", 8), "St": ("St", 8), "In2": ("In2", 4)}

# suffix -> (lo, hi, depth, type).  Struct layout: first field in the most significant bits.
VIEWS = {
    "b2": {"": (0, 2, 0, "b2")},
    "b4": {"": (0, 4, 0, "b4"), "[0:2]": (0, 2, 1, "b2"), "[2:4]": (2, 4, 1, "b2"), "[1:3]": (1, 3, 1, "b2")},
    "b8": {"": (0, 8, 0, "b8"), "[0:2]": (0, 2, 1, "b2"), "[2:4]": (2, 4, 1, "b2"), "[1:3]": (1, 3, 1, "b2"),
           "[0:4]": (0, 4, 1, "b4"), "[4:8]": (4, 8, 1, "b4"), "[2:6]": (2, 6, 1, "b4")},
    "St": {"": (0, 8, 0, "St"), ".f": (4, 8, 1, "b4"), ".g": (0, 4, 1, "In2"),
           ".g.p": (2, 4, 2, "b2"), ".g.q": (0, 2, 2, "b2"),
           ".f[0:2]": (4, 6, 2, "b2"), ".f[2:4]": (6, 8, 2, "b2"), ".f[1:3]": (5, 7, 2, "b2")},
    "In2": {"": (0, 4, 0, "In2"), ".p": (2, 4, 1, "b2"), ".q": (0, 2, 1, "b2")},
}
KINDCLS = {"in": "InPort", "out": "OutPort", "wire": "Wire"}

PREAMBLE = '''from pymtl3 import *
G = [0] * 24
_J = []
class _K:
  def __init__( s ):
    s.a = None
@bitstruct
class In2:
  p: Bits2
  q: Bits2
@bitstruct
class St:
  f: Bits4
  g: In2
def V( T, k, _s=None ):
  if T is St:  return St.from_bits( Bits8( G[k] & 255 ) )
  if T is In2: return In2.from_bits( Bits4( G[k] & 15 ) )
  return T( G[k] & ((1 << T.nbits) - 1) )
'''


def _nested_slice_form(D, o, text):
    ob = D.objs[o - 1]
    if ob["s"] == 0:
        return text
    m = re.match(r"^(.*)\[(\d+):(\d+)\]$", ob["suf"])
    if not m:
        return text
    pre, lo, hi = m.group(1), int(m.group(2)), int(m.group(3))
    plo, phi = VIEWS[D.sigs[ob["s"] - 1]["ty"]][pre][:2]
    w = phi - plo
    assert text.endswith("[%d:%d]" % (lo, hi))
    return text[:-len("[%d:%d]" % (lo, hi))] + "[%d:%d][0:%d]" % (lo, w, hi - lo)


class Design:
    """comps: list of (name, parent index or None); comps[0] is the top (repr 's')."""

    def __init__(self, comps, tag=""):
        self.comps = list(comps)
        self.tag = tag
        self.sigs = []      # dict(h, k, ty, name)
        self.objs = []      # dict(s, suf, lo, hi, d, t, h[, val, form])
        self.stmts = []
        self._objidx = {}
        self._sigidx = {}

    # -- construction
    def sig(self, comp, name, kind, ty):
        k = (comp, name)
        if k in self._sigidx:
            i = self._sigidx[k]
            assert self.sigs[i - 1]["k"] == kind and self.sigs[i - 1]["ty"] == ty, (k, kind, ty)
            return i
        self.sigs.append({"h": comp, "k": kind, "ty": ty, "name": name})
        self._sigidx[k] = len(self.sigs)
        return len(self.sigs)

    def obj(self, sig, suf=""):
        k = (sig, suf)
        if k not in self._objidx:
            s = self.sigs[sig - 1]
            lo, hi, d, t = VIEWS[s["ty"]][suf]
            self.objs.append({"s": sig, "suf": suf, "lo": lo, "hi": hi, "d": d, "t": t, "h": s["h"]})
            self._objidx[k] = len(self.objs)
        return self._objidx[k]

    def const(self, at, ty, val, form="int"):
        """A constant operand of a connect executed in `at`.  form 'int': a Python int (takes the
        signal's type); 'bits': an explicit BitsN value of type `ty`."""
        taken = {o["val"] for o in self.objs if o["s"] == 0 and o["t"] == ty}
        n = 1 << TYPES[ty][1]
        while val in taken and len(taken) < n:       # constants are told apart by (type, value)
            val = (val + 1) % n
        self.objs.append({"s": 0, "suf": "", "lo": 0, "hi": 0, "d": 0, "t": ty, "h": at, "val": val, "form": form})
        return len(self.objs)

    def conn(self, a, b, at, grp=None):
        """grp = (group id, (comp, interface name) of side a, (comp, interface name) of side b): the connection
        is one of the port pairs of ONE interface-level statement connect( ifc_a, ifc_b ) (connected by name);
        the specification sees the signal-level connections, the source text the interface-level statement."""
        self.stmts.append({"k": "c", "a": a, "b": b, "at": at})
        if grp:
            self.stmts[-1]["grp"] = grp

    def blk(self, kind, at, wr, rd=(), calls=(), shape=None):
        """@update ('u') / `//=` lambda ('l') / @update_ff ('f') block or @s.func helper ('h') of
        component `at`; calls: 0-based indices into self.stmts of the helpers it calls (helpers of
        the same component).  Returns the index of the new statement."""
        self.stmts.append({"k": kind, "at": at, "wr": [{"o": o, "op": op} for (o, op) in wr], "rd": list(rd),
                           "calls": list(calls)})
        if shape:
            # how the assignments are laid out in the source of the block (control structure around them;
            # irrelevant for the classification of the design, see _shape_body)
            self.stmts[-1]["shape"] = shape
        return len(self.stmts) - 1

    def fun(self, at, wr=(), rd=(), calls=()):
        return self.blk("h", at, wr, rd, calls)

    def has_helpers(self):
        return any(st["k"] == "h" for st in self.stmts)

    # -- names
    def comp_path(self, c):
        """names from the top down to component c (1-based), top excluded"""
        p = []
        while c != 1:
            name, par = self.comps[c - 1]
            p.append(name)
            c = par
        return p[::-1]

    def is_anc(self, a, c):
        while c is not None:
            if c == a:
                return True
            c = self.comps[c - 1][1]
        return False

    def abs_name(self, o):
        ob = self.objs[o - 1]
        if ob["s"] == 0:
            return "const:%s:%d" % (ob["t"], ob["val"])
        sg = self.sigs[ob["s"] - 1]
        return ".".join(["s"] + self.comp_path(sg["h"]) + [sg["name"]]) + ob["suf"]

    def rel_name(self, o, at):
        ob = self.objs[o - 1]
        if ob["s"] == 0:
            return str(ob["val"]) if ob["form"] == "int" else "%s(%d)" % (TYPES[ob["t"]][0], ob["val"])
        sg = self.sigs[ob["s"] - 1]
        full, pre = self.comp_path(sg["h"]), self.comp_path(at)
        assert full[:len(pre)] == pre, "object %s not reachable from component %d" % (self.abs_name(o), at)
        return ".".join(["s"] + full[len(pre):] + [sg["name"]]) + ob["suf"]

    def bits(self, o):
        ob = self.objs[o - 1]
        return set() if ob["s"] == 0 else {(ob["s"], j) for j in range(ob["lo"], ob["hi"])}

    # -- descriptor for TLC
    def tlc(self):
        return {
            "comps": [(p or 0) for (_, p) in self.comps],
            "sigs": [{"h": s["h"], "k": s["k"], "w": TYPES[s["ty"]][1]} for s in self.sigs],
            "objs": [{"s": o["s"], "lo": o["lo"], "hi": o["hi"], "d": o["d"], "t": o["t"], "h": o["h"]}
                     for o in self.objs],
            "stmts": [{"k": "c", "a": st["a"], "b": st["b"], "at": st["at"]} if st["k"] == "c" else
                      {"k": st["k"], "at": st["at"], "wr": st["wr"], "rd": st["rd"],
                       "calls": [c + 1 for c in st.get("calls", [])]} for st in self.stmts],
        }

    def key(self):
        """Canonical, stable text of the design (used in violation keys)."""
        used = {self.objs[o - 1]["s"] for st in self.stmts
                for o in ([st["a"], st["b"]] if st["k"] == "c" else [w["o"] for w in st["wr"]] + st["rd"])}
        sg = ",".join("%s:%s" % (".".join(["s"] + self.comp_path(s["h"]) + [s["name"]]), s["k"] + s["ty"])
                      for i, s in enumerate(self.sigs) if (i + 1) in used)
        ss = []
        for si, st in enumerate(self.stmts):
            at = ".".join(["s"] + self.comp_path(st["at"]))
            if st["k"] == "c":
                ss.append("%s~%s@%s" % (self.abs_name(st["a"]), self.abs_name(st["b"]), at))
            else:
                # helpers are named by their statement index (h3 = the helper fn3 of the source)
                ss.append("%s@%s{%s}%s%s" % (st["k"] if st["k"] != "h" else "h%d" % si, at,
                                             ",".join(self.abs_name(w["o"]) + w["op"] for w in st["wr"]),
                                             ("<" + ",".join(self.abs_name(r) for r in st["rd"])) if st["rd"] else "",
                                             (">" + ",".join("h%d" % c for c in st["calls"])) if st.get("calls") else ""))
        return (self.tag + "|" if self.tag else "") + sg + "|" + ";".join(ss)

    # -- JSON for the worker
    def dump(self):
        return {"comps": self.comps, "tag": self.tag, "sigs": self.sigs, "objs": self.objs, "stmts": self.stmts}

    @staticmethod
    def load(d):
        D = Design([tuple(c) for c in d["comps"]], d.get("tag", ""))
        D.sigs, D.objs, D.stmts = d["sigs"], d["objs"], d["stmts"]
        # rebuild the indexes: sig() / obj() on a loaded design must find the existing entries
        # (a second object for the same view would be a different node of the connection graph)
        D._sigidx = {(sg["h"], sg["name"]): i for i, sg in enumerate(D.sigs, 1)}
        D._objidx = {(o["s"], o["suf"]): i for i, o in enumerate(D.objs, 1) if o["s"] != 0}
        assert len(D._sigidx) == len(D.sigs) and len(D._objidx) == sum(1 for o in D.objs if o["s"] != 0), \
            "duplicate signal / object in a design descriptor"
        return D

    # -- shape predicates used to name families of findings
    def blocks(self):
        return [st for st in self.stmts if st["k"] not in ("c", "h")]

    def same_block_overlapping_sibling_slices(self):
        for st in self.blocks():
            ws = [self.objs[w["o"] - 1] for w in st["wr"]]
            for a, b in itertools.combinations(ws, 2):
                if a["s"] == b["s"] and a["s"] and a["suf"].endswith("]") and b["suf"].endswith("]") \
                   and a["suf"].rsplit("[", 1)[0] == b["suf"].rsplit("[", 1)[0] and a["suf"] != b["suf"] \
                   and max(a["lo"], b["lo"]) < min(a["hi"], b["hi"]):
                    return True
        return False

    def same_block_whole_and_part(self):
        """[(stmt index, write index of the part)] where a block writes an object and a strict part of it"""
        out = []
        for si, st in enumerate(self.stmts):
            if st["k"] == "c":
                continue
            for i, w in enumerate(st["wr"]):
                for j, v in enumerate(st["wr"]):
                    if i != j and self.bits(w["o"]) < self.bits(v["o"]):
                        out.append((si, i))
        return out

    def self_connect(self):
        return any(st["k"] == "c" and st["a"] == st["b"] for st in self.stmts)

    def loopback_not_at_host_or_parent(self):
        for st in self.stmts:
            if st["k"] == "c" and st["a"] != st["b"]:
                a, b = self.objs[st["a"] - 1], self.objs[st["b"] - 1]
                if a["s"] and b["s"] and a["h"] == b["h"]:
                    ks = {self.sigs[a["s"] - 1]["k"], self.sigs[b["s"] - 1]["k"]}
                    if ks == {"in", "out"} and st["at"] != a["h"] and st["at"] != self.comps[a["h"] - 1][1]:
                        return True
        return False


# ------------------------------------------------------------------------------------------
# code generation
# ------------------------------------------------------------------------------------------

def _junk(R):
    r = R.random()
    if r < 0.35:
        return []
    if r < 0.6:
        return ["_J.append( [ object() for _ in range(%d) ] )" % R.randint(1, 9)]
    if r < 0.8:
        return ["_J.append( [ _K() for _ in range(%d) ] )" % R.randint(1, 5)]
    return ["_J.append( bytearray(%d) )" % R.choice([24, 56, 120, 248, 504])]


MIN_VARIANTS = 8


def variants_of(D, cap, R):
    """(perm, flips) pairs: every permutation of the statements x every side flip of the connects,
    or a seeded sample of `cap` of them (identity and full reversal always included)."""
    n = len(D.stmts)
    conns = [i for i, st in enumerate(D.stmts) if st["k"] == "c"]
    total = 1
    for k in range(2, n + 1):
        total *= k
    total *= 2 ** len(conns)
    if total <= cap:
        out = []
        for p in itertools.permutations(range(n)):
            for f in range(2 ** len(conns)):
                out.append((list(p), f))
        # the outcome may also depend on object addresses (sets of signals hash by id): every
        # variant is generated with its own dummy allocations, so give small designs a few more
        base = list(out)
        while len(out) < MIN_VARIANTS:
            out += base[:MIN_VARIANTS - len(out)]
        return out, True
    out = {(tuple(range(n)), 0), (tuple(range(n - 1, -1, -1)), 2 ** len(conns) - 1)}
    while len(out) < cap:
        p = list(range(n))
        R.shuffle(p)
        out.add((tuple(p), R.randrange(2 ** len(conns))))
    return [(list(p), f) for (p, f) in sorted(out)], False


def gen_variant(D, perm, flips, junkseed, cname):
    """Source of one variant: classes <cname>_<comp index>; returns (source, top class name)."""
    R = random.Random(junkseed)
    conns = [i for i, st in enumerate(D.stmts) if st["k"] == "c"]
    flip = {ci: bool((flips >> k) & 1) for k, ci in enumerate(conns)}
    out = []
    order = sorted(range(1, len(D.comps) + 1), key=lambda c: -len(D.comp_path(c)))
    gidx = 0
    gmap = {}
    done_groups = set()
    for si, st in enumerate(D.stmts):
        if st["k"] != "c":
            for wi, _ in enumerate(st["wr"]):
                gmap[(si, wi)] = gidx % 24
                gidx += 1
    for c in order:
        L = ["class %s_%d( Component ):" % (cname, c), "  def construct( s ):"]
        B = []
        ifcs = {}
        for i, sg in enumerate(D.sigs):
            if sg["h"] == c:
                if "." in sg["name"]:
                    # a port of an interface: "ifc.lane[1][0]" (all elements of a port list have one kind / type)
                    pre, port = sg["name"].split(".", 1)
                    base = port.split("[", 1)[0]
                    idx = tuple(int(x) for x in re.findall(r"\[(\d+)\]", port))
                    e = ifcs.setdefault(pre, {}).setdefault(base, {"k": sg["k"], "ty": sg["ty"], "idx": []})
                    assert (e["k"], e["ty"]) == (sg["k"], sg["ty"]) and "." not in port
                    e["idx"].append(idx)
                    continue
                B += _junk(R)
                B.append("s.%s = %s( %s )" % (sg["name"], KINDCLS[sg["k"]], TYPES[sg["ty"]][0]))
        for pre in sorted(ifcs):
            icls = "%s_%d_%s" % (cname, c, pre)
            IL = ["class %s( Interface ):" % icls, "  def construct( s ):"]
            for base in sorted(ifcs[pre]):
                e = ifcs[pre][base]
                nd = len(e["idx"][0])
                dims = [1 + max(ix[d] for ix in e["idx"]) for d in range(nd)]
                assert len(e["idx"]) == len(set(e["idx"])) and all(len(ix) == nd for ix in e["idx"])
                n = 1
                for d_ in dims:
                    n *= d_
                assert n == len(e["idx"]), "port list %s.%s is not a full grid" % (pre, base)
                txt = "%s( %s )" % (KINDCLS[e["k"]], TYPES[e["ty"]][0])
                for d_ in reversed(dims):
                    txt = "[ %s for _ in range(%d) ]" % (txt, d_)
                IL.append("    s.%s = %s" % (base, txt))
            out += IL + [""]
            B += _junk(R)
            B.append("s.%s = %s()" % (pre, icls))
        for ch in range(1, len(D.comps) + 1):
            if D.comps[ch - 1][1] == c:
                B += _junk(R)
                B.append("s.%s = %s_%d()" % (D.comps[ch - 1][0], cname, ch))
        for si in perm:
            st = D.stmts[si]
            if st["at"] != c:
                continue
            B += _junk(R)
            if st["k"] == "c" and st.get("grp"):
                gid, ga, gb = st["grp"]
                if (c, gid) in done_groups:
                    continue            # the interface-level statement has been written for an earlier pair
                done_groups.add((c, gid))
                pre = D.comp_path(c)
                names = [".".join(["s"] + D.comp_path(gc)[len(pre):] + [gn]) for (gc, gn) in (ga, gb)]
                if flip[si]:
                    names.reverse()
                B.append("connect( %s, %s )" % tuple(names) if (junkseed + si) % 2 else "%s //= %s" % tuple(names))
            elif st["k"] == "c":
                a, b = (st["b"], st["a"]) if flip[si] else (st["a"], st["b"])
                ea, eb = D.rel_name(a, c), D.rel_name(b, c)
                if (junkseed + si) % 3 == 1:
                    # the same objects written as slices of slices (legal in connect statements only):
                    # x[lo:hi] == x[lo:W][0:hi-lo]; pymtl3 re-registers such a slice on the base signal
                    ea, eb = _nested_slice_form(D, a, ea), _nested_slice_form(D, b, eb)
                oa = D.objs[a - 1]
                sugar = oa["s"] != 0 and (oa["d"] == 0 or oa["suf"].endswith("]")) and (junkseed + si) % 2 == 0
                B.append("%s //= %s" % (ea, eb) if sugar else "connect( %s, %s )" % (ea, eb))
            elif st["k"] == "l":
                (w,) = st["wr"]
                B.append("%s //= lambda: %s" % (D.rel_name(w["o"], c), _rhs(D, st, si, 0, c, gmap)))
            else:
                if st["k"] == "h":
                    B.append("@s.func")
                    B.append("def fn%d():" % si)
                else:
                    B.append("@update" if st["k"] == "u" else "@update_ff")
                    B.append("def blk%d():" % si)
                body = []
                for wi, w in enumerate(st["wr"]):
                    body.append("  %s %s %s" % (D.rel_name(w["o"], c), w["op"], _rhs(D, st, si, wi, c, gmap)))
                for ri in range(len(st["wr"]), len(st["rd"])):
                    body.append("  _r%d = %s" % (ri, D.rel_name(st["rd"][ri], c)))
                # calls of helpers: as statements or inside an expression, before or after the
                # block's own assignments (a helper may be defined before or after its callers:
                # the statement order is `perm`)
                calls = ["  fn%d()" % h if (junkseed + si + k) % 3 else "  _c%d = fn%d()" % (k, h)
                         for k, h in enumerate(st.get("calls", []))]
                body = calls + body if (junkseed + si) % 2 else body + calls
                shape = st.get("shape")
                if shape is None and body and (junkseed + si) % 4 == 3:
                    # one block in four: the same statements inside a (semantically neutral) control structure
                    shape = ("if", "for", "tail-if", "nested")[((junkseed + si) // 4) % 4]
                B += _shape_body(body, shape) or ["  pass"]
        if not B:
            B = ["pass"]
        out += L + ["    " + x for x in B] + [""]
    return "\n".join(out), "%s_1" % cname


def _shape_body(body, shape):
    """Lay the statements of a block out inside control structures.  What a block reads and writes and which
    assignment operators it uses does not depend on where in the body a statement stands, so the
    classification of the design is the same for every shape (the conditions are constant-true / the loops
    run once, so the simulated values are the same too, except for 'else', used by C09-only designs)."""
    if not shape or len(body) < 1:
        return body
    ind = lambda ls: ["  " + x for x in ls]
    if shape == "if":                    # everything in one if-body
        return ["  if 1 == 1:"] + ind(body)
    if shape == "for":                   # everything in one loop body
        return ["  for _k in range(1):"] + ind(body)
    if shape == "else":                  # first statement in the if-body, the rest in the else-branch
        return ["  if 1 == 1:"] + ind(body[:1]) + ["  else:"] + ind(body[1:] or ["  pass"])
    if shape == "tail-if":               # first statement flat, the rest in an if-body
        return body[:1] + (["  if 1 == 1:"] + ind(body[1:]) if body[1:] else [])
    if shape == "nested":                # first statement in a loop, the rest in an if inside that loop
        return ["  for _k in range(1):"] + ind(body[:1]) + (["    if 1 == 1:"] + ind(ind(body[1:])) if body[1:] else [])
    raise ValueError(shape)


def _rhs(D, st, si, wi, c, gmap):
    w = st["wr"][wi]
    t = D.objs[w["o"] - 1]["t"]
    if wi < len(st["rd"]) and D.objs[st["rd"][wi] - 1]["t"] == t:
        return D.rel_name(st["rd"][wi], c)
    return "V( %s, %d, s )" % (TYPES[t][0], gmap[(si, wi)])


# ------------------------------------------------------------------------------------------
# worker (runs in a sub-process)
# ------------------------------------------------------------------------------------------

_TYPE_RE = re.compile(r"\[Type (\d)\]")


def _outcome(e):
    n = type(e).__name__
    if n == "SignalTypeError":
        m = _TYPE_RE.search(str(e))
        return n + ":" + (m.group(1) if m else "?")
    return n


def _project(D, names, top):
    nets = []
    for (w, mem) in top.get_all_value_nets():
        rs = sorted(_nm(x) for x in mem)
        if all(r.rsplit(".", 1)[-1] in ("clk", "reset") for r in rs):
            if w is None or _nm(w) not in ("s.clk", "s.reset"):
                nets.append([0, [0]])       # clock/reset nets must be headed by the top's ports
            continue
        nets.append([names.get(_nm(w), 0) if w is not None else 0, sorted(names.get(r, 0) for r in rs)])
    nets.sort(key=lambda n: n[1])
    return nets


def _nm(x):
    d = x._dsl
    if hasattr(d, "const"):
        T = d.Type
        try:
            v = int(d.const)
        except Exception:
            v = int(d.const.to_bits())
        tn = {"Bits2": "b2", "Bits4": "b4", "Bits8": "b8"}.get(T.__name__, T.__name__)
        return "const:%s:%d" % (tn, v)
    return repr(x)


def _attr(x, name):
    """getattr along a declared name: "o", "pi.en", "pi.lane[1][0]" (ports of interfaces / port lists)"""
    for tok in re.findall(r"\w+|\[\d+\]", name):
        x = x[int(tok[1:-1])] if tok[0] == "[" else getattr(x, tok)
    return x


def _read(D, top, o):
    ob = D.objs[o - 1]
    if ob["s"] == 0:
        return ob["val"]
    sg = D.sigs[ob["s"] - 1]
    x = top
    for nm in D.comp_path(sg["h"]):
        x = getattr(x, nm)
    x = _attr(x, sg["name"])
    for tok in re.findall(r"\.\w+|\[\d+:\d+\]", ob["suf"]):
        if tok[0] == ".":
            x = getattr(x, tok[1:])
        else:
            a, b = tok[1:-1].split(":")
            x = x[int(a):int(b)]
    from pymtl3.datatypes import is_bitstruct_inst
    return int(x.to_bits()) if is_bitstruct_inst(x) else int(x)


def _simulate(D, mod, top, R, ncyc, members):
    from pymtl3.passes.PassGroups import DefaultPassGroup
    evs = []
    top.apply(DefaultPassGroup())
    top.sim_reset()
    tins = [sg for sg in D.sigs if sg["h"] == 1 and sg["k"] == "in"]
    for cyc in range(ncyc):
        for i in range(len(mod.G)):
            mod.G[i] = R.randrange(256)
        for sg in tins:
            port = _attr(top, sg["name"])
            n = TYPES[sg["ty"]][1]
            v = R.randrange(1 << n)
            if sg["ty"] == "St":
                port @= mod.St.from_bits(mod.Bits8(v))
            elif sg["ty"] == "In2":
                port @= mod.In2.from_bits(mod.Bits4(v))
            else:
                port @= v
        top.sim_eval_combinational()
        evs.append({"k": "sim", "vals": [[o, _read(D, top, o)] for o in members]})
        top.sim_tick()
        evs.append({"k": "sim", "vals": [[o, _read(D, top, o)] for o in members]})
    return evs


def worker_main(jobfile, outfile):
    job = json.load(open(jobfile))
    sys.path.insert(0, os.getcwd())
    seed = job["seed"]
    results = []
    chunk_src, chunk_items = [PREAMBLE], []
    fileno = [0]

    def flush():
        if not chunk_items:
            return
        name = "elabmod_%d_%d" % (os.getpid(), fileno[0])
        fileno[0] += 1
        with open(name + ".py", "w") as f:
            f.write("\n".join(chunk_src))
        mod = importlib.import_module(name)
        for (res, D, names, members, vi, cls, dosim, ncyc) in chunk_items:
            top = None
            try:
                top = getattr(mod, cls)()
                top.elaborate()
                out, nets = "ok", _project(D, names, top)
            except BaseException as e:  # noqa: BLE001 - the class of every failure is the observation
                if isinstance(e, (KeyboardInterrupt, MemoryError)):
                    raise
                out, nets = _outcome(e), []
                res["msgs"].setdefault(out, str(e)[:400])
            k = json.dumps([out, nets])
            slot = res["outs"].setdefault(k, {"n": 0, "ex": vi})
            slot["n"] += 1
            if out == "ok" and dosim:
                try:
                    R = random.Random("%d/%s/%d" % (seed, res["idx"], vi))
                    res["sims"].append({"v": vi, "ev": _simulate(D, mod, top, R, ncyc, members)})
                except BaseException as e:  # noqa: BLE001
                    if isinstance(e, (KeyboardInterrupt, MemoryError)):
                        raise
                    res["sims"].append({"v": vi, "err": "%s: %s" % (type(e).__name__, str(e)[:300])})
            mod._J.clear()
        del sys.modules[name]
        chunk_src[:] = [PREAMBLE]
        chunk_items[:] = []

    for item in job["designs"]:
        D = Design.load(item["d"])
        names = {D.abs_name(o): o for o in range(1, len(D.objs) + 1)}
        members = sorted({o for st in D.stmts if st["k"] == "c" for o in (st["a"], st["b"])})
        res = {"idx": item["idx"], "outs": {}, "sims": [], "msgs": {}, "nvar": len(item["variants"])}
        results.append(res)
        simset = set(item.get("sim", []))
        for vi, (perm, flips) in enumerate(item["variants"]):
            cname = "D%d_v%d" % (item["idx"], vi)
            src, cls = gen_variant(D, perm, flips, seed * 1000003 + item["idx"] * 131 + vi, cname)
            chunk_src.append(src)
            chunk_items.append((res, D, names, members, vi, cls, vi in simset, item.get("ncyc", 3)))
            if len(chunk_items) >= 150:
                flush()
    flush()
    with open(outfile, "w") as f:
        json.dump(results, f)


if __name__ == "__main__":
    worker_main(sys.argv[1], sys.argv[2])


# ------------------------------------------------------------------------------------------
# harness side: TLC classification, worker fan-out, comparison (imported by props/c08.py, c09.py)
# ------------------------------------------------------------------------------------------

ELAB_ACTIONS = ("Stmt", "HeadNet", "Conflict", "Stuck", "Finish")


def classify(designs, res=None, nchunks=None):
    """Run Elab.tla on the descriptors (every statement permutation and every worklist order is
    explored, OpAgrees checked) and return, per design, the printed declarative result
    {"nets": {frozenset(members): writer}, "defects": set, "unspec": set}."""
    import tempfile
    import shutil
    from concurrent.futures import ThreadPoolExecutor
    import tlc
    from common import MachineryError
    n = len(designs)
    if n == 0:
        return [], {}
    ncpu = os.cpu_count() or 4
    # a TLC process costs ~5 CPU-seconds before its first state and a few ms per design after
    # that -- unless it collects coverage (`-coverage` makes the evaluation of Analysis ~10x slower):
    # the per-action coverage is therefore taken from ONE extra run over a stride sample of the
    # batch (chunk index -1; its printed results are not used), all designs are classified without
    nchunks = nchunks or max(1, min(ncpu, (n + 119) // 120))
    size = (n + nchunks - 1) // nchunks
    chunks = [(i, designs[i:i + size]) for i in range(0, n, size)]
    covsample = designs[:24] + designs[24::max(1, n // 40)][:48]     # the grids start with the fixed shapes
    tmp = tempfile.mkdtemp(prefix="elabtlc_")
    out = [None] * n
    cov = {}

    def one(ci):
        base, ds = chunks[ci] if ci >= 0 else (-1, covsample)
        fn = os.path.join(tmp, "in_%d.json" % ci)
        with open(fn, "w") as f:
            json.dump({"designs": [d.tlc() for d in ds]}, f)
        return base, len(ds), tlc.run("Elab", cfg="Elab.cfg", env={"VERIF_INPUT": fn}, workers=1,
                                      coverage=ci < 0, timeout=3600, light=ci >= 0)
    try:
        with ThreadPoolExecutor(max_workers=ncpu) as ex:
            for base, cnt, r in ex.map(one, range(-1, len(chunks))):
                if res is not None:
                    res.add_tlc(r)
                if r.violated:
                    raise MachineryError("Elab.tla: invariant %s violated (the operational model and the "
                                         "declarative Analysis disagree)\n%s" % (r.violated, r.out[-3000:]))
                if r.errors or not r.ok:
                    raise MachineryError("TLC failed on Elab: %s\n%s" % (r.errors, r.out[-3000:]))
                for k, v in r.coverage.items():
                    cov[k] = cov.get(k, 0) + v[1]
                if base < 0:
                    continue
                acc = {}
                for p in r.prints:
                    if p and p[0] == "R":
                        acc.setdefault(p[1], set()).add(tlc._freeze(p[2:]))
                for k in range(1, cnt + 1):
                    lines = acc.get(k)
                    if not lines:
                        raise MachineryError("Elab printed no result for design %d\n%s" % (base + k, r.out[-2000:]))
                    e = {"nets": {}, "defects": None, "unspec": None, "mwwhy": set()}
                    for ln in lines:
                        if ln[0] == "N":
                            if ln[2] in e["nets"]:
                                raise MachineryError("two results for one net of design %d" % (base + k))
                            e["nets"][frozenset(ln[2])] = ln[1]
                        else:
                            if e["defects"] is not None:
                                raise MachineryError("two defect sets for design %d" % (base + k))
                            e["defects"], e["unspec"], e["mwwhy"] = set(ln[1]), set(ln[2]), set(ln[3])
                    out[base + k - 1] = e
        return out, cov
    finally:
        shutil.rmtree(tmp, ignore_errors=True)


def run_jobs(items, hashseeds, seed, nproc=None):
    """items: [{"idx", "d": Design, "variants", "sim", "ncyc"}] -> worker results ordered like items.
    Must be called inside common.scratch()."""
    from common import REPO, MachineryError
    nproc = min(nproc or (os.cpu_count() or 4), max(1, len(items)))
    # balance by number of variants
    order = sorted(range(len(items)), key=lambda i: -len(items[i]["variants"]))
    bins = [[] for _ in range(nproc)]
    load = [0] * nproc
    for i in order:
        j = load.index(min(load))
        bins[j].append(i)
        load[j] += len(items[i]["variants"]) + 5 * len(items[i].get("sim", []))
    procs = []
    for j, b in enumerate(bins):
        if not b:
            continue
        d = os.path.join(os.getcwd(), "w%d" % j)
        os.makedirs(d, exist_ok=True)
        with open(os.path.join(d, "job.json"), "w") as f:
            json.dump({"seed": seed, "designs": [dict(items[i], d=items[i]["d"].dump()) for i in b]}, f)
        env = dict(os.environ)
        env["PYTHONPATH"] = REPO
        env["PYTHONHASHSEED"] = str(hashseeds[j % len(hashseeds)])
        env["PYTHONDONTWRITEBYTECODE"] = "1"
        p = subprocess.Popen([sys.executable, os.path.abspath(__file__), "job.json", "out.json"], cwd=d, env=env,
                             stdout=subprocess.PIPE, stderr=subprocess.STDOUT, text=True)
        procs.append((j, d, p))
    results = {}
    for j, d, p in procs:
        outp, _ = p.communicate()
        if p.returncode != 0:
            raise MachineryError("elaboration worker %d failed (rc %s):\n%s" % (j, p.returncode, outp[-3000:]))
        for r in json.load(open(os.path.join(d, "out.json"))):
            results[r["idx"]] = r
    return [results[it["idx"]] for it in items]


_SIB_RE = re.compile(r"Two-writer conflict between sibling slices\. \n - \S+ \(in (\w+)\)\n - \S+ \(in (\w+)\)")


_SELF_RE = re.compile(r'Two-writer conflict "([^"]+)"\(as "[^"]+" is written somewhere else\), "([^"]+)"')


def _net_pairs(nets):
    return {(frozenset(m), w) for (w, m) in nets}


def judge(D, exp, out, nets, prop):
    """The verdict ElabTrace gives for one elaboration outcome, recomputed in Python from the
    result TLC printed (spec -> code direction).  Returns a clause name or None.  prop "C09":
    accept / reject / error class only (nets and writers are C08's subject); prop "C08": designs
    with defects are outside the premise."""
    illegal = bool(exp["defects"])
    if prop == "C08" and illegal:
        return None
    if out == "ok":
        if exp["unspec"] and illegal:
            return None
        if illegal:
            return "illegal-design-accepted"
        if prop == "C09":
            return None
        if {frozenset(m) for (_, m) in nets} != set(exp["nets"]):
            return "nets-are-not-the-connected-components"
        if _net_pairs(nets) != {(N, w) for N, w in exp["nets"].items()}:
            return "wrong-writer"
        return None
    if exp["unspec"]:
        return None
    if not illegal:
        return "legal-design-rejected"
    if out not in images(exp["defects"]):
        return "wrong-error-class"
    return None


_IMG = {"MW": {"MultiWriterError"}, "NW": {"NoWriterError"}, "Loop": {"InvalidConnectionError"},
        "Self": {"InvalidConnectionError"}, "TM": {"InvalidConnectionError"},
        "LamClash": {"UpblkFuncSameNameError", "MultiWriterError"},
        "T5L": {"InvalidConnectionError", "SignalTypeError:5"}, "OpU": {"UpdateBlockWriteError"},
        "OpF": {"UpdateFFBlockWriteError"}, "OpFNT": {"UpdateFFNonTopLevelSignalError"}}
for _k in "12356789":
    _IMG["T" + _k] = {"SignalTypeError:" + _k}
_IMG["T4"] = {"SignalTypeError:4"}


def images(defects):
    """Python copy of Elab!Images, used only for the spec -> code comparison; the authoritative
    verdict is ElabTrace's (both are required to agree, see check_designs)."""
    s = set()
    for d in defects:
        s |= _IMG.get(d, set())
    return s


def family_key(D, e, clause, out, msg, reduced_ok):
    """Name of the root cause for the failing shapes recognised so far (each is pinned by a shape
    predicate of the design AND the clause / exception / message observed, so that another
    violation on a similar design keeps its own key); None -> "<clause>:<outcome>".  The violation
    key is always "<this name>:<canonical text of the design>", the same under C08 and C09."""
    if clause == "illegal-design-accepted" and e["defects"] == {"MW"} and e["mwwhy"] == {"rov"}:
        return "net-drives-overlapping-members-accepted"
    if clause == "legal-design-rejected" and out == "MultiWriterError" and D.same_block_overlapping_sibling_slices():
        m = _SIB_RE.search(msg or "")
        if m and m.group(1) == m.group(2):
            return "same-block-overlapping-sibling-slices-rejected"
    if clause == "legal-design-rejected" and out == "MultiWriterError" and D.same_block_whole_and_part() and reduced_ok:
        m = _SELF_RE.search(msg or "")
        if m and m.group(1) == m.group(2):
            return "same-block-writes-whole-and-part:member-in-conflict-with-itself"
    if D.same_block_whole_and_part() and reduced_ok:
        return "same-block-writes-whole-and-part:%s:%s" % (clause, out)
    if clause == "wrong-error-class" and out == "KeyError" and D.self_connect():
        return "self-connect-raises-KeyError"
    if clause == "wrong-error-class" and out == "AssertionError" and D.loopback_not_at_host_or_parent() \
            and "contact pymtl3 developers" in (msg or ""):
        return "loopback-connected-above-parent-raises-AssertionError"
    return None


def reduced(D):
    """Copy of D in which every block that writes an object and a strict part of it keeps only the
    enclosing object (same per-bit drivers, same object table)."""
    R = Design.load(json.loads(json.dumps(D.dump())))
    drop = {}
    for si, wi in D.same_block_whole_and_part():
        drop.setdefault(si, set()).add(wi)
    for si, ws in drop.items():
        R.stmts[si]["wr"] = [w for i, w in enumerate(R.stmts[si]["wr"]) if i not in ws]
    return R


def check_designs(res, designs, *, prop, cap, nsim, ncyc, hashseeds, tag, cross_seed=0):
    """The whole pipeline for a list of designs.  Returns a dict with everything the canaries need.
    Must be called inside common.scratch().  prop "C08": only the designs Elab.tla calls free of
    defects are elaborated (the others are outside C08's premise; C09 elaborates them)."""
    import tlc
    from common import MachineryError, rng, seed
    assert prop in ("C08", "C09")
    R = rng(tag)
    t0 = time.time()
    exp, cov = classify(designs, res)
    res.note("seconds_classify", round(time.time() - t0, 1))
    res.count("designs_classified_by_Elab", len(designs))
    exp_all = exp
    if prop == "C08":
        keep = [i for i, e in enumerate(exp) if not e["defects"]]
        res.count("designs_with_defects_not_elaborated", len(designs) - len(keep))
        designs, exp = [designs[i] for i in keep], [exp[i] for i in keep]
    if not designs:
        return {"designs": [], "exp": [], "exp_all": exp_all, "results": [], "traces": [], "verdicts": [],
                "elab_cov": cov, "trace_runs": [], "items": []}
    items = []
    nvar = 0
    for i, D in enumerate(designs):
        vs, full = variants_of(D, cap, R)
        nvar += len(vs)
        sim = sorted({0, len(vs) - 1} | {R.randrange(len(vs)) for _ in range(max(0, nsim - 2))})[:nsim] if nsim else []
        items.append({"idx": i, "d": D, "variants": vs, "sim": sim, "ncyc": ncyc, "full": full})
    t0 = time.time()
    results = run_jobs(items, hashseeds, seed())
    res.note("seconds_elaborate", round(time.time() - t0, 1))
    t0 = time.time()
    # the same designs again under other hash seeds (subset): outcomes must be the same sets
    if cross_seed:
        sub = [dict(items[i], idx=i) for i in range(0, len(items), max(1, len(items) // cross_seed))]
        for hs in (hashseeds[-1] + 101, hashseeds[-1] + 202):
            for it, r in zip(sub, run_jobs(sub, [hs], seed() + hs)):
                base = results[it["idx"]]
                for k, v in r["outs"].items():
                    slot = base["outs"].setdefault(k, {"n": 0, "ex": v["ex"], "hashseed": hs})
                    slot["n"] += v["n"]
                for k, v in r["msgs"].items():
                    base["msgs"].setdefault(k, v)
                base["nvar"] += r["nvar"]
                nvar += r["nvar"]
    res.note("seconds_elaborate_other_hashseeds", round(time.time() - t0, 1))
    res.add_evals(nvar)
    res.count("elaborations", nvar)
    res.count("designs", len(designs))
    res.count("designs_all_permutations_and_flips", sum(1 for it in items if it["full"]))
    # ---- comparison, Python side (spec -> code) and trace construction (code -> spec)
    traces, owners = [], []
    pyverdict = []
    nlegal = nunspec = nord = 0
    for i, (D, e, r) in enumerate(zip(designs, exp, results)):
        if not e["defects"]:
            nlegal += 1
        if e["unspec"]:
            nunspec += 1
            res.count("unspecified:" + "+".join(sorted(e["unspec"])))
        if len(r["outs"]) > 1:
            nord += 1
        evs, bad = [], []
        for k, v in sorted(r["outs"].items(), key=lambda kv: kv[1]["ex"]):
            out, nets = json.loads(k)
            evs.append({"k": "elab", "out": out, "nets": nets, "n": v["n"]})
            c = judge(D, e, out, nets, prop)
            if c:
                bad.append((c, out, nets, v))
            res.count("outcome:" + out.split(":")[0], v["n"])
        for s in r["sims"]:
            if "err" in s:
                bad.append(("simulation-raises", s["err"].split(":")[0], [], {"n": 1, "ex": s["v"]}))
            else:
                evs += s["ev"]
        pyverdict.append(bad)
        traces.append({"p": prop, "d": D.tlc(), "ev": evs})
        owners.append(i)
        res.distinct(D.key())
    res.count("legal_designs", nlegal)
    res.count("designs_with_unspecified_shape", nunspec)
    res.count("designs_with_order_dependent_outcome", nord)
    t0 = time.time()
    runs, verdicts = tlc.validate_traces("ElabTrace", {"traces": traces})
    res.note("seconds_validate_traces", round(time.time() - t0, 1))
    for r in runs:
        res.add_tlc(r)
    res.add_traces(len(traces))
    # ---- verdicts -> violations
    pending = []
    for i, ((err, pos), bad) in enumerate(zip(verdicts, pyverdict)):
        D, e, r = designs[i], exp[i], results[i]
        tl = None
        if err == "ok" and pos != len(traces[i]["ev"]) + 1:
            raise MachineryError("ElabTrace accepted trace %d without consuming all its events" % i)
        if err != "ok":
            ev = traces[i]["ev"][pos - 1]
            tl = (err, ev.get("out", "sim"), ev)
        py = bad[0] if bad else None
        # the two directions must tell the same story for elaboration events
        if (tl is None) != (py is None) and not (tl and tl[0] in ("net-incoherent", "bad-trace-missing-value")) \
           and not (py and py[0] == "simulation-raises"):
            raise MachineryError("ElabTrace verdict %r and the comparison with Elab's printed result %r differ "
                                 "for %s" % (tl, py, D.key()))
        if tl is None and py is None:
            continue
        clause = tl[0] if tl else py[0]
        out = tl[1] if tl else py[1]
        pending.append((i, clause, out, tl, py))
    # family attribution for the whole-and-part shape needs the reduced design's behaviour
    red_idx = [i for (i, *_rest) in pending if designs[i].same_block_whole_and_part()]
    red_ok = {}
    if red_idx:
        rd = [reduced(designs[i]) for i in red_idx]
        rexp, _ = classify(rd, res)
        ritems = [{"idx": k, "d": d, "variants": items[i]["variants"], "sim": [], "ncyc": 0}
                  for k, (i, d) in enumerate(zip(red_idx, rd))]
        rres = run_jobs(ritems, hashseeds, seed())
        for i, d, e2, r2 in zip(red_idx, rd, rexp, rres):
            same_exp = (e2["nets"] == exp[i]["nets"] and e2["defects"] == exp[i]["defects"])
            conf = all(judge(d, e2, *json.loads(k), prop) is None for k in r2["outs"])
            red_ok[i] = same_exp and conf
    for (i, clause, out, tl, py) in pending:
        D, e, r = designs[i], exp[i], results[i]
        msg = r["msgs"].get(out, "")
        fam = family_key(D, e, clause, out, msg, red_ok.get(i, False))
        key = "%s:%s" % (fam or ("%s:%s" % (clause, out)), D.key())
        outs = {json.loads(k)[0]: v["n"] for k, v in r["outs"].items()}
        res.violation(key,
                      "%s: design %s -- spec: defects=%s nets=%s; pymtl3 over %d statement orders/side flips: %s%s"
                      % (clause, D.key(), sorted(e["defects"]) or "{}",
                         sorted((w, sorted(N)) for N, w in e["nets"].items()), r["nvar"], outs,
                         (" [" + msg.replace("\n", " ")[:160] + "]") if msg else ""),
                      {"design": D.dump(), "expected": {"defects": sorted(e["defects"]), "unspec": sorted(e["unspec"]),
                                                        "two_drivers_because": sorted(e["mwwhy"]),
                                                        "nets": sorted((w, sorted(N)) for N, w in e["nets"].items())},
                       "observed": r["outs"], "messages": r["msgs"],
                       "example_variant": items[i]["variants"][(tl[2].get("n") and r["outs"][json.dumps([tl[2]["out"], tl[2]["nets"]])]["ex"]) if tl and tl[2].get("k") == "elab" else 0],
                       "source": gen_variant(D, *items[i]["variants"][0], 0, "X")[0]})
    return {"designs": designs, "exp": exp, "exp_all": exp_all, "results": results, "traces": traces, "verdicts": verdicts,
            "elab_cov": cov, "trace_runs": runs, "items": items}


# ------------------------------------------------------------------------------------------
# generators
# ------------------------------------------------------------------------------------------

SLOTS = {"a": "b4", "b": "b4", "c": "b8", "x": "St"}     # the per-component signal universe
HIER2 = [("s", None), ("c1", 1), ("c2", 1)]
HIER3 = [("s", None), ("c1", 1), ("c2", 1), ("g", 2)]


def view_pairs(ty):
    """ordered pairs of distinct, bit-overlapping views of a signal of type ty"""
    vs = VIEWS[ty]
    return [(a, b) for a in vs for b in vs
            if a != b and max(vs[a][0], vs[b][0]) < min(vs[a][1], vs[b][1])]


def chain_cells():
    """src -> X.v1 ; X.v2 -> Y.w1 ; Y.w2 -> sink   with (v1,v2), (w1,w2) overlapping view pairs:
    the writer of the second and third net is only known through a bit-overlapping relative."""
    cells = []
    for xt in ("b4", "b8", "St"):
        for (v1, v2) in view_pairs(xt):
            for yt in ("b4", "b8", "St"):
                for (w1, w2) in view_pairs(yt):
                    if VIEWS[xt][v2][3] == VIEWS[yt][w1][3]:
                        cells.append((xt, v1, v2, yt, w1, w2))
    return cells


def chain_design(cell, place, src):
    xt, v1, v2, yt, w1, w2 = cell
    t1, t3 = VIEWS[xt][v1][3], VIEWS[yt][w2][3]
    xn = {"b4": "a", "b8": "c", "St": "x"}[xt]
    yn = {"b4": "b", "b8": "c", "St": "x"}[yt]
    if place == "flat" and xn == yn:
        place = "down"
    D = Design(HIER2, "chain/%s/%s" % (place, src))
    if place == "flat":
        hx, kx, hy, ky, hs, hk = 1, "wire", 1, "wire", 1, 1
    elif place == "down":
        hx, kx, hy, ky, hs, hk = 1, "wire", 2, "in", 1, 2
    else:  # up
        hx, kx, hy, ky, hs, hk = 2, "out", 1, "wire", 2, 1
    X, Y = D.sig(hx, xn, kx, xt), D.sig(hy, yn, ky, yt)
    if src == "in" and hs != 1:
        src = "blk"
    if src == "const" and t1 not in ("b2", "b4", "b8"):
        src = "in" if hs == 1 else "blk"
    if src == "in":
        D.conn(D.obj(D.sig(1, "i", "in", t1)), D.obj(X, v1), 1)
    elif src == "const":
        D.conn(D.obj(X, v1), D.const(hs, t1, 1 + (len(v1) + len(w1)) % 3), hs)
    elif src == "direct":
        D.blk("u", hs, [(D.obj(X, v1), "@=")])
    else:
        w = D.obj(D.sig(hs, "w", "wire", t1))
        D.blk({"blk": "u", "lam": "l", "ff": "f"}[src], hs, [(w, "<<=" if src == "ff" else "@=")])
        D.conn(w, D.obj(X, v1), hs)
    D.conn(D.obj(X, v2), D.obj(Y, w1), 1 if (hx == 1 or hy == 1) else hx)
    D.conn(D.obj(Y, w2), D.obj(D.sig(hk, "o", "out", t3)), hk)
    return D


def fixed_shapes():
    """Small named designs that are always part of both grids (they pin the shapes behind the
    findings recorded for the unchanged tree, plus their legal neighbours)."""
    out = []
    # one block writes a struct and one of its fields; another field feeds a net
    for part, other, ot in ((".g", ".f", "b4"), (".f", ".g.p", "b2"), (".g.p", ".f", "b4")):
        D = Design([("s", None)], "fixed/whole+part")
        x = D.sig(1, "x", "wire", "St")
        D.conn(D.obj(x, other), D.obj(D.sig(1, "o", "out", ot)), 1)
        D.blk("u", 1, [(D.obj(x), "@="), (D.obj(x, part), "@=")])
        out.append(D)
    D = Design([("s", None)], "fixed/whole+part")
    a = D.sig(1, "a", "wire", "b4")
    D.conn(D.obj(a, "[2:4]"), D.obj(D.sig(1, "o", "out", "b2")), 1)
    D.blk("u", 1, [(D.obj(a), "@="), (D.obj(a, "[0:2]"), "@=")])
    out.append(D)
    # ... the net is fed by a slice that overlaps the written part
    for ty, part, other, ot in (("b8", "[2:6]", "[0:4]", "b4"), ("b4", "[1:3]", "[0:2]", "b2"),
                                ("St", ".f[0:2]", ".f[1:3]", "b2")):
        D = Design([("s", None)], "fixed/whole+part-ovl")
        c = D.sig(1, "c", "wire", ty)
        D.conn(D.obj(c, other), D.obj(D.sig(1, "o", "out", ot)), 1)
        D.blk("u", 1, [(D.obj(c), "@="), (D.obj(c, part), "@=")])
        out.append(D)
    # ... the same with the part written by nobody (legal neighbour)
    D = Design([("s", None)], "fixed/whole-only")
    x = D.sig(1, "x", "wire", "St")
    D.conn(D.obj(x, ".f"), D.obj(D.sig(1, "o", "out", "b4")), 1)
    D.blk("u", 1, [(D.obj(x), "@=")])
    out.append(D)
    # one block writes overlapping sibling slices / whole + slice / adjacent slices
    for ty, va, vb, tag in (("b8", "[0:4]", "[2:6]", "ovl"), ("b4", "[0:2]", "[1:3]", "ovl"),
                            ("St", ".f[0:2]", ".f[1:3]", "ovl"), ("b8", "", "[2:4]", "whole+slice"),
                            ("b4", "[0:2]", "[2:4]", "adjacent")):
        D = Design([("s", None)], "fixed/one-block-" + tag)
        c = D.sig(1, "c", "out", ty)
        D.blk("u", 1, [(D.obj(c, va), "@="), (D.obj(c, vb), "@=")])
        out.append(D)
    # two blocks on overlapping sibling slices (illegal neighbour)
    D = Design([("s", None)], "fixed/two-blocks-ovl")
    c = D.sig(1, "c", "out", "b8")
    D.blk("u", 1, [(D.obj(c, "[0:4]"), "@=")])
    D.blk("u", 1, [(D.obj(c, "[2:6]"), "@=")])
    out.append(D)
    return out


def ifc_shapes():
    """Interfaces connected BY NAME (`connect( s.c1.ifc, s.c2.ifc )`, no custom connect method): the statement
    stands for one signal connection per port pair, also for ports kept in (nested) lists.  The specification
    sees the signal-level connections; the source holds the one interface-level statement.  Shapes: scalar
    ports, 1-D, 2-D and 3-D port lists, both directions in one interface; producer and consumer are siblings
    (connected in the parent) or parent and child.  Added after seeded change C08-C (the recursion over nested
    port lists replaced by a flat zip: the ports of a list of lists were silently left unconnected)."""
    out = []
    shapes = {"scalar": {"en": ()}, "l1": {"en": (), "tag": (2,)}, "l2": {"en": (), "lane": (2, 2)},
              "l2x3": {"lane": (2, 3), "tag": (3,)}, "l3": {"cube": (2, 1, 2)}, "mixed": {"en": (), "tag": (2,), "lane": (2, 2)}}
    for sname, ports in shapes.items():
        for place in ("siblings", "parent-child", "child-parent"):
            for ty in ("b4", "St"):
                if ty == "St" and sname not in ("scalar", "l2"):
                    continue
                D = Design(HIER2, "ifc/%s/%s/%s" % (sname, place, ty))
                # producer side (ports written by an update block of the producer / top-level inputs), consumer side
                if place == "siblings":
                    pc, cc, at = 2, 3, 1
                    pk, ck = "out", "in"
                elif place == "parent-child":       # the parent's in-ports feed the child's in-ports
                    pc, cc, at = 1, 2, 1
                    pk, ck = "in", "in"
                else:                               # the child's out-ports feed the parent's out-ports
                    pc, cc, at = 2, 1, 1
                    pk, ck = "out", "out"
                wr = []
                for base, dims in sorted(ports.items()):
                    idxs = [()]
                    for d_ in dims:
                        idxs = [ix + (j,) for ix in idxs for j in range(d_)]
                    for ix in idxs:
                        nm = base + "".join("[%d]" % j for j in ix)
                        a = D.obj(D.sig(pc, "pi." + nm, pk, ty))
                        b = D.obj(D.sig(cc, "ci." + nm, ck, ty))
                        D.conn(a, b, at, grp=(1, (pc, "pi"), (cc, "ci")))
                        if pk == "out":
                            wr.append((a, "@="))
                if wr:
                    D.blk("u", pc, wr)
                out.append(D)
    return out


def overlap_net_shapes():
    """one net with two bit-overlapping members of the same signal (C08 simulation clause)"""
    out = []
    for ty, va, vb in (("b4", "[0:2]", "[1:3]"), ("b8", "[0:4]", "[2:6]"), ("St", ".f[0:2]", ".f[1:3]")):
        D = Design([("s", None)], "fixed/net-overlapping-members")
        a = D.sig(1, "a" if ty != "St" else "x", "wire", ty)
        i = D.obj(D.sig(1, "i", "in", VIEWS[ty][va][3]))
        D.conn(D.obj(a, va), i, 1)
        D.conn(D.obj(a, vb), i, 1)
        out.append(D)
    # ... through a wire / from a constant / the two slices connected to each other
    D = Design([("s", None)], "fixed/net-overlapping-members/const")
    a, w = D.sig(1, "a", "wire", "b4"), D.obj(D.sig(1, "w", "wire", "b2"))
    D.conn(D.obj(a, "[0:2]"), w, 1); D.conn(w, D.obj(a, "[1:3]"), 1); D.conn(w, D.const(1, "b2", 2), 1)
    out.append(D)
    D = Design([("s", None)], "fixed/net-overlapping-members/direct")
    a = D.sig(1, "a", "wire", "b4")
    D.conn(D.obj(a, "[0:2]"), D.obj(a, "[1:3]"), 1); D.conn(D.obj(D.sig(1, "i", "in", "b2")), D.obj(a, "[0:2]"), 1)
    out.append(D)
    # ... one of the two is written by a block (two candidate writers), nobody drives the net (no writer)
    for drv in ("blk", "none"):
        D = Design([("s", None)], "fixed/net-overlapping-members/" + drv)
        a, w = D.sig(1, "a", "wire", "b4"), D.obj(D.sig(1, "w", "wire", "b2"))
        D.conn(D.obj(a, "[0:2]"), w, 1); D.conn(w, D.obj(a, "[1:3]"), 1)
        if drv == "blk":
            D.blk("u", 1, [(D.obj(a, "[0:2]"), "@=")])
        out.append(D)
    # a member overlaps the net's own writer (the statement is silent): c[0:2] <- i ; c[0:4] - w - c[2:6]
    D = Design([("s", None)], "fixed/net-member-overlaps-own-writer")
    c, w = D.sig(1, "c", "wire", "b8"), D.obj(D.sig(1, "w", "wire", "b4"))
    D.conn(D.obj(D.sig(1, "i", "in", "b2")), D.obj(c, "[0:2]"), 1)
    D.conn(D.obj(c, "[0:4]"), w, 1); D.conn(w, D.obj(c, "[2:6]"), 1)
    out.append(D)
    # adjacent / disjoint views of one signal driven by two nets (legal), overlapping ones (illegal)
    for ty, va, vb, tag in (("b4", "[0:2]", "[2:4]", "adjacent"), ("b8", "[0:4]", "[4:8]", "adjacent"),
                            ("St", ".f", ".g.p", "disjoint"), ("b4", "[0:2]", "[1:3]", "overlapping"),
                            ("St", ".g", ".g.q", "overlapping")):
        D = Design([("s", None)], "fixed/two-nets-" + tag)
        a = D.sig(1, "a" if ty != "St" else "x", "wire", ty)
        D.conn(D.obj(D.sig(1, "i", "in", VIEWS[ty][va][3])), D.obj(a, va), 1)
        D.conn(D.obj(D.sig(1, "j", "in", VIEWS[ty][vb][3])), D.obj(a, vb), 1)
        out.append(D)
    # one block writes overlapping sibling slices of a signal that also feeds a net
    D = Design([("s", None)], "fixed/one-block-ovl+net")
    c = D.sig(1, "c", "wire", "b8")
    D.blk("u", 1, [(D.obj(c, "[0:4]"), "@="), (D.obj(c, "[2:6]"), "@=")])
    D.conn(D.obj(c, "[0:2]"), D.obj(D.sig(1, "o", "out", "b2")), 1)
    out.append(D)
    return out


class _Rand:
    """Legal-biased random statement sets over the universe (<= 4 connects, <= 2 writing blocks);
    TLC decides what is legal, this only steers towards interesting legal shapes."""

    def __init__(self, R, levels):
        self.R = R
        self.comps = HIER3 if levels == 3 else HIER2
        self.D = Design(self.comps, "rand%d" % levels)
        self.allowed = {(c, n): {"in", "out", "wire"} for c in range(1, len(self.comps) + 1) for n in SLOTS}
        self.driven = set()          # (comp, name, bit)
        self.used = set()            # (comp, name, suf)
        self.stm = []                # ("c", (objA|const), (objB), at) / block dicts
        self.blocks = {}             # host -> list of (comp,name,suf)
        self.blockkind = {}
        self.nconn = 0

    def par(self, c):
        return self.comps[c - 1][1]

    def objs_of_type(self, t):
        return [(c, n, suf) for (c, n) in self.allowed for suf, v in VIEWS[SLOTS[n]].items() if v[3] == t]

    def bits(self, o):
        c, n, suf = o
        lo, hi = VIEWS[SLOTS[n]][suf][:2]
        return {(c, n, j) for j in range(lo, hi)}

    def restrict(self, o, ks):
        k = (o[0], o[1])
        if not (self.allowed[k] & ks):
            return False
        self.allowed[k] &= ks
        return True

    def free(self, o):
        return o not in self.used and not (self.bits(o) & self.driven)

    def pick_writer(self, t):
        R = self.R
        for _ in range(20):
            mode = R.choice(["topin", "topin", "blk", "blk", "const", "rel", "rel", "rel"])
            if mode == "const":
                if t in ("b2", "b4", "b8"):
                    return ("const", t)
                continue
            cands = self.objs_of_type(t)
            R.shuffle(cands)
            for o in cands:
                if o in self.used:
                    continue
                if mode == "topin":
                    if o[0] == 1 and not (self.bits(o) & self.driven) and self.allowed[(1, o[1])] >= {"in"} \
                       and all(u[:2] != o[:2] for u in self.used):
                        self.restrict(o, {"in"})
                        self.used.add(o)
                        return o
                elif mode == "blk":
                    if self.bits(o) & self.driven:
                        continue
                    hosts = [o[0]] + ([self.par(o[0])] if self.par(o[0]) else [])
                    H = R.choice(hosts)
                    if len(self.blocks) >= 2 and H not in self.blocks:
                        continue
                    if H in self.blocks and len(self.blocks[H]) >= 2:
                        continue
                    if self.blockkind.get(H) == "f" and o[2] != "":
                        continue
                    if not self.restrict(o, {"out", "wire"} if H == o[0] else {"in"}):
                        continue
                    if H not in self.blocks:
                        self.blockkind[H] = "f" if (o[2] == "" and R.random() < 0.2) else \
                            ("l" if (o[2] == "" or o[2].endswith("]")) and R.random() < 0.25 else "u")
                    elif self.blockkind[H] == "l":
                        continue
                    self.blocks.setdefault(H, []).append(o)
                    self.driven |= self.bits(o)
                    self.used.add(o)
                    return o
                else:  # a bit-overlapping relative of something driven
                    b = self.bits(o)
                    if (b & self.driven) and not any(b == self.bits(u) for u in self.used if u[:2] == o[:2]):
                        self.used.add(o)
                        return o
        return None

    def hop(self, net, t):
        R = self.R
        us = list(net)
        R.shuffle(us)
        cands = [o for o in self.objs_of_type(t) if self.free(o)]
        R.shuffle(cands)
        for u in us:
            for v in cands[:40]:
                hv = v[0]
                if u[0] == "const":
                    at = R.choice([hv] + ([self.par(hv)] if self.par(hv) else []))
                    ok = self.restrict(v, {"out", "wire"} if at == hv else {"in"})
                    if ok:
                        return u, v, at
                    continue
                hu = u[0]
                if u[:2] == v[:2]:
                    continue
                if hu == hv:
                    ok, at = self.restrict(v, {"out", "wire"}), hu
                elif hv == self.par(hu):
                    ok = self.allowed[(hu, u[1])] >= {"out"} and self.allowed[(hv, v[1])] & {"out", "wire"}
                    ok = ok and self.restrict(u, {"out"}) and self.restrict(v, {"out", "wire"})
                    at = hv
                elif hu == self.par(hv):
                    ok, at = self.restrict(v, {"in"}), hu
                elif self.par(hu) == self.par(hv):
                    ok = self.allowed[(hu, u[1])] >= {"out"} and self.allowed[(hv, v[1])] >= {"in"}
                    ok = ok and self.restrict(u, {"out"}) and self.restrict(v, {"in"})
                    at = self.par(hu)
                else:
                    continue
                if ok:
                    if hv == 1 and "in" in self.allowed[(1, v[1])]:
                        self.allowed[(1, v[1])] -= {"in"}
                    return u, v, at
        return None

    def build(self):
        R = self.R
        budget = R.randint(1, 4)
        nets = []
        tries = 0
        while self.nconn < budget and tries < 12:
            tries += 1
            t = R.choice(["b2", "b2", "b2", "b4", "b4", "b8", "St", "In2"])
            if nets and R.random() < 0.35:
                net, t = R.choice(nets)
            else:
                w = self.pick_writer(t)
                if w is None:
                    continue
                net = [w]
                nets.append((net, t))
            h = self.hop(net, t)
            if h is None:
                if len(net) == 1:
                    nets.pop()
                continue
            u, v, at = h
            self.used.add(v)
            self.driven |= self.bits(v)
            net.append(v)
            self.stm.append((u, v, at))
            self.nconn += 1
        return self.finish()

    def finish(self):
        R, D = self.R, self.D
        sig = {}
        for (c, n), al in sorted(self.allowed.items()):
            al = set(al)
            if c == 1 and len(al) > 1 and not any(u[:2] == (c, n) for u in self.used):
                al -= {"in"}
            sig[(c, n)] = D.sig(c, n, R.choice(sorted(al)), SLOTS[n])

        def oid(o, at):
            if o[0] == "const":
                return D.const(at, o[1], R.randint(1, (1 << TYPES[o[1]][1]) - 1))
            return D.obj(sig[(o[0], o[1])], o[2])
        stmts = []
        for (u, v, at) in self.stm:
            stmts.append(("c", oid(u, at), oid(v, at), at))
        for H, ws in self.blocks.items():
            k = self.blockkind[H]
            stmts.append((k, H, [(oid(o, H), "<<=" if k == "f" else "@=") for o in ws]))
        R.shuffle(stmts)
        for st in stmts:
            if st[0] == "c":
                D.conn(st[1], st[2], st[3])
            else:
                D.blk(st[0], st[1], st[2])
        return D


def mutate(D, R):
    """One random perturbation that usually makes a legal design illegal (or changes its nets)."""
    M = Design.load(json.loads(json.dumps(D.dump())))
    M.tag = D.tag + "+mut"
    conns = [st for st in M.stmts if st["k"] == "c"]
    blks = [st for st in M.stmts if st["k"] != "c"]
    usedsig = sorted({M.objs[o - 1]["s"] for st in conns for o in (st["a"], st["b"])} - {0})
    kind = R.choice(["kind", "kind", "extra-writer", "extra-writer", "join", "drop-block", "part", "const"])
    if kind == "kind" and usedsig:
        s = M.sigs[R.choice(usedsig) - 1]
        s["k"] = R.choice(sorted({"in", "out", "wire"} - {s["k"]}))
    elif kind == "extra-writer" and conns:
        st = R.choice(conns)
        o = R.choice([st["a"], st["b"]])
        if M.objs[o - 1]["s"]:
            h = M.objs[o - 1]["h"]
            M.blk("u", h, [(o, "@=")])
    elif kind == "join" and len(conns) >= 2:
        a, b = R.sample(conns, 2)
        oa, ob = R.choice([a["a"], a["b"]]), R.choice([b["a"], b["b"]])
        if M.objs[oa - 1]["t"] == M.objs[ob - 1]["t"] and oa != ob and M.objs[oa - 1]["s"] and M.objs[ob - 1]["s"]:
            M.conn(oa, ob, 1)
    elif kind == "drop-block" and blks:
        M.stmts.remove(R.choice(blks))
    elif kind == "part" and blks:
        st = R.choice([b for b in blks if b["k"] == "u"] or blks)
        if st["k"] == "u":
            w = M.objs[st["wr"][0]["o"] - 1]
            sty = M.sigs[w["s"] - 1]["ty"]
            others = [suf for suf, v in VIEWS[sty].items()
                      if suf != w["suf"] and max(v[0], w["lo"]) < min(v[1], w["hi"])]
            if others:
                st["wr"].append({"o": M.obj(w["s"], R.choice(others)), "op": "@="})
    elif kind == "const" and conns:
        st = R.choice(conns)
        o = st["a"] if M.objs[st["a"] - 1]["s"] else st["b"]
        t = M.objs[o - 1]["t"]
        if t in ("b2", "b4", "b8"):
            M.conn(o, M.const(M.objs[o - 1]["h"], t, 1), M.objs[o - 1]["h"])
    return M


def random_designs(n, R, mut_rate=0.3):
    out = []
    while len(out) < n:
        D = _Rand(R, R.choice([2, 2, 3])).build()
        if not any(st["k"] == "c" for st in D.stmts):
            continue
        out.append(mutate(D, R) if R.random() < mut_rate else D)
    return out


# ------------------------------------------------------------------------------------------
# C09: the defect grid
# ------------------------------------------------------------------------------------------

C09_SHAPES = {
    "none":         [("b4", "", None), ("b4", "[1:3]", None), ("St", "", None), ("St", ".f", None), ("St", ".g.p", None),
                     ("b8", "[2:6]", None)],
    "same":         [("b4", "", ""), ("b4", "[0:2]", "[0:2]"), ("St", ".f", ".f"), ("St", "", "")],
    "parent/field": [("St", "", ".f"), ("St", ".g", "")],
    "nested":       [("St", "", ".g.p"), ("St", ".g.q", ".g"), ("St", ".f[0:2]", "")],
    "ovl-slices":   [("b4", "[0:2]", "[1:3]"), ("b8", "[2:6]", "[0:4]"), ("St", ".f[0:2]", ".f[1:3]")],
    "whole/slice":  [("b4", "", "[1:3]"), ("St", ".f[2:4]", ".f")],
    "adjacent":     [("b4", "[0:2]", "[2:4]"), ("b8", "[4:8]", "[0:4]")],
    "disjoint":     [("St", ".f", ".g"), ("St", ".f[0:2]", ".g.q"), ("b8", "[0:2]", "[4:8]")],
}
C09_DRIVERS = ("u", "l", "f", "net", "const")
HELPER_DRIVERS = ("hu", "hw", "hd")
C09_POS = ("same", "child-in", "child-out", "sibling", "grandchild", "child-wire")


def _add_driver(D, kind, T, view, H, n):
    """Attach a driver of kind `kind` to view `view` of signal T from component H.  False: this
    driver kind cannot be written for that view."""
    ty = D.sigs[T - 1]["ty"]
    lo, hi, d, t = VIEWS[ty][view]
    if kind == "u":
        D.blk("u", H, [(D.obj(T, view), "@=")])
    elif kind == "f":
        D.blk("f", H, [(D.obj(T, view), "<<=")])          # a part of a signal: OpFNT is expected
    elif kind == "l":
        if not (d == 0 or view.endswith("]")):
            return False                                    # `//=` on a struct field is not writable syntax
        D.blk("l", H, [(D.obj(T, view), "@=")])
    elif kind == "const":
        if t not in ("b2", "b4", "b8"):
            return False
        D.conn(D.obj(T, view), D.const(H, t, n), H)
    elif kind in HELPER_DRIVERS:
        # an @update block of H that writes the view only through @s.func helpers: directly (hu),
        # through a wrapper (hw), through a helper that calls two wrappers of the writing helper (hd).  A
        # second helper-driver of exactly the same view from the same component SHARES the writing
        # helper (two blocks, one helper).
        o = D.obj(T, view)
        h = next((i for i, st in enumerate(D.stmts)
                  if st["k"] == "h" and st["at"] == H and [w["o"] for w in st["wr"]] == [o]), None)
        if h is None:
            h = D.fun(H, [(o, "@=")])
        if kind == "hu":
            D.blk("u", H, [], calls=[h])
        elif kind == "hw":
            D.blk("u", H, [], calls=[D.fun(H, calls=[h])])
        else:
            D.blk("u", H, [], calls=[D.fun(H, calls=[D.fun(H, calls=[h]), D.fun(H, calls=[h])])])
    elif kind == "net":
        if H == 1:
            src = D.obj(D.sig(1, "i%d" % n, "in", t))
        else:
            src = D.obj(D.sig(H, "w%d" % n, "wire", t))
            D.blk("u", H, [(src, "@=")])
        D.conn(src, D.obj(T, view), H)
    return True


def c09_cell(pos, A, B, shape, ty, vA, vB):
    comps = HIER3 if pos == "grandchild" else HIER2
    D = Design(comps, "grid/%s/%s/%s/%s" % (pos, A, B or "-", shape))
    hostT, kindT, hA, hB = {"same": (1, "wire", 1, 1), "child-in": (2, "in", 1, 1),
                            "child-out": (2, "out", 2, 1), "sibling": (3, "in", 1, 1),
                            "grandchild": (4, "in", 1, 1), "child-wire": (2, "wire", 1, 1)}[pos]
    if A == "topin":
        if pos != "same":
            return None
        kindT = "in"
    T = D.sig(hostT, "t", kindT, ty)
    if pos == "sibling":
        # driver A is the sibling's output port (connected in the common parent)
        t = VIEWS[ty][vA][3]
        o = D.sig(2, "o", "out", t)
        D.blk("u", 2, [(D.obj(o), "@=")])
        D.conn(D.obj(o), D.obj(T, vA), 1)
    elif A != "topin":
        if not _add_driver(D, A, T, vA, hA, 1):
            return None
    if B is not None:
        if not _add_driver(D, B, T, vB, hB, 2):
            return None
    elif pos == "child-out":
        # the legal use of a child's output: read by the parent
        t = VIEWS[ty][vA][3]
        D.conn(D.obj(T, vA), D.obj(D.sig(1, "o", "out", t)), 1)
    if A == "topin" and B is None:
        t = VIEWS[ty][vA][3]
        D.conn(D.obj(T, vA), D.obj(D.sig(1, "o", "out", t)), 1)
    return D


def c09_grid():
    out = []
    for pos in C09_POS:
        As = ("net",) if pos == "sibling" else (C09_DRIVERS + ("topin",) if pos == "same" else C09_DRIVERS)
        for A in As:
            for B in (None,) + C09_DRIVERS:
                for shape, lst in C09_SHAPES.items():
                    if (B is None) != (shape == "none"):
                        continue
                    for (ty, vA, vB) in lst:
                        D = c09_cell(pos, A, B, shape, ty, vA, vB)
                        if D is not None:
                            out.append(D)
    return out


def func_grid():
    """The cells of the defect grid with a helper-function driver on one or both sides: driver A
    through helpers x every second driver, and every direct driver A x driver B through helpers
    (every view triple of a shape for hu x none/u/net/hu, the first one otherwise)."""
    out = []
    for pos in C09_POS:
        if pos == "sibling":
            pairs = [("net", b) for b in HELPER_DRIVERS]
        else:
            As = C09_DRIVERS + ("topin",) if pos == "same" else C09_DRIVERS
            pairs = [("hu", b) for b in (None,) + C09_DRIVERS + HELPER_DRIVERS] \
                + [(a, b) for a in ("hw", "hd") for b in (None, "u", "net", "hu", a)] \
                + [(a, "hu") for a in As] + [(a, b) for a in ("u", "net") for b in ("hw", "hd")]
        for A, B in pairs:
            full = A == "hu" and B in (None, "u", "net", "hu")
            for shape, lst in C09_SHAPES.items():
                if (B is None) != (shape == "none"):
                    continue
                n = 0
                for (ty, vA, vB) in lst:
                    D = c09_cell(pos, A, B, shape, ty, vA, vB)
                    if D is not None and (full or n == 0):
                        D.tag = "func" + D.tag
                        out.append(D)
                        n += 1
    return out


FUNC_CALL_SHAPES = {
    # name: (number of blocks, expected class by construction -- only used for the self-check of
    # the generator in props/c09.py, the verdict is Elab.tla's)
    "dd": "MW", "dw": "MW", "ww": "MW", "sw": "MW", "d+diamond": "MW", "dd+third": "MW", "dw+y": "MW",
    "wd-declared-late": "MW",
    "single": "ok", "diamond": "ok", "hdiamond": "ok", "d+hdiamond": "MW", "twice": "ok", "deep": "ok", "ro-shared": "ok", "diamond+ro": "ok",
    "dead+direct": "ok", "wrap+y": "ok", "dead-only": "NW",
}


def func_shapes(core=False):
    """Call-graph shapes over ONE writing helper hw (writes a view of T): which blocks reach it, and
    how.  Two blocks reaching it are two drivers of the view; one block reaching it along several
    paths is one; helpers that only read may be shared; a helper nobody calls drives nothing.
    core: every shape x position for the plain signal, each other view at one position per shape
    (deterministic rotation) instead of all three."""
    out = []
    for pi, (pos, hostT, kindT, H) in enumerate((("same", 1, "wire", 1), ("child-in", 2, "in", 1),
                                                 ("child-out", 2, "out", 2))):
        for vi, (ty, view) in enumerate((("b4", ""), ("St", ".f"), ("b8", "[2:6]"), ("St", ""))):
            for si, shape in enumerate(FUNC_CALL_SHAPES):
                if core and vi and (si + vi) % 3 != pi:
                    continue
                D = Design(HIER2, "func/%s/%s" % (shape, pos))
                T = D.sig(hostT, "t", kindT, ty)
                o = D.obj(T, view)
                t = VIEWS[ty][view][3]
                # the view feeds a net, so that the writer of a net is known only through the helper
                if pos == "child-in":
                    D.conn(o, D.obj(D.sig(2, "o", "out", t)), 2)
                else:
                    D.conn(o, D.obj(D.sig(1, "o", "out", t)), 1)
                y = D.obj(D.sig(H, "y", "wire", "b4"))
                W = [(o, "@=")]
                if shape == "dd":
                    hw = D.fun(H, W); D.blk("u", H, [], calls=[hw]); D.blk("u", H, [], calls=[hw])
                elif shape == "dw":
                    hw = D.fun(H, W); D.blk("u", H, [], calls=[hw]); D.blk("u", H, [], calls=[D.fun(H, calls=[hw])])
                elif shape == "wd-declared-late":
                    # callers first, callees last (in the identity order)
                    D.stmts += [None, None, None, None]
                    n = len(D.stmts)
                    hw = n - 1
                    D.stmts[n - 4] = {"k": "u", "at": H, "wr": [], "rd": [], "calls": [n - 2]}
                    D.stmts[n - 3] = {"k": "u", "at": H, "wr": [], "rd": [], "calls": [hw]}
                    D.stmts[n - 2] = {"k": "h", "at": H, "wr": [], "rd": [], "calls": [hw]}
                    D.stmts[n - 1] = {"k": "h", "at": H, "wr": [{"o": o, "op": "@="}], "rd": [], "calls": []}
                elif shape == "dw+y":
                    hw = D.fun(H, W); D.blk("u", H, [], calls=[hw])
                    D.blk("u", H, [], calls=[D.fun(H, [(y, "@=")], calls=[hw])])
                elif shape == "ww":
                    hw = D.fun(H, W)
                    D.blk("u", H, [], calls=[D.fun(H, calls=[hw])]); D.blk("u", H, [], calls=[D.fun(H, calls=[hw])])
                elif shape == "sw":
                    hw = D.fun(H, W); w = D.fun(H, calls=[hw])
                    D.blk("u", H, [], calls=[w]); D.blk("u", H, [], calls=[w])
                elif shape == "d+diamond":
                    hw = D.fun(H, W); D.blk("u", H, [], calls=[hw])
                    D.blk("u", H, [], calls=[D.fun(H, calls=[hw]), D.fun(H, calls=[hw])])
                elif shape == "dd+third":
                    hw = D.fun(H, W); D.blk("u", H, [], calls=[hw]); D.blk("u", H, [(y, "@=")])
                    D.blk("u", H, [], calls=[hw])
                elif shape == "single":
                    D.blk("u", H, [], calls=[D.fun(H, W)])
                elif shape == "diamond":
                    hw = D.fun(H, W)
                    D.blk("u", H, [], calls=[D.fun(H, calls=[hw]), D.fun(H, calls=[hw])])
                elif shape == "hdiamond":       # the diamond below a helper: b -> top -> {l, r} -> hw
                    hw = D.fun(H, W)
                    D.blk("u", H, [], calls=[D.fun(H, calls=[D.fun(H, calls=[hw]), D.fun(H, calls=[hw])])])
                elif shape == "d+hdiamond":
                    hw = D.fun(H, W); D.blk("u", H, [], calls=[hw])
                    D.blk("u", H, [], calls=[D.fun(H, calls=[D.fun(H, calls=[hw]), D.fun(H, calls=[hw])])])
                elif shape == "twice":
                    hw = D.fun(H, W); D.blk("u", H, [], calls=[hw, hw])
                elif shape == "deep":
                    hw = D.fun(H, W); D.blk("u", H, [], calls=[D.fun(H, calls=[D.fun(H, calls=[hw])])])
                elif shape == "ro-shared":
                    hw = D.fun(H, W); hr = D.fun(H, rd=[o])
                    D.blk("u", H, [], calls=[hw, hr]); D.blk("u", H, [(y, "@=")], calls=[hr])
                elif shape == "diamond+ro":
                    hw = D.fun(H, W); hr = D.fun(H, rd=[o])
                    D.blk("u", H, [], calls=[D.fun(H, calls=[hw, hr]), D.fun(H, calls=[hr, hw])])
                    D.blk("u", H, [(y, "@=")], calls=[hr])
                elif shape == "dead+direct":
                    D.fun(H, W); D.blk("u", H, W)
                elif shape == "wrap+y":
                    hw = D.fun(H, W); D.blk("u", H, [], calls=[D.fun(H, [(y, "@=")], calls=[hw])])
                elif shape == "dead-only":
                    D.fun(H, W)
                else:
                    raise AssertionError(shape)
                out.append(D)
    return out


def func_extras():
    out = []
    # ---- port rules through a helper: the table of c09_extras' port/ family with the access in a helper
    for at, host, kind, acc in ((1, 1, "wire", "r"), (1, 2, "wire", "r"), (1, 2, "out", "r"), (1, 2, "in", "r"),
                                (1, 4, "wire", "r"), (2, 2, "wire", "r"), (2, 4, "wire", "r"), (2, 4, "out", "r"),
                                (1, 1, "in", "w"), (1, 1, "out", "w"), (1, 2, "out", "w"), (1, 2, "wire", "w"),
                                (1, 2, "in", "w"), (1, 4, "in", "w"), (2, 2, "in", "w"), (2, 4, "in", "w"),
                                (2, 2, "out", "w"), (2, 4, "out", "w"), (1, 4, "wire", "w")):
        for ty, view in (("b4", ""), ("St", ".g.p")):
            for via in ("direct", "wrapped"):
                D = Design(HIER3, "func/port/%s/%s-of-%d-from-%d/%s" % (acc, kind, host, at, via))
                T = D.sig(host, "t", kind, ty)
                if acc == "r":
                    h = D.fun(at, rd=[D.obj(T, view)])
                    w = D.sig(at, "w", "wire", VIEWS[ty][view][3])
                    wr = [(D.obj(w), "@=")]
                else:
                    h = D.fun(at, [(D.obj(T, view), "@=")])
                    wr = []
                if via == "wrapped":
                    h = D.fun(at, calls=[h])
                D.blk("u", at, wr, calls=[h])
                out.append(D)
    # ---- assignment operators inside a helper (outcome only recorded when wrong for the caller)
    for kind in ("u", "f"):
        for op in ("=", "@=", "<<="):
            for ty, view in (("b4", ""), ("b4", "[0:2]"), ("St", ".f")):
                D = Design(HIER2, "func/op/%s/%s" % (kind, op))
                T = D.sig(1, "t", "wire", ty)
                D.blk(kind, 1, [], calls=[D.fun(1, [(D.obj(T, view), op)])])
                out.append(D)
    # ---- helpers calling each other in a cycle
    for tag in ("self", "two", "dead", "below-a-writer"):
        D = Design(HIER2, "func/cycle/" + tag)
        T = D.obj(D.sig(1, "t", "wire", "b4"))
        D.conn(T, D.obj(D.sig(1, "o", "out", "b4")), 1)
        n = len(D.stmts)
        if tag == "self":
            D.stmts.append({"k": "h", "at": 1, "wr": [{"o": T, "op": "@="}], "rd": [], "calls": [n]})
            D.blk("u", 1, [], calls=[n])
        elif tag == "two":
            D.stmts.append({"k": "h", "at": 1, "wr": [{"o": T, "op": "@="}], "rd": [], "calls": [n + 1]})
            D.fun(1, calls=[n])
            D.blk("u", 1, [], calls=[n])
        elif tag == "dead":
            D.stmts.append({"k": "h", "at": 1, "wr": [], "rd": [], "calls": [n + 1]})
            D.fun(1, calls=[n])
            D.blk("u", 1, [(T, "@=")])
        else:
            hw = D.fun(1, [(T, "@=")], calls=[n + 1])
            D.stmts.append({"k": "h", "at": 1, "wr": [], "rd": [], "calls": [n + 2]})
            D.fun(1, calls=[n + 1])
            D.blk("u", 1, [], calls=[hw])
        out.append(D)
    return out


def helperize(D, R):
    """Metamorphic twin of D: some writes of one @update block move into an @s.func helper the block
    calls -- directly, through a wrapper, or through a diamond.  Per-bit driver sets, nets and
    writers are unchanged, so Elab.tla must give the same analysis and pymtl3 the same outcome.
    With `share` a second block calling the writing helper is added (two drivers).  None if D has
    no suitable block."""
    cands = [i for i, st in enumerate(D.stmts) if st["k"] == "u" and st["wr"] and not st["rd"]]
    if not cands:
        return None
    M = Design.load(json.loads(json.dumps(D.dump())))
    for st in M.stmts:
        st.setdefault("calls", []) if st["k"] != "c" else None
    bi = R.choice(cands)
    st = M.stmts[bi]
    k = R.randint(1, len(st["wr"]))
    moved = sorted(R.sample(range(len(st["wr"])), k))
    wr = [st["wr"][j] for j in moved]
    st["wr"] = [w for j, w in enumerate(st["wr"]) if j not in moved]
    shape = R.choice(["direct", "direct", "wrapper", "diamond", "split"])
    H = st["at"]
    if shape == "split" and len(wr) > 1:
        # one helper per moved write, the second called by the first
        h2 = M.fun(H, [(wr[1]["o"], wr[1]["op"])] + [(w["o"], w["op"]) for w in wr[2:]])
        st["calls"] = [M.fun(H, [(wr[0]["o"], wr[0]["op"])], calls=[h2])]
    else:
        hw = M.fun(H, [(w["o"], w["op"]) for w in wr])
        if shape == "wrapper":
            st["calls"] = [M.fun(H, calls=[hw])]
        elif shape == "diamond":
            st["calls"] = [M.fun(H, calls=[hw]), M.fun(H, calls=[hw])]
            if R.random() < 0.5:
                st["calls"] = [M.fun(H, calls=st["calls"])]
        else:
            st["calls"] = [hw]
    M.tag = D.tag + "+hz"
    if R.random() < 0.3:
        # a second block of the same component reaches the (first) writing helper as well
        hw = next(i for i in range(len(M.stmts) - 1, -1, -1) if M.stmts[i]["k"] == "h" and M.stmts[i]["wr"])
        M.blk("u", H, [], calls=[hw] if R.random() < 0.5 else [M.fun(H, calls=[hw])])
        M.tag += "+share"
    # helpers in a random position among the statements (identity order = declaration order)
    order = list(range(len(M.stmts)))
    R.shuffle(order)
    inv = {old: new for new, old in enumerate(order)}
    M.stmts = [M.stmts[old] for old in order]
    for s2 in M.stmts:
        if s2["k"] != "c":
            s2["calls"] = [inv[c] for c in s2["calls"]]
    return M


def helperized(designs, rate):
    """The helperize() twins of a seeded fraction of `designs` (the generator stream that made
    `designs` is not touched: the choice is seeded by the design's own text)."""
    out = []
    for D in designs:
        R = random.Random("hz|" + D.key())
        if R.random() < rate and not D.has_helpers():
            M = helperize(D, R)
            if M is not None:
                out.append(M)
    return out


def c09_extras():
    out = []
    # ---- assignment operators
    for kind in ("u", "f"):
        for op in ("=", "@=", "<<="):
            for ty, view in (("b4", ""), ("b4", "[0:2]"), ("St", ".f"), ("St", ""), ("St", ".g.p")):
                for pos in ("same", "child-in"):
                    D = Design(HIER2, "op/%s/%s/%s" % (kind, op, pos))
                    T = D.sig(1 if pos == "same" else 2, "t", "wire" if pos == "same" else "in", ty)
                    D.blk(kind, 1, [(D.obj(T, view), op)])
                    out.append(D)
    # a block with one good and one bad assignment
    D = Design(HIER2, "op/mixed")
    T = D.sig(1, "t", "wire", "b4")
    U = D.sig(1, "u", "wire", "b4")
    D.blk("u", 1, [(D.obj(T), "@="), (D.obj(U), "<<=")])
    out.append(D)
    # ... in every order, inside every control structure (the wrong operator in the same branch as a right
    # one, in a later else-branch, in a loop body, after a flat statement): added after seeded change C09-D
    # (the operator of the last augmented assignment stayed attached to later plain `=` assignments of the
    # same compound statement)
    for kind, good in (("u", "@="), ("f", "<<=")):
        for bad in ("=", "<<=" if kind == "u" else "@="):
            for shape in (None, "if", "for", "else", "tail-if", "nested"):
                for order in ("good-first", "bad-first", "good-bad-good"):
                    D = Design(HIER2, "op/mixed/%s/%s/%s/%s" % (kind, bad, shape or "flat", order))
                    T = D.sig(1, "t", "wire", "b4")
                    U = D.sig(1, "u", "wire", "b4")
                    V = D.sig(1, "v", "wire", "b4")
                    wr = {"good-first": [(D.obj(T), good), (D.obj(U), bad)],
                          "bad-first": [(D.obj(U), bad), (D.obj(T), good)],
                          "good-bad-good": [(D.obj(T), good), (D.obj(U), bad), (D.obj(V), good)]}[order]
                    D.blk(kind, 1, wr, shape=shape)
                    out.append(D)
    # ---- reads (Type 1) and writes from the wrong place (Type 2-4) by a block in `at`
    for at, host, kind, acc in ((1, 1, "wire", "r"), (1, 2, "wire", "r"), (1, 2, "out", "r"), (1, 2, "in", "r"),
                                (1, 4, "wire", "r"), (2, 2, "wire", "r"), (2, 4, "wire", "r"), (2, 4, "out", "r"),
                                (1, 1, "in", "w"), (1, 1, "out", "w"), (1, 2, "out", "w"), (1, 2, "wire", "w"),
                                (1, 4, "in", "w"), (2, 2, "in", "w"), (2, 4, "in", "w"), (2, 2, "out", "w"),
                                (2, 4, "out", "w"), (1, 4, "wire", "w")):
        for ty, view in (("b4", ""), ("St", ".g.p")):
            D = Design(HIER3, "port/%s/%s-of-%d-from-%d" % (acc, kind, host, at))
            T = D.sig(host, "t", kind, ty)
            if acc == "r":
                w = D.sig(at, "w", "wire", VIEWS[ty][view][3])
                D.blk("u", at, [(D.obj(w), "@=")], rd=[D.obj(T, view)])
                if kind == "in" and host != 1:
                    # keep the read port driven: not needed for legality (statement is silent about
                    # undriven signals outside nets)
                    pass
            else:
                D.blk("u", at, [(D.obj(T, view), "@=")])
            out.append(D)
    # ---- loops, self connects, duplicates, type mismatches, loop-back connections
    def wires(n, ty="b4", comp=1):
        D = Design(HIER3, "")
        return D, [D.obj(D.sig(comp, "w%d" % i, "wire", ty)) for i in range(n)]
    for n in (3, 4):
        for drv in ("in", "blk", "none"):
            D, w = wires(n)
            D.tag = "loop/%d-cycle/%s" % (n, drv)
            for i in range(n):
                D.conn(w[i], w[(i + 1) % n], 1)
            if drv == "in":
                D.conn(D.obj(D.sig(1, "i", "in", "b4")), w[0], 1)
            elif drv == "blk":
                D.blk("u", 1, [(w[0], "@=")])
            out.append(D)
    D, w = wires(3)
    D.tag = "loop/tree-legal"
    D.conn(w[0], w[1], 1); D.conn(w[0], w[2], 1); D.conn(D.obj(D.sig(1, "i", "in", "b4")), w[0], 1)
    out.append(D)
    D = Design(HIER2, "loop/through-child")       # s.w0 - c1.i ; c1.i - c1.o (in c1) ; c1.o - s.w0
    w0 = D.obj(D.sig(1, "w0", "wire", "b4")); ci = D.obj(D.sig(2, "i", "in", "b4")); co = D.obj(D.sig(2, "o", "out", "b4"))
    D.conn(w0, ci, 1); D.conn(ci, co, 2); D.conn(co, w0, 1)
    out.append(D)
    for extra in (False, True):
        for drv in ("in", "none"):
            D, w = wires(2)
            D.tag = "self-connect/%s%s" % (drv, "+net" if extra else "")
            D.conn(w[0], w[0], 1)
            if extra:
                D.conn(w[0], w[1], 1)
            if drv == "in":
                D.conn(D.obj(D.sig(1, "i", "in", "b4")), w[0], 1)
            out.append(D)
    D, w = wires(2)
    D.tag = "self-connect/slice"
    D.conn(D.obj(1, "[0:2]"), D.obj(1, "[0:2]"), 1)
    D.conn(D.obj(D.sig(1, "i", "in", "b4")), w[0], 1)
    out.append(D)
    D, w = wires(1)
    D.tag = "dup-connect/same-host"
    i = D.obj(D.sig(1, "i", "in", "b4"))
    D.conn(i, w[0], 1); D.conn(w[0], i, 1)
    out.append(D)
    for ta, tb in (("b4", "b8"), ("St", "In2"), ("b2", "b4")):
        D = Design(HIER2, "type-mismatch/%s-%s" % (ta, tb))
        D.conn(D.obj(D.sig(1, "i", "in", ta)), D.obj(D.sig(1, "w", "wire", tb)), 1)
        out.append(D)
    D = Design(HIER2, "type-mismatch/const")
    D.conn(D.obj(D.sig(1, "w", "wire", "b4")), D.const(1, "b8", 5, form="bits"), 1)
    out.append(D)
    D = Design(HIER2, "const/bits-ok")
    D.conn(D.obj(D.sig(1, "w", "wire", "b4")), D.const(1, "b4", 5, form="bits"), 1)
    out.append(D)
    # loop-back of a child's output to its own input: in the parent (legal), in the child, above the parent
    for at, tag in ((1, "parent"), (2, "child"), (1, "above-parent")):
        D = Design(HIER3, "loopback/" + tag)
        host = 4 if tag == "above-parent" else 2
        o = D.obj(D.sig(host, "o", "out", "b4")); i = D.obj(D.sig(host, "i", "in", "b4"))
        D.blk("u", host, [(o, "@=")])
        D.conn(o, i, at)
        out.append(D)
    D = Design(HIER2, "loopback/both")
    o = D.obj(D.sig(2, "o", "out", "b4")); i = D.obj(D.sig(2, "i", "in", "b4"))
    D.blk("u", 2, [(o, "@=")]); D.conn(o, i, 1); D.conn(i, o, 2)
    out.append(D)
    # ---- net port rules [Type 5..9]: driver kind/host x driven kind/host, one connection
    pos = {"top": 1, "c1": 2, "c2": 3, "g": 4}
    for hu in ("top", "c1", "g"):
        for hv in ("top", "c1", "c2", "g"):
            for ku in ("in", "out", "wire", "const"):
                for kv in ("in", "out", "wire"):
                    if ku == "const" and hu == "g":
                        continue
                    D = Design(HIER3, "netrule/%s.%s->%s.%s" % (hu, ku, hv, kv))
                    cu, cv = pos[hu], pos[hv]
                    at = 1 if 1 in (cu, cv) or {cu, cv} == {2, 3} or {cu, cv} == {3, 4} else 2
                    v = D.obj(D.sig(cv, "v", kv, "b4"))
                    if ku == "const":
                        at = cu
                        if not D.is_anc(at, cv):
                            continue
                        D.conn(v, D.const(at, "b4", 3), at)
                    else:
                        u = D.obj(D.sig(cu, "u", ku, "b4"))
                        if cu == 1 and ku == "in":
                            pass                               # top-level input drives
                        else:
                            # make u driven by a block that may legally write it
                            bh = cu if ku in ("out", "wire") else D.comps[cu - 1][1]
                            D.blk("u", bh, [(u, "@=")])
                        if (cu, ku) == (cv, kv) :
                            continue
                        D.conn(u, v, at)
                    out.append(D)
    # ---- no writer
    for n in (1, 2):
        D, w = wires(n + 1)
        D.tag = "nowriter/%d" % n
        for i in range(n):
            D.conn(w[i], w[i + 1], 1)
        out.append(D)
    D = Design(HIER2, "nowriter/child-in-to-out")
    D.conn(D.obj(D.sig(2, "i", "in", "b4")), D.obj(D.sig(2, "o", "out", "b4")), 2)
    out.append(D)
    D = Design(HIER2, "nowriter/disjoint-field-driven")      # x.g driven, x.f read by a net
    x = D.sig(1, "x", "wire", "St")
    D.blk("u", 1, [(D.obj(x, ".g"), "@=")])
    D.conn(D.obj(x, ".f"), D.obj(D.sig(1, "o", "out", "b4")), 1)
    out.append(D)
    D = Design(HIER2, "two-lambdas/same-signal")
    t = D.sig(1, "t", "wire", "b4")
    D.blk("l", 1, [(D.obj(t), "@=")]); D.blk("l", 1, [(D.obj(t), "@=")])
    out.append(D)
    D = Design(HIER2, "two-lambdas/other-component")
    t = D.sig(2, "t", "in", "b4")
    D.blk("l", 1, [(D.obj(t), "@=")]); D.blk("l", 2, [(D.obj(t), "@=")])
    out.append(D)
    return out


def replay(pid, obj):
    """check.py --replay: re-run the recorded design alone (all its permutations and side flips)."""
    import common
    D = Design.load(obj["detail"]["design"])
    res = common.Result(pid, "replay")
    with common.scratch():
        check_designs(res, [D], prop=pid, cap=720, nsim=4 if pid == "C08" else 0, ncyc=4,
                      hashseeds=[0, 1, 2, 3], tag="replay")
    print("design:", D.key())
    if pid == "C08" and res.notes.get("designs_with_defects_not_elaborated"):
        print("Elab.tla finds defects in this design: outside C08's premise (see C09)")
    print(gen_variant(D, list(range(len(D.stmts))), 0, 0, "X")[0])
    for v in res.violations:
        print("VIOLATION", v["key"], "--", v["what"])
    for k in res.known:
        print("KNOWN-FINDING", k["key"])
    return 1 if res.violations else 0
