"""Drivers for C18's adapter part: a real MagicMemoryCL / MagicMemoryFL / stream.MagicMemoryRTL
reached through the interface adapters of pymtl3/stdlib/mem/mem_ifcs.py and
pymtl3/stdlib/stream/fl.py.  The event log has the vocabulary of spec/MagicMem.tla (see c18_drv.py);
all events are appended in the call order of the single Python thread:
  send  when the master hands the request to the adapter chain (FL: the call starts),
  proc  the outermost read / write / amo call of the MagicMemoryFL instance (c18_drv.wrap_fl),
  dlv   when the master gets the response (FL: the call returns; the type / opaque of the event are
        those of the request, the only observable at an FL master is the returned data).

This module must stay a real .py file: its update blocks are parsed by pymtl3.

Chains (name -> what is built):
  fl2cl       FL master --MemMasterIfcFL.connect hook--> MemIfcFL2CLAdapter --> MagicMemoryCL.ifc[i]
  cl2fl       CL master --> MemIfcCL2FLAdapter (instantiated by the harness) --> MagicMemoryFL.ifc
  cl2fl_hook  CL master --MemMinionIfcFL.connect hook--> MemIfcCL2FLAdapter --> MagicMemoryFL.ifc
  rtl2cl      RTL (en/rdy) MemMasterIfcRTL ports --by-name connect hooks (RecvRTL2SendCL,
              RecvCL2SendRTL)--> MagicMemoryCL.ifc[i]
  fl2rtl2cl   FL master --> MemIfcFL2RTLAdapter --> its MemMasterIfcRTL --hooks--> MagicMemoryCL.ifc[i]
  rtl2fl      RTL (en/rdy) master ports --MemMinionIfcFL.connect hook--> MemIfcRTL2FLAdapter --> MagicMemoryFL.ifc
  stream_fl   FL master --> stream.fl.MemMasterAdapter --> stream.MagicMemoryRTL.ifc[i]
  stream_q    FL sender / receiver blocks --> stream.fl.SendQueueAdapter / RecvQueueAdapter --> stream.MagicMemoryRTL.ifc[i]
"""
from pymtl3 import (CallerIfcFL, Component, DefaultPassGroup, connect, update_once)

import c18_drv as D

CHAINS = ("fl2cl", "cl2fl", "cl2fl_hook", "rtl2cl", "fl2rtl2cl", "rtl2fl", "stream_fl", "stream_q")
# chains whose masters are FL callers: the adapter fills in opaque = 0, one request at a time
FL_CHAINS = ("fl2cl", "fl2rtl2cl", "stream_fl")
# chains over the stream memory or an FL memory: no INV / FLUSH
NO_INV = ("cl2fl", "cl2fl_hook", "rtl2fl", "stream_fl", "stream_q", "fl2cl", "fl2rtl2cl")


def _nb(r):
    return 4 if r["n"] == 0 else r["n"]


# ----------------------------------------------------------------------------------------------
# masters
# ----------------------------------------------------------------------------------------------

class FLMaster(Component):
    """Issues its requests one after another through blocking FL calls (read / write / amo)."""

    def construct(s, reqs, delays, port, log):
        from pymtl3.stdlib.mem.mem_ifcs import MemMasterIfcFL
        s.mem = MemMasterIfcFL()
        s.reqs = list(reqs)
        s.delays = list(delays)
        s.idx = 0
        s.count = s.delays[0] if s.delays else 0
        s.port = port
        s.log = log

        @update_once
        def up_fl_master():
            if s.count > 0:
                s.count -= 1
            elif s.idx < len(s.reqs) and not s.reset:
                r = s.reqs[s.idx]
                nb = _nb(r)
                s.log.ev.append({"k": "send", "p": s.port, "t": r["t"], "o": 0, "a": r["a"], "n": r["n"],
                                 "d": D.le_bytes(r["d"], 4)})
                if r["t"] == 0:
                    ret = D.le_bytes(s.mem.read(D.BASE + r["a"], nb), 4)
                elif r["t"] == 1:
                    s.mem.write(D.BASE + r["a"], nb, r["d"])
                    ret = [0, 0, 0, 0]
                else:
                    ret = D.le_bytes(s.mem.amo(r["t"], D.BASE + r["a"], nb, r["d"]), 4)
                s.log.ev.append({"k": "dlv", "p": s.port, "t": r["t"], "o": 0, "n": r["n"], "d": ret})
                s.idx += 1
                s.count = s.delays[s.idx] if s.idx < len(s.delays) else 0

    def done(s):
        return s.idx >= len(s.reqs)

    def line_trace(s):
        return ""


class QMaster(Component):
    """A sender block (blocking enq of request messages) and a receiver block (blocking deq)."""

    def construct(s, msgs, src_delays, sink_delays, port, log):
        s.enq = CallerIfcFL()
        s.deq = CallerIfcFL()
        s.msgs = list(msgs)
        s.sd = list(src_delays)
        s.kd = list(sink_delays)
        s.idx = 0
        s.ridx = 0
        s.count = s.sd[0] if s.sd else 0
        s.rcount = s.kd[0] if s.kd else 0
        s.port = port
        s.log = log

        @update_once
        def up_q_send():
            if s.count > 0:
                s.count -= 1
            elif s.idx < len(s.msgs) and not s.reset:
                m = s.msgs[s.idx]
                s.log.send(s.port, m)
                s.enq(m)
                s.idx += 1
                s.count = s.sd[s.idx] if s.idx < len(s.sd) else 0

        @update_once
        def up_q_recv():
            if s.rcount > 0:
                s.rcount -= 1
            elif s.ridx < len(s.msgs) and not s.reset:
                m = s.deq()
                s.log.deliver(s.port, m)
                s.ridx += 1
                s.rcount = s.kd[s.ridx] if s.ridx < len(s.kd) else 0

    def done(s):
        return s.ridx >= len(s.msgs)

    def line_trace(s):
        return ""


class CLMaster(Component):
    """CL source + sink of c18_drv behind one MemMasterIfcCL-shaped pair of ports."""

    def construct(s, Req, Resp, msgs, src_delays, sink_delays, port, log):
        from pymtl3.stdlib.mem.mem_ifcs import MemMasterIfcCL
        s.src = D.DelaySrcCL(Req, msgs, src_delays, port, log)
        s.sink = D.DelaySinkCL(Resp, len(msgs), sink_delays, port, log)
        s.mem = MemMasterIfcCL(Req, Resp)
        connect(s.src.send, s.mem.req)
        connect(s.mem.resp, s.sink.recv)

    def done(s):
        return s.src.done() and s.sink.done()

    def line_trace(s):
        return ""


class RTLMaster(Component):
    """A master with RTL (en/rdy) memory ports: MemMasterIfcRTL.  Inside, the CL source / sink of
    c18_drv sit behind the library's own CL<->RTL port adapters (as TestSrcRTL / TestSinkRTL do)."""

    def construct(s, Req, Resp, msgs, src_delays, sink_delays, port, log):
        from pymtl3.stdlib.ifcs import RecvCL2SendRTL, RecvRTL2SendCL
        from pymtl3.stdlib.mem.mem_ifcs import MemMasterIfcRTL
        s.mem = MemMasterIfcRTL(Req, Resp)
        s.src = D.DelaySrcCL(Req, msgs, src_delays, port, log)
        s.sink = D.DelaySinkCL(Resp, len(msgs), sink_delays, port, log)
        s.req_a = RecvCL2SendRTL(Req)
        s.resp_a = RecvRTL2SendCL(Resp)
        connect(s.src.send, s.req_a.recv)
        connect(s.req_a.send, s.mem.req)
        connect(s.mem.resp, s.resp_a.recv)
        connect(s.resp_a.send, s.sink.recv)

    def done(s):
        return s.src.done() and s.sink.done()

    def line_trace(s):
        return ""


# ----------------------------------------------------------------------------------------------
# tops
# ----------------------------------------------------------------------------------------------

def _wrap_fl_ifc(top, fl, log):
    """MagicMemoryFL.ifc holds the bound read / write / amo of the instance from its construction:
    the logging wrappers of c18_drv.wrap_fl are put on the instance AND behind the callee ports of
    fl.ifc, before the method nets are resolved (the class and /repo are untouched)."""
    D.wrap_fl(fl, log)
    for name in ("read", "write", "amo"):
        getattr(fl.ifc, name).method.method = getattr(fl, name)
    top.fl_wrapped = True


class ChainTop(Component):

    def construct(s, chain, streams, cfg, log):
        from pymtl3.stdlib.mem.MagicMemoryCL import MagicMemoryCL
        from pymtl3.stdlib.mem.MagicMemoryFL import MagicMemoryFL
        from pymtl3.stdlib.mem import mem_ifcs as MI
        Req, Resp = D.mk_types()
        n = len(streams)
        types = [(Req, Resp)] * n
        msgs = [D.mk_msgs(Req, st) for st in streams]
        sd, kd = cfg["src_delays"], cfg["sink_delays"]
        if chain in ("fl2cl", "fl2rtl2cl"):
            s.mem = MagicMemoryCL(n, types, cfg["stall_prob"], cfg["latency"], D.MEM_NBYTES)
            s.masters = [FLMaster(streams[i], sd[i], i, log) for i in range(n)]
            if chain == "fl2cl":
                for i in range(n):
                    connect(s.masters[i].mem, s.mem.ifc[i])        # MemMasterIfcFL.connect inserts the adapter
            else:
                s.adps = [MI.MemIfcFL2RTLAdapter(Req, Resp) for i in range(n)]
                for i in range(n):
                    connect(s.masters[i].mem, s.adps[i].left)
                    connect(s.adps[i].right, s.mem.ifc[i])         # RTL master ports onto CL minion ports
        elif chain == "rtl2cl":
            s.mem = MagicMemoryCL(n, types, cfg["stall_prob"], cfg["latency"], D.MEM_NBYTES)
            s.masters = [RTLMaster(Req, Resp, msgs[i], sd[i], kd[i], i, log) for i in range(n)]
            for i in range(n):
                connect(s.masters[i].mem, s.mem.ifc[i])
        elif chain in ("cl2fl", "cl2fl_hook"):
            s.mem = MagicMemoryFL(D.MEM_NBYTES)
            _wrap_fl_ifc(s, s.mem, log)
            s.masters = [CLMaster(Req, Resp, msgs[i], sd[i], kd[i], i, log) for i in range(n)]
            if chain == "cl2fl":
                s.adps = [MI.MemIfcCL2FLAdapter(Req, Resp) for i in range(n)]
                for i in range(n):
                    connect(s.masters[i].mem, s.adps[i].left)
                    connect(s.adps[i].right, s.mem.ifc)
            else:
                for i in range(n):
                    connect(s.masters[i].mem, s.mem.ifc)           # MemMinionIfcFL.connect
        elif chain == "rtl2fl":
            s.mem = MagicMemoryFL(D.MEM_NBYTES)
            _wrap_fl_ifc(s, s.mem, log)
            s.masters = [RTLMaster(Req, Resp, msgs[i], sd[i], kd[i], i, log) for i in range(n)]
            for i in range(n):
                connect(s.masters[i].mem, s.mem.ifc)               # MemMinionIfcFL.connect
        elif chain in ("stream_fl", "stream_q"):
            from pymtl3.stdlib.stream.magic_memory import MagicMemoryRTL
            from pymtl3.stdlib.stream import fl as SF
            s.mem = MagicMemoryRTL(n, types, cfg["stall_prob"], cfg["extra_latency"], D.MEM_NBYTES)
            if chain == "stream_fl":
                s.masters = [FLMaster(streams[i], sd[i], i, log) for i in range(n)]
                s.adps = [SF.MemMasterAdapter(Req, Resp) for i in range(n)]
                for i in range(n):
                    connect(s.masters[i].mem.read, s.adps[i].read)
                    connect(s.masters[i].mem.write, s.adps[i].write)
                    connect(s.masters[i].mem.amo, s.adps[i].amo)
                    connect(s.adps[i].master.req, s.mem.ifc[i].req)
                    connect(s.mem.ifc[i].resp, s.adps[i].master.resp)
            else:
                s.masters = [QMaster(msgs[i], sd[i], kd[i], i, log) for i in range(n)]
                s.sqs = [SF.SendQueueAdapter(Req) for i in range(n)]
                s.rqs = [SF.RecvQueueAdapter(Resp) for i in range(n)]
                for i in range(n):
                    connect(s.masters[i].enq, s.sqs[i].enq)
                    connect(s.masters[i].deq, s.rqs[i].deq)
                    connect(s.sqs[i].send, s.mem.ifc[i].req)
                    connect(s.mem.ifc[i].resp, s.rqs[i].recv)
        else:
            raise ValueError(chain)

    def done(s):
        return all(m.done() for m in s.masters)

    def line_trace(s):
        return ""


def _fl_of(mem):
    return mem.mem if hasattr(mem, "ifc") and isinstance(mem.ifc, list) else mem


def _pending(ev):
    """class of the request the design was working on when it raised: the last logged event, if it
    is a memory call or a request handed over (none if the last event is a response)"""
    if not ev or ev[-1]["k"] == "dlv":
        return "none"
    e = ev[-1]
    if e["k"] == "proc":
        return e["op"] + ("-subword" if e["nb"] < 4 else "")
    t, n = e["t"], e["n"]
    return ("rd" if t == 0 else "wr" if t == 1 else "amo" if t < 12 else "inv-flush") + ("-subword" if n else "")


def inserted(top):
    """class names of the adapter components the connect hooks (or the harness) put into the top"""
    out = []
    for c in sorted(top.get_all_components() if hasattr(top, "get_all_components") else [], key=repr):
        n = type(c).__name__
        if "Adapter" in n or "2Send" in n:
            out.append(n)
    return out


def run_chain(chain, streams, cfg, window, init, max_cycles=20000):
    """-> trace dict (shape of c18_drv.run_cl) or {"noconstruct": "<Type>: <msg>"} when the chain
    cannot be built / elaborated / scheduled on this tree."""
    log = D.Log(window)
    try:
        top = ChainTop(chain, streams, cfg, log)
        top.elaborate()
        fl = _fl_of(top.mem)
        fl.write_mem(D.BASE, bytearray(init))
        if not getattr(top, "fl_wrapped", False):
            D.wrap_fl(fl, log)
        top.apply(DefaultPassGroup())
    except Exception as ex:
        return {"noconstruct": "%s: %s" % (type(ex).__name__, " ".join(str(ex).split())[:300])}
    n = 0
    try:
        top.sim_reset()
        while not top.done() and n < max_cycles:
            top.sim_tick()
            n += 1
        hung = not top.done()
        for _ in range(8):
            top.sim_tick()
    except Exception as ex:      # an exception inside the simulated design: reported with the request it hit
        import traceback
        return {"exc": "%s: %s" % (type(ex).__name__, " ".join(str(ex).split())[:300]), "pending": _pending(log.ev),
                "tb": traceback.format_exc()[-1500:], "cycles": n, "inserted": inserted(top)}
    m = fl.mem
    return {"impl": chain, "np": len(streams), "W": window, "init": list(init), "ev": log.ev,
            "final": list(fl.read_mem(D.BASE, window)), "hung": hung, "cycles": n, "outside": len(log.outside),
            "rest_clean": (not any(m[:D.BASE])) and (not any(m[D.BASE + window:])), "inserted": inserted(top)}
