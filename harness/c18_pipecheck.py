"""C18, delay-pipe part: model checking of spec/DelayPipe.tla, the graph walk on the real
DelayPipeDeqCL / DelayPipeSendCL / StallCL (spec -> code), random histories validated by
spec/DelayPipeTrace.tla (code -> spec), canaries.  Called from props/c18.py.

Compute functions run in worker processes / background threads and never touch the Result;
the record_* functions run in the main thread.
"""
import collections
import copy
import json
import os
import random
import shutil
import tempfile
from concurrent.futures import ThreadPoolExecutor

import tlc
from common import MachineryError, rng

KINDS = ("deq", "send")
INVS = ["TypeOK", "Conservation", "FifoOrder", "Occupancy", "NotEarly", "Punctual", "HeadOut", "StallIsIdle"]
ACTIONS = ["Idle", "Deq", "Enq", "EnqDeq", "Refuse", "RefuseDeq", "Stall", "StallDeq"]
FIELDS = (("er", "enq_rdy"), ("ex", "enq_x"), ("dr", "deq_rdy"), ("dx", "deq_x"))
# model-of-the-code clauses of DelayPipeTrace (the exact ready timing); the others are statement level
CODE_CLAUSES = ("enq-", "message-", "delivery-differs", "pipeline-slots")


def _b(x):
    return "TRUE" if x else "FALSE"


def cfg_text(kind, d, n, stall, track, invs=None):
    s = ('SPECIFICATION Spec\nCONSTANTS Kind = "%s"\n Delay = %d\n NMsgs = %d\n HasStall = %s\n Track = %s\n'
         "CHECK_DEADLOCK FALSE\n" % (kind, d, n, _b(stall), _b(track)))
    for i in (INVS if invs is None else invs):
        s += "INVARIANT %s\n" % i
    return s


def expected_actions(kind, d, stall):
    """The outcome classes a configuration can show (the others are unreachable by construction:
    a send pipe frees slot 0 whenever it delivers; with delay 0 it stores nothing)."""
    a = set(ACTIONS)
    if not stall:
        a -= {"Stall", "StallDeq"}
    if kind == "send":
        a -= {"RefuseDeq"}
        if d == 0:
            a -= {"Enq", "Deq", "StallDeq"}
    return a


def tag(c):
    return "%s:d=%d:stall=%d" % (c["kind"], c["d"], int(c["stall"]))


def ktag(kind, d, stall):
    """configuration class of a violation key: delay 0 (bypass / pass-through) is a code path of its own"""
    return "%s:%s:stall=%d" % (kind, "d=0" if d == 0 else "d>=1", int(bool(stall)))


# ==============================================================================================
# 1. model checking (background thread)
# ==============================================================================================

def mc_configs(quick):
    out = []
    for kind in KINDS:
        for d in (range(0, 4) if quick else range(0, 6)):
            for stall in (False, True):
                n = d + 3 if quick else min(d + 4, 7)
                out.append({"kind": kind, "d": d, "stall": stall, "n": n,
                            "cov": (d <= 2) if quick else True})
    return out


def mc_compute(quick):
    cfgs = mc_configs(quick)
    ncpu = os.cpu_count() or 4
    # the biggest first
    order = sorted(range(len(cfgs)), key=lambda i: -(cfgs[i]["d"] * 2 + cfgs[i]["stall"]))

    def one(i):
        c = cfgs[i]
        return i, tlc.run("DelayPipe", cfg_text=cfg_text(c["kind"], c["d"], c["n"], c["stall"], True),
                          coverage=c["cov"], workers=2, timeout=3000, heap="1g")

    runs = [None] * len(cfgs)
    with ThreadPoolExecutor(max_workers=max(2, ncpu // 4)) as ex:
        for i, r in ex.map(one, order):
            runs[i] = r
    # model canary: NotEarly must be tight -- "never delivered at age = Delay" has to be violated
    c = {"kind": "deq", "d": 2, "stall": True, "n": 4}
    can = tlc.run("DelayPipe", cfg_text=cfg_text("deq", 2, 4, True, True, invs=["LateCanary"]), workers=1,
                  timeout=600, heap="1g")
    return cfgs, runs, can


def mc_record(res, cfgs, runs, can):
    for c, r in zip(cfgs, runs):
        res.add_tlc(r)
        if r.violated:
            res.violation("pipe-model:%s:%s" % (tag(c), sorted(set(r.violated))),
                          "DelayPipe.tla violates %s for %s" % (r.violated, tag(c)), r.out[-3000:])
            continue
        if not r.ok:
            raise MachineryError("TLC failed on DelayPipe %s: %s\n%s" % (tag(c), r.errors, r.out[-2500:]))
        if c["cov"]:
            for a in expected_actions(c["kind"], c["d"], c["stall"]):
                if r.coverage.get(a, (0, 0))[1] == 0:
                    raise MachineryError("action %s never taken in DelayPipe %s (vacuous)" % (a, tag(c)))
        res.distinct("pipe-mc:" + tag(c))
    if "LateCanary" not in can.violated:
        raise MachineryError("model canary: DelayPipe never delivers a message at age = Delay (NotEarly vacuous?)\n%s"
                             % can.out[-1500:])
    res.note("pipe_model_check", {"configs": ["%s n=%d" % (tag(c), c["n"]) for c in cfgs],
                                  "invariants": INVS, "states": sum(r.distinct for r in runs)})


# ==============================================================================================
# 2a. spec -> code: walk of the dumped state graph (one pool job per configuration)
# ==============================================================================================

def walk_configs(quick):
    out = []
    for kind in KINDS:
        for d in (range(0, 4) if quick else range(0, 5)):
            for stall in (False, True):
                # both block orders where the pipe leaves the order of producer and consumer open
                orders = (1, 2) if (kind == "deq" and d >= 1) else (0,)
                out.append({"kind": kind, "d": d, "stall": stall, "n": d + 3, "orders": orders,
                            "canary": (d == 2 and not stall) or (d == 3 and stall and not quick)})
    return out


def _compare(e, exp_state):
    """first differing field between the observation of a cycle and the model's next state, or None"""
    o = exp_state["out"]
    for f, g in FIELDS:
        if bool(e[f]) != bool(o[g]):
            return f
    if e["g"] != o["msg"]:
        return "g"
    if list(e["p"]) != list(exp_state["pipe"]):
        return "p"
    return None


def _walk(states, init, edges, mk_dut, limit=6):
    """Drive DUTs along paths that cover every edge; after every step the observation and the
    projected pipeline are compared with the model state.  -> (edges covered, steps, builds, mismatches)"""
    out = collections.defaultdict(list)
    for k, (s, d, name, args) in enumerate(edges):
        out[s].append((k, d, name, args))
    (s0,) = tuple(init)
    parent = {s0: None}
    bfs = [s0]
    i = 0
    while i < len(bfs):
        s = bfs[i]
        i += 1
        for (k, d, name, args) in out[s]:
            if d not in parent:
                parent[d] = (s, k)
                bfs.append(d)
    if len(parent) != len(states):
        raise MachineryError("DelayPipe state graph not connected from init")
    todo = {s: [x for x in out[s]] for s in states}
    nleft = len(edges)
    nsteps = nbuilds = 0
    mism = []
    ptr = 0

    def step(dut, s, k):
        _s, d, name, args = edges[k]
        eo, do, st = args
        m = states[s]["nxt"]
        e = dut.step(eo, m if eo else 0, do, st)
        return d, name, args, e, _compare(e, states[d])

    while nleft and len(mism) < limit:
        while ptr < len(bfs) and not todo[bfs[ptr]]:
            ptr += 1
        target = bfs[ptr]
        path = []
        s = target
        while parent[s] is not None:
            path.append(parent[s])
            s = parent[s][0]
        path.reverse()
        dut = mk_dut()
        nbuilds += 1
        cur = s0
        ok = True
        taken = []
        for (s, k) in path:
            d, name, args, e, bad = step(dut, s, k)
            nsteps += 1
            taken.append((name, args))
            if bad:          # an edge on a tree path: reported when it was first covered; give up this target
                ok = False
                break
            cur = d
        if not ok:
            # the tree path itself fails: report once, and drop the edges behind it from the to-do list
            mism.append({"field": bad, "action": name, "args": args, "from": states[s], "exp": states[d], "got": e,
                         "path": taken})
            nleft -= len(todo[target])
            todo[target] = []
            continue
        while todo[cur]:
            (k, d, name, args) = todo[cur].pop()
            nleft -= 1
            d, name, args, e, bad = step(dut, cur, k)
            nsteps += 1
            taken.append((name, args))
            if bad:
                mism.append({"field": bad, "action": name, "args": args, "from": states[cur], "exp": states[d],
                             "got": e, "path": taken})
                break        # the DUT has left the model: fresh one
            cur = d
    return len(edges) - nleft, nsteps, nbuilds, mism


def walk_job(c):
    """Worker process: dump the graph of one configuration (Track = FALSE), walk it on the real
    classes (and, for canary configurations, on the software pipe with and without faults)."""
    import c18_pipe as P
    tmp = tempfile.mkdtemp(prefix="c18walk_")
    try:
        r = tlc.run("DelayPipe", cfg_text=cfg_text(c["kind"], c["d"], c["n"], c["stall"], False, invs=["TypeOK"]),
                    dump=os.path.join(tmp, "g"), workers=1, timeout=3000, heap="1g")
        path = os.path.join(tmp, "g.dot")
        if not os.path.exists(path):
            return {"c": c, "err": "TLC wrote no state graph:\n" + r.out[-2000:]}
        states, init, edges = tlc.parse_dot(path)
    finally:
        shutil.rmtree(tmp, ignore_errors=True)
    if not r.ok:
        return {"c": c, "err": "TLC failed: %s %s\n%s" % (r.errors, r.violated, r.out[-2000:])}
    cov = collections.Counter(e[2] for e in edges)
    for a, n in cov.items():
        r.coverage[a] = (n, n)          # per-action coverage of this run, counted from the edge labels
    r.out = r.out[-1500:]
    res = {"c": c, "run": r, "nstates": len(states), "nedges": len(edges), "cov": dict(cov), "walks": [], "canary": {}}
    stall = (0.5, 1) if c["stall"] else None
    seq = [0]

    def real(order):
        def mk():
            seq[0] += 1
            random.seed(seq[0])       # pymtl3's scheduler breaks ties with the global random module
            return P.RealPipe(c["kind"], c["d"], stall, order, scripted=True, base=1000)
        return mk

    try:
        for order in c["orders"]:
            ncov, nsteps, nb, mism = _walk(states, init, edges, real(order))
            res["walks"].append({"order": order, "covered": ncov, "steps": nsteps, "builds": nb, "mism": mism})
    except Exception as ex:
        import traceback
        res["exc"] = "%s: %s" % (type(ex).__name__, ex)
        res["tb"] = traceback.format_exc()[-1500:]
    if c["canary"]:
        for fault in (None, "early", "swap", "drop"):
            ncov, nsteps, nb, mism = _walk(states, init, edges, lambda: P.SoftPipe(c["kind"], c["d"], fault, 1))
            res["canary"][str(fault)] = {"covered": ncov, "mism": len(mism),
                                         "fields": sorted({m["field"] for m in mism})}
    for k in ("walks",):
        for w in res[k]:
            for m in w["mism"]:
                m["path"] = [(a, [bool(x) for x in b]) for a, b in m["path"]][-40:]
                m["args"] = [bool(x) for x in m["args"]]
                m["from"] = _plain(m["from"])
                m["exp"] = _plain(m["exp"])
    return res


def _plain(st):
    return {"pipe": list(st["pipe"]), "nxt": st["nxt"], "out": dict(st["out"])}


def walk_record(res, results):
    total = collections.Counter()
    for w in results:
        c = w["c"]
        if "err" in w:
            raise MachineryError("graph walk %s: %s" % (tag(c), w["err"]))
        res.add_tlc(w["run"])
        miss = [a for a in expected_actions(c["kind"], c["d"], c["stall"]) if w["cov"].get(a, 0) == 0]
        if miss:
            raise MachineryError("DelayPipe graph %s has no %s edge (vacuous walk)" % (tag(c), miss))
        if "exc" in w:
            res.violation("pipe-walk:%s:exception:%s" % (ktag(c["kind"], c["d"], c["stall"]), w["exc"].split(":")[0]),
                          "driving the real delay pipe along the model's state graph raised %s" % w["exc"],
                          {"config": c, "tb": w["tb"]})
            continue
        for wk in w["walks"]:
            total["edges"] += wk["covered"]
            total["steps"] += wk["steps"]
            total["duts"] += wk["builds"]
            res.add_evals(wk["steps"])
            if wk["covered"] != w["nedges"] and not wk["mism"]:
                raise MachineryError("graph walk %s covered %d of %d edges" % (tag(c), wk["covered"], w["nedges"]))
            for m in wk["mism"]:
                res.violation("pipe-walk:%s:%s" % (ktag(c["kind"], c["d"], c["stall"]), m["field"]),
                              "%s(delay=%d)%s, block order %d: from pipeline %s the model's %s%s leads to %s / pipeline %s, "
                              "the implementation shows %s (first difference: %s)"
                              % ("DelayPipeDeqCL" if c["kind"] == "deq" else "DelayPipeSendCL", c["d"],
                                 " behind StallCL" if c["stall"] else "", wk["order"], m["from"]["pipe"], m["action"],
                                 tuple(m["args"]), {k: v for k, v in m["exp"]["out"].items() if k in
                                                    ("enq_rdy", "enq_x", "deq_rdy", "deq_x", "msg")},
                                 m["exp"]["pipe"], m["got"], m["field"]),
                              {"config": c, "order": wk["order"], "mismatch": m})
            res.distinct("pipe-walk:%s:order=%d" % (tag(c), wk["order"]))
        if c["canary"]:
            cn = w["canary"]
            if cn["None"]["mism"] != 0 or cn["None"]["covered"] != w["nedges"]:
                raise MachineryError("walk control: the fault-free software pipe does not follow the graph %s: %s"
                                     % (tag(c), cn["None"]))
            for f in ("early", "swap", "drop"):
                if cn[f]["mism"] == 0:
                    raise MachineryError("walk canary: a software pipe with fault '%s' walked the graph %s unnoticed"
                                         % (f, tag(c)))
            total["canary_walks"] += 3
            res.note("pipe_walk_canaries_" + tag(c), {f: cn[f]["fields"] for f in ("early", "swap", "drop")})
    if results:
        w = results[len(results) // 2]
        res.sample({"kind": "spec->code graph walk", "config": tag(w["c"]), "states": w["nstates"],
                    "edges": w["nedges"], "edge_labels": w["cov"]})
    res.note("pipe_walk", dict(total))


# ==============================================================================================
# 2b. code -> spec: random histories
# ==============================================================================================

def history_jobs(quick):
    R = rng("c18/pipe-hist")
    jobs = []
    delays = [0, 1, 2, 3, 4, 5, 6, 8] if quick else [0, 1, 2, 3, 4, 5, 6, 7, 8, 8, 11]
    ncyc = 260 if quick else 900
    reps = 1 if quick else 4
    for kind in KINDS:
        for d in delays:
            for rep in range(reps):
                orders = (0, 1, 2) if (kind == "deq" and d >= 1) else ((0, 1) if kind == "deq" else (0,))
                for order in orders:
                    jobs.append({"kind": kind, "delay": d, "stall": None, "order": order, "ncycles": ncyc,
                                 "seed": R.randrange(1 << 30)})
    # StallCL in front (as MagicMemoryCL builds it), several probabilities and seeds
    for kind in KINDS:
        for d in ([0, 1, 2, 3] if quick else [0, 1, 2, 3, 4]):
            for prob in (0.2, 0.5, 0.8) if quick else (0, 0.2, 0.5, 0.8, 0.95):
                for rep in range(2 if quick else 5):
                    jobs.append({"kind": kind, "delay": d, "stall": [prob, R.randrange(1 << 16)], "order": 0,
                                 "ncycles": 120 if quick else 300, "seed": R.randrange(1 << 30)})
    return jobs


def canary_jobs():
    """Software pipes: fault-free ones must be accepted, faulty ones rejected."""
    R = rng("c18/pipe-canary")
    jobs = []
    for kind in KINDS:
        for d in (2, 3, 5):
            for fault in (None, "early", "swap", "drop"):
                jobs.append({"kind": kind, "delay": d, "stall": None, "ncycles": 120, "seed": R.randrange(1 << 30),
                             "soft": True, "fault": fault, "fault_at": R.randint(2, 6)})
    return jobs


def history_job(job):
    import c18_pipe as P
    random.seed(job["seed"])          # tie-breaks of pymtl3's scheduler
    return P.run_history(job)


_KEYS = ("kind", "d", "stall", "mode", "nacc", "ev")


def validate(res, traces, chunk=None):
    """-> per trace (err, pos); ("ok", _) iff some branch accepts."""
    n = len(traces)
    if n == 0:
        return []
    ncpu = min(os.cpu_count() or 4, 16)
    if chunk is None:
        chunk = max(2, min(40, (n + ncpu - 1) // ncpu))
    chunks = [(i, traces[i:i + chunk]) for i in range(0, n, chunk)]
    tmp = tempfile.mkdtemp(prefix="c18ptr_")
    out = [None] * n

    def one(ci):
        base, trs = chunks[ci]
        fn = os.path.join(tmp, "in_%d.json" % ci)
        with open(fn, "w") as f:
            json.dump({"traces": [{k: t[k] for k in _KEYS} for t in trs]}, f)
        return base, len(trs), tlc.run("DelayPipeTrace", env={"VERIF_INPUT": fn}, workers=1, timeout=3000,
                                       deadlock=False, light=True)

    try:
        with ThreadPoolExecutor(max_workers=ncpu) as ex:
            for base, cnt, r in ex.map(one, range(len(chunks))):
                res.add_tlc(r)
                if r.errors or r.violated or not r.ok:
                    raise MachineryError("trace spec DelayPipeTrace failed: %s %s\n%s" % (r.errors, r.violated, r.out[-3000:]))
                per = collections.defaultdict(list)
                for v in r.prints:
                    if v and v[0] == "V":
                        per[v[1] - 1].append((v[2], v[3]))
                for k in range(cnt):
                    t = traces[base + k]
                    vs = per.get(k, [])
                    if any(v[0] == "ok" for v in vs):
                        out[base + k] = ("ok", len(t["ev"]) + 2)
                    elif t["mode"] == "inf":
                        out[base + k] = ("no-stall-decisions-explain-offers-and-deliveries", 0)
                    elif len(vs) != 1:
                        raise MachineryError("%d verdicts for linear trace %d of DelayPipeTrace\n%s"
                                             % (len(vs), base + k, r.out[-2000:]))
                    else:
                        out[base + k] = vs[0]
        return out
    finally:
        shutil.rmtree(tmp, ignore_errors=True)


def _lin(t):
    return dict(t, mode="lin")


def _inf(t):
    """Stall decisions, enq-side observations and slots removed: TLC has to find the decisions."""
    c = dict(t, mode="inf")
    c["ev"] = [dict(e, st=-1, er=-1, ex=-1, p=[]) for e in t["ev"]]
    return c


def _ttag(t):
    return "%s:d=%d:stall=%d" % (t["kind"], t["d"], int(t["stall"]))


def _corrupt(R, good, kinds):
    """corrupted copies of accepted real histories (linear mode) -> (traces, what was done)"""
    can, exp = [], []
    pool = list(good)
    R.shuffle(pool)
    for t in pool:
        if len(can) >= 60:
            break
        ev = t["ev"]
        dl = [i for i, e in enumerate(ev) if e["dx"]]
        if len(dl) < 3:
            continue
        k = len(can) % 6
        c = copy.deepcopy(t)
        cev = c["ev"]
        if k == 0:        # content changed
            cev[dl[1]]["g"] += 1000
        elif k == 1:      # two deliveries exchanged
            cev[dl[0]]["g"], cev[dl[1]]["g"] = cev[dl[1]]["g"], cev[dl[0]]["g"]
        elif k == 2:      # a delivery vanished
            cev[dl[1]].update(dx=0, dr=0 if t["kind"] == "send" else cev[dl[1]]["dr"], g=0 if t["kind"] == "send" else cev[dl[1]]["g"])
        elif k == 3:      # enq.rdy flipped
            i = R.randrange(len(ev) // 2)
            cev[i]["er"] ^= 1
        elif k == 4:      # a slot differs
            cand = [i for i, e in enumerate(ev) if any(e["p"])]
            if not cand:
                continue
            i = cand[len(cand) // 2]
            j = [x for x, v in enumerate(ev[i]["p"]) if v][0]
            cev[i]["p"][j] += 1
        else:             # delivered twice
            cev[dl[2]]["g"] = cev[dl[1]]["g"]
        can.append(c)
        exp.append(("changed", "swapped", "vanished", "enq-rdy", "slot", "duplicate")[k])
        kinds[exp[-1]] += 1
    return can, exp


def histories_record(res, raw, quick):
    """Validation of the recorded histories + canaries.  raw: results of history_job for
    history_jobs(quick) + canary_jobs()."""
    R = rng("c18/pipe-canary2")
    real, soft = [], []
    for t in raw:
        j = t["job"]
        if "exc" in t:
            if j.get("soft"):
                raise MachineryError("software pipe raised %s" % t["exc"])
            res.violation("pipe:%s:exception:%s" % (ktag(j["kind"], j["delay"], j["stall"]), t["exc"].split(":")[0]),
                          "driving the delay pipe raised %s" % t["exc"], {"job": j, "tb": t["tb"]})
            continue
        (soft if j.get("soft") else real).append(t)
    nev = sum(len(t["ev"]) for t in real)
    res.add_evals(nev)
    lin = validate(res, [_lin(t) for t in real])
    res.add_traces(len(real))
    good = []
    cov = collections.Counter()
    for t, (err, pos) in zip(real, lin):
        j = t["job"]
        cov[(t["kind"], t["d"], bool(t["stall"]))] += 1
        cov["msgs"] += t["nacc"]
        res.distinct(("pipe-hist", t["kind"], t["d"], json.dumps(j["stall"]), j["order"], j["seed"]))
        if err == "ok":
            good.append(t)
            continue
        if err == "bad-trace-stall-draws":
            # the stall did not draw exactly one random number for the one rdy() evaluation of the cycle:
            # its decision cannot be read off the stream; what the statement needs is decided without it
            iv = validate(res, [_inf(t)], chunk=1)[0]
            res.violation("pipe-trace:%s:%s" % (ktag(t["kind"], t["d"], t["stall"]), "stall-draws-per-rdy-call-differ-from-model" if iv[0] == "ok" else iv[0]),
                          "StallCL(%s) in front of %s(delay=%d): cycle %d drew a number of random values other than one per "
                          "rdy() evaluation (clause of the model of the code); with the stall decisions left open the "
                          "history is %s" % (j["stall"], "DelayPipeDeqCL" if t["kind"] == "deq" else "DelayPipeSendCL",
                                            t["d"], pos, "explained" if iv[0] == "ok" else "NOT explained: " + iv[0]),
                          {"cycle": pos, "job": j, "events": t["ev"][max(0, pos - 12):pos + 3]})
            continue
        if err.startswith("bad-trace"):
            raise MachineryError("the harness wrote a malformed pipe trace: %s at %d (%s)" % (err, pos, _ttag(t)))
        e = t["ev"][pos - 1] if 1 <= pos <= len(t["ev"]) else None
        res.violation("pipe-trace:%s:%s" % (ktag(t["kind"], t["d"], t["stall"]), err),
                      "%s(delay=%d)%s: %s at cycle %d %s%s"
                      % ("DelayPipeDeqCL" if t["kind"] == "deq" else "DelayPipeSendCL", t["d"],
                         " behind StallCL(%s)" % j["stall"] if j["stall"] else "", err, pos, e,
                         " (clause of the model of the code: exact ready timing)" if err.startswith(CODE_CLAUSES) else ""),
                      {"clause": err, "cycle": pos, "job": j, "schedule": t.get("sched"), "events": t["ev"][max(0, pos - 12):pos + 3]})
    # StallCL: the same histories with the stall decisions removed -- TLC must find them
    st_good = [t for t in good if t["stall"]]
    inf = validate(res, [_inf(t) for t in st_good], chunk=max(6, len(st_good) // 16 + 1))
    res.add_traces(len(st_good))
    for t, (err, _pos) in zip(st_good, inf):
        if err != "ok":
            raise MachineryError("inferred-stall mode rejects a history accepted with the logged draws: %s %s"
                                 % (_ttag(t), t["job"]))
    stalled_cycles = sum(1 for t in st_good for e in t["ev"] if e["st"] == 1 and e["eo"])
    if st_good and stalled_cycles == 0:
        raise MachineryError("no offer was ever stalled in the StallCL histories (vacuous)")
    need = [(k, d, False) for k in KINDS for d in (0, 1, 2, 3, 8)] + [(k, d, True) for k in KINDS for d in (0, 1, 2, 3)]
    miss = [x for x in need if cov[x] == 0]
    if miss and not res.violations:
        raise MachineryError("no accepted history for %s" % miss)
    res.note("pipe_histories", {"traces": len(real), "cycles": nev, "messages": cov["msgs"],
                                "with_StallCL": len([t for t in real if t["stall"]]),
                                "offers_stalled": stalled_cycles,
                                "validated_again_with_inferred_stall_decisions": len(st_good)})
    if good:
        t = good[len(good) // 3]
        res.sample({"kind": "delay pipe history (first 10 cycles)", "config": _ttag(t), "job": t["job"], "events": t["ev"][:10]})

    # ---- canaries -------------------------------------------------------------------------
    # (a) software pipes: fault-free accepted, faulty rejected
    kinds = collections.Counter()
    clauses = collections.Counter()
    can, exp = _corrupt(R, good, kinds)
    both = validate(res, [_lin(t) for t in soft + can])
    sv, cv = both[:len(soft)], both[len(soft):]
    for t, (err, pos) in zip(soft, sv):
        f = t["job"]["fault"]
        if f is None and err != "ok":
            raise MachineryError("control: the fault-free software pipe is rejected: %s at %d (%s)" % (err, pos, _ttag(t)))
        if f is not None:
            if err == "ok":
                raise MachineryError("canary: the software pipe with fault '%s' is accepted (%s)" % (f, _ttag(t)))
            kinds["soft-" + f] += 1
            clauses[err] += 1
    # (b) corrupted copies of accepted real histories (linear mode), built by _corrupt above
    acc = [exp[i] for i, v in enumerate(cv) if v[0] == "ok"]
    if acc:
        raise MachineryError("corrupted pipe histories accepted by DelayPipeTrace (linear): %s" % acc[:5])
    for v in cv:
        clauses[v[0]] += 1
    # (c) inferred mode: reorder / drop / change / too-early on StallCL histories
    ican, iexp = [], []
    for t in st_good:
        if len(ican) >= 32:
            break
        ev = t["ev"]
        dl = [i for i, e in enumerate(ev) if e["dx"]]
        if len(dl) < 3:
            continue
        k = len(ican) % 4
        c = copy.deepcopy(t)
        cev = c["ev"]
        if k == 0:
            cev[dl[0]]["g"], cev[dl[1]]["g"] = cev[dl[1]]["g"], cev[dl[0]]["g"]
        elif k == 1:
            cev[dl[1]].update(dx=0, dr=0, g=0)
        elif k == 2:
            cev[dl[1]]["g"] += 1000
        else:
            # one cycle early: a message first offered in cycle t0 and delivered in t0 + d (punctual)
            # is moved to t0 + d - 1 -- no stall decision can explain that
            first = {}
            for i, e in enumerate(ev):
                if e["eo"] and e["m"] not in first:
                    first[e["m"]] = i
            done = False
            for i in dl:
                m = ev[i]["g"]
                if t["d"] >= 1 and m in first and i - first[m] == t["d"] and not ev[i - 1]["dx"] and not ev[i - 1]["dr"]:
                    cev[i - 1].update(do=1, dr=1, dx=1, g=m)
                    cev[i].update(dx=0, dr=0, g=0)
                    done = True
                    break
            if not done:
                continue
        ican.append(c)
        iexp.append(("swapped", "vanished", "changed", "early")[k])
        kinds["inferred-" + iexp[-1]] += 1
    iv = validate(res, [_inf(t) for t in ican], chunk=8)
    acc = [iexp[i] for i, v in enumerate(iv) if v[0] == "ok"]
    if acc:
        raise MachineryError("corrupted StallCL histories accepted by DelayPipeTrace (inferred stalls): %s" % acc[:5])
    want = ["soft-early", "soft-swap", "soft-drop", "changed", "swapped", "vanished", "enq-rdy", "slot", "duplicate",
            "inferred-swapped", "inferred-vanished", "inferred-changed", "inferred-early"]
    miss = [k for k in want if kinds[k] == 0]
    if miss:
        if not res.violations:
            raise MachineryError("could not build the pipe canaries %s" % miss)
        res.note("pipe_canary_kinds_not_built_for_lack_of_accepted_histories", miss)
    res.note("pipe_canaries_rejected", {"kinds": dict(kinds), "clauses": dict(clauses)})
    return good
