"""Hierarchies for C14 in which pymtl3 ITSELF adds components to a design: the connect hooks of the standard
library's interfaces insert adapter components (an AND gate for GiveIfcRTL -> RecvIfcRTL, RecvCL2SendRTL for a CL
caller -> RecvIfcRTL, RecvRTL2SendCL for SendIfcRTL -> CL callee) into the parent.  The inserted objects are named
by the library; their names must be unique and evaluate back to the objects like every other name, and a second
elaboration of the same construction code must give the same names.  The interfaces sit in plain attributes, in
components that are list elements, in lists of interfaces and two levels down.
(Added after seeded changes C14-E - adapter named after the interface path, brackets included - and C14-F.)
The components live in this real .py file because pymtl3 reads the source of update blocks.
"""
from pymtl3 import *
from pymtl3.stdlib.ifcs import GiveIfcRTL, RecvIfcRTL, SendIfcRTL


class Src( Component ):
  def construct( s ):
    s.give = GiveIfcRTL( Bits8 )
    s.cnt  = Wire( 8 )
    s.give.rdy //= 1
    s.give.ret //= s.cnt
    @update_ff
    def up_cnt():
      if s.reset:         s.cnt <<= 0
      elif s.give.en:     s.cnt <<= s.cnt + 1

class Src2( Component ):
  def construct( s, n=2 ):
    s.gives = [ GiveIfcRTL( Bits8 ) for _ in range(n) ]
    for i in range(n):
      s.gives[i].rdy //= 1
      s.gives[i].ret //= i + 1

class Sink( Component ):
  def construct( s ):
    s.recv = RecvIfcRTL( Bits8 )
    s.last = OutPort( 8 )
    s.recv.rdy //= 1
    @update_ff
    def up_last():
      if s.recv.en: s.last <<= s.recv.msg

class GiveTop( Component ):
  def construct( s, n=2 ):
    s.src, s.sink = Src(), Sink()
    connect( s.src.give, s.sink.recv )
    s.srcs  = [ Src()  for _ in range(n) ]
    s.sinks = [ Sink() for _ in range(n) ]
    for i in range(n):
      connect( s.srcs[i].give, s.sinks[i].recv )
    s.multi  = Src2( n )
    s.msinks = [ Sink() for _ in range(n) ]
    for i in range(n):
      connect( s.multi.gives[i], s.msinks[i].recv )

class ProdCL( Component ):
  def construct( s ):
    s.send = CallerIfcCL()
    s.k = 0
    @update_once
    def up_send():
      if s.send.rdy():
        s.send( b8( s.k & 255 ) )
        s.k += 1

class ConsCL( Component ):
  def construct( s ):
    s.got = []
  @non_blocking( lambda s: True )
  def recv( s, msg ):
    s.got.append( msg )

class ProdRTL( Component ):
  def construct( s ):
    s.send = SendIfcRTL( Bits8 )
    s.cnt = Wire( 8 )
    s.send.msg //= s.cnt
    s.send.en //= s.send.rdy
    @update_ff
    def up_cnt():
      if s.reset:        s.cnt <<= 0
      elif s.send.en:    s.cnt <<= s.cnt + 1

class PairCL2RTL( Component ):
  def construct( s ):
    s.p, s.c = ProdCL(), Sink()
    connect( s.p.send, s.c.recv )

class PairRTL2CL( Component ):
  def construct( s ):
    s.p, s.c = ProdRTL(), ConsCL()
    connect( s.p.send, s.c.recv )

class Cluster( Component ):
  def construct( s, n=2 ):
    s.a = [ PairCL2RTL() for _ in range(n) ]
    s.b = PairRTL2CL()
    s.ps = [ ProdCL() for _ in range(n) ]
    s.cs = [ Sink() for _ in range(n) ]
    for i in range(n):
      connect( s.ps[i].send, s.cs[i].recv )

class HookTop( Component ):
  def construct( s ):
    s.pair  = PairCL2RTL()
    s.pairs = [ PairRTL2CL() for _ in range(2) ]
    s.cl    = [ Cluster() for _ in range(2) ]

DESIGNS = [ ( "hooks.GiveTop(2)", lambda: GiveTop( 2 ) ), ( "hooks.GiveTop(3)", lambda: GiveTop( 3 ) ),
            ( "hooks.PairCL2RTL", PairCL2RTL ), ( "hooks.PairRTL2CL", PairRTL2CL ),
            ( "hooks.Cluster(2)", lambda: Cluster( 2 ) ), ( "hooks.HookTop", HookTop ) ]
