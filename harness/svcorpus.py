"""Corpus and batch driver shared by C03 (SystemVerilog back end) and C12 (yosys back end).

A *design spec* is a picklable tuple resolved inside a worker process:
    ("repo", case name)            Case* class of pymtl3/passes/testcases/test_cases.py
    ("stdlib", key)                a repository RTL component (see STDLIB)
    ("gen", source text, class)    a generated component (svgen.py); the text is written to a scratch
                                   .py file and imported (update blocks need real source files)

prepare(spec, backend, nrand, ncyc) runs in a worker: translate, parse, flatten, simulate PyMTL with
the repo vectors (if any) and `nrand` random stimulus sequences of `ncyc` cycles -> dict with the
traces for SVSemTrace (or the reason there are none).
"""
import importlib.util
import os
import sys
import traceback

import common
import svharness as H
import svparse
from common import MachineryError, rng


# --------------------------------------------------------------------------------------
# resolving specs
# --------------------------------------------------------------------------------------

def _stdlib_table():
    from pymtl3 import Bits1, Bits4, Bits8, Bits16, Bits32, mk_bits
    from pymtl3.stdlib.basic_rtl import arbiters, arithmetics, crossbars, encoders, registers
    from pymtl3.stdlib.basic_rtl import register_files
    from pymtl3.stdlib.queues import queues as q1
    from pymtl3.stdlib.queues import enrdy_queues as q2
    from pymtl3.stdlib.stream import queues as q4
    t = {}
    for n in (2, 3, 4, 8):
        t["RoundRobinArbiter_%d" % n] = lambda n=n: arbiters.RoundRobinArbiter(n)
        t["RoundRobinArbiterEn_%d" % n] = lambda n=n: arbiters.RoundRobinArbiterEn(n)
    for w in (1, 8, 32, 33):
        T = mk_bits(w)
        t["Mux_%d_4" % w] = lambda T=T: arithmetics.Mux(T, 4)
        t["Mux_%d_2" % w] = lambda T=T: arithmetics.Mux(T, 2)
        t["Demux_%d_4" % w] = lambda T=T: arithmetics.Demux(T, 4)
        t["Adder_%d" % w] = lambda T=T: arithmetics.Adder(T)
        t["And_%d" % w] = lambda T=T: arithmetics.And(T)
        t["Subtractor_%d" % w] = lambda T=T: arithmetics.Subtractor(T)
        t["Incrementer_%d" % w] = lambda T=T: arithmetics.Incrementer(T, 1)
        t["ZeroComparator_%d" % w] = lambda T=T: arithmetics.ZeroComparator(T)
        t["LTComparator_%d" % w] = lambda T=T: arithmetics.LTComparator(T)
        t["LEComparator_%d" % w] = lambda T=T: arithmetics.LEComparator(T)
        t["EqComparator_%d" % w] = lambda T=T: arithmetics.EqComparator(T)
        t["LeftLogicalShifter_%d" % w] = lambda T=T: arithmetics.LeftLogicalShifter(T)
        t["RightLogicalShifter_%d" % w] = lambda T=T: arithmetics.RightLogicalShifter(T)
        t["Reg_%d" % w] = lambda T=T: registers.Reg(T)
        t["RegEn_%d" % w] = lambda T=T: registers.RegEn(T)
        t["RegRst_%d" % w] = lambda T=T, w=w: registers.RegRst(T, 5 % (1 << w))
        t["RegEnRst_%d" % w] = lambda T=T: registers.RegEnRst(T, 1)
    t["Crossbar_4_8"] = lambda: crossbars.Crossbar(4, Bits8)
    t["Crossbar_2_32"] = lambda: crossbars.Crossbar(2, Bits32)
    t["Encoder_8_3"] = lambda: encoders.Encoder(8, 3)
    t["Encoder_4_2"] = lambda: encoders.Encoder(4, 2)
    t["RegisterFile_8_4"] = lambda: register_files.RegisterFile(Bits8, 4, 2, 1)
    t["RegisterFile_32_8_c0"] = lambda: register_files.RegisterFile(Bits32, 8, 2, 2, True)
    t["RegisterFileRst_16_4"] = lambda: register_files.RegisterFileRst(Bits16, 4, 1, 1, False, 3)
    for nm, mod in (("q", q1), ("stream", q4)):
        for cls in ("NormalQueueRTL", "PipeQueueRTL", "BypassQueueRTL"):
            C = getattr(mod, cls)
            t["%s_%s_16_2" % (nm, cls)] = lambda C=C: C(Bits16, 2)
            t["%s_%s_8_3" % (nm, cls)] = lambda C=C: C(Bits8, 3)
        for cls in ("NormalQueue1EntryRTL", "PipeQueue1EntryRTL", "BypassQueue1EntryRTL"):
            C = getattr(mod, cls)
            t["%s_%s_16" % (nm, cls)] = lambda C=C: C(Bits16)
    for cls in ("PipeQueue1RTL", "BypassQueue1RTL", "NormalQueue1RTL"):
        t["enrdy_%s_16" % cls] = lambda C=getattr(q2, cls): C(Bits16)
    t["enrdy_BypassQueue2RTL_8"] = lambda: q2.BypassQueue2RTL(Bits8, 2)
    return t


def _examples_table():
    t = {}
    try:
        from examples.ex02_cksum.ChecksumRTL import ChecksumRTL, StepUnit
        t["ChecksumRTL"] = lambda: ChecksumRTL()
        t["StepUnit"] = lambda: StepUnit()
    except Exception:
        pass
    try:
        from examples.ex03_proc.ProcRTL import ProcRTL
        t["ProcRTL"] = lambda: ProcRTL()
    except Exception:
        pass
    try:
        from examples.ex03_proc.ProcDpathRTL import ProcDpathRTL
        from examples.ex03_proc.ProcCtrlRTL import ProcCtrlRTL
        t["ProcDpathRTL"] = lambda: ProcDpathRTL()
        t["ProcCtrlRTL"] = lambda: ProcCtrlRTL()
    except Exception:
        pass
    try:
        from examples.ex04_xcel.ChecksumXcelRTL import ChecksumXcelRTL
        t["ChecksumXcelRTL"] = lambda: ChecksumXcelRTL()
    except Exception:
        pass
    try:
        from examples.ex03_proc.MiscRTL import AluRTL, DropUnitRTL, ImmGenRTL
        from pymtl3 import Bits32
        t["AluRTL"] = lambda: AluRTL(32)
        t["ImmGenRTL"] = lambda: ImmGenRTL()
        t["DropUnitRTL"] = lambda: DropUnitRTL(Bits32)
    except Exception:
        pass
    return t


_GEN_COUNT = [0]


def resolve(spec):
    """-> (name, factory, repo vector stimulus or None)"""
    kind = spec[0]
    if kind == "repo":
        import pymtl3.passes.testcases.test_cases as tc
        c = getattr(tc, spec[1])
        stim = None
        if hasattr(c, "TV") and hasattr(c, "TV_IN") and hasattr(c, "TV_OUT"):
            stim = [((lambda top, tv=tv, c=c: c.TV_IN(top, tv)), (lambda top, tv=tv, c=c: c.TV_OUT(top, tv)))
                    for tv in c.TV]
        return spec[1], c.DUT, stim
    if kind == "stdlib":
        t = _stdlib_table()
        t.update(_examples_table())
        return spec[1], t[spec[1]], None
    if kind == "gen":
        _, name, src, cls = spec[:4]
        _GEN_COUNT[0] += 1
        modname = "svgen_%d_%d" % (os.getpid(), _GEN_COUNT[0])
        path = os.path.join(os.getcwd(), modname + ".py")
        with open(path, "w") as f:
            f.write(src)
        sp = importlib.util.spec_from_file_location(modname, path)
        mod = importlib.util.module_from_spec(sp)
        sys.modules[modname] = mod
        sp.loader.exec_module(mod)
        return name, getattr(mod, cls), None
    raise MachineryError("unknown design spec %r" % (spec,))


def repo_case_names():
    import pymtl3.passes.testcases.test_cases as tc
    return sorted(n for n in dir(tc) if n.startswith("Case") and hasattr(getattr(tc, n), "DUT"))


def stdlib_names(big=False):
    t = _stdlib_table()
    e = _examples_table()
    small = sorted(t) + [n for n in ("StepUnit", "ChecksumRTL", "AluRTL", "ImmGenRTL", "DropUnitRTL") if n in e]
    if big:
        small += [n for n in ("ProcCtrlRTL", "ProcDpathRTL", "ProcRTL", "ChecksumXcelRTL") if n in e]
    return small


# --------------------------------------------------------------------------------------
# random stimulus
# --------------------------------------------------------------------------------------

def rand_value(R, w):
    m = (1 << w) - 1
    c = R.random()
    if c < 0.12:
        return 0
    if c < 0.22:
        return m
    if c < 0.30:
        return 1 & m
    if c < 0.36:
        return 1 << (w - 1)
    if c < 0.42:
        return m >> 1
    if c < 0.50:
        return R.getrandbits(w) & R.getrandbits(w)      # sparse
    return R.getrandbits(w)


# random runs: the design is reset during the first BUSY_RESET stimulus cycles (reset = 1 under random inputs)
BUSY_RESET = 2


def rand_stimulus(R, in_ports, ncyc, hold=0.3):
    """in_ports: [(path, 'in', Type)] without clk.  reset is raised rarely."""
    cur = {}
    stim = []
    for _ in range(ncyc):
        c = {}
        for (path, _d, T) in in_ports:
            if path == ("reset",):
                c[path] = 1 if R.random() < 0.04 else 0
            elif path in cur and R.random() < hold:
                c[path] = cur[path]
            else:
                c[path] = rand_value(R, T.nbits)
        cur = c
        stim.append(c)
    return stim


# --------------------------------------------------------------------------------------
# worker
# --------------------------------------------------------------------------------------

TRANSLATION_REJECTS = ("PyMTLTypeError", "PyMTLSyntaxError", "VerilogTranslationError", "RTLIRTranslationError",
                       "RTLIRConversionError", "VerilogStructuralTranslationError", "VerilogReservedKeywordError",
                       "InvalidConnectionError", "VarNotDeclaredError", "UpdateBlockWriteError", "InvalidIndexError",
                       "WriteNonSignalError", "VerilogPlaceholderError", "MultiWriterError", "NoWriterError",
                       "SignalTypeError", "UpblkCyclicError", "InvalidFuncCallError", "NotElaboratedError",
                       "InvalidPlaceholderError", "UpdateFFBlockWriteError", "UpdateFFNonTopLevelSignalError")


def prepare(spec, backend, nrand, ncyc, seed_tag="", want_text=False, configure=None, cross=False):
    """Everything pymtl3 does for one design.  Returns a dict:
       status: "ok" | "untranslatable" | "placeholder" | "syntax" | "unsupported" | "unbuildable" | "unresolvable"
       traces: list of SVSemTrace traces (first: drivers trace; then, for a repo case with vectors, the
               maintainers' vectors; then one per PyMTL simulation run)
       nosim:  set when the PyMTL simulation of the design raises before the first stimulus cycle (there
               is no PyMTL behaviour to compare with; syntax / OneDriver / hand vectors are still checked)"""
    out = {"spec": spec[:2], "backend": backend, "status": "ok", "traces": [], "info": "", "aborted": 0}
    if spec[0] == "gen":
        out["src"] = spec[2]
        out["meta"] = spec[4] if len(spec) > 4 else {}
    if spec[0] in ("repo", "stdlib") and len(spec) > 2 and isinstance(spec[2], dict) and configure is None:
        # translation configuration, e.g. {"explicit_module_name": "Renamed"}
        cfg = spec[2]

        def configure(top, P):
            for k, v in cfg.items():
                top.set_metadata(getattr(P, k), v)
    with common.scratch():
        try:
            name, factory, repo_stim = resolve(spec)
        except Exception as e:
            out["status"], out["info"] = "unresolvable", "%s: %s" % (type(e).__name__, str(e)[:300])
            return out
        out["name"] = name
        try:
            if H.has_placeholder(factory):
                out["status"] = "placeholder"
                return out
        except Exception as e:
            out["status"] = "unbuildable"
            out["info"] = "%s: %s" % (type(e).__name__, " ".join(str(e).split())[:300])
            return out
        try:
            text, topmod = H.translate(factory, backend, configure)
        except Exception as e:
            tn = type(e).__name__
            out["status"] = "untranslatable"
            out["info"] = "%s: %s" % (tn, " ".join(str(e).split())[:300])
            out["expected_reject"] = tn in TRANSLATION_REJECTS or isinstance(e, (TypeError, AttributeError, AssertionError))
            return out
        if want_text:
            out["text"] = text
        try:
            flat = H.design_of(text, topmod)
        except svparse.SVSyntaxError as e:
            out["status"], out["info"], out["text"] = "syntax", str(e), text
            return out
        except svparse.SVUnsupported as e:
            out["status"], out["info"], out["text"] = "unsupported", str(e), text
            return out
        out["nodes"] = _nodes(flat)
        out["traces"].append(H.drivers_trace(flat, tag=name + "/drivers"))
        flat_sv = None
        if cross and backend != H.SV and not (out.get("meta") or {}).get("nocross"):
            # the SystemVerilog text of the same design, validated on the same recorded vectors (C12)
            try:
                text_sv, top_sv = H.translate(factory, H.SV, configure)
                flat_sv = H.design_of(text_sv, top_sv)
            except Exception as e:
                out["cross_info"] = "%s: %s" % (type(e).__name__, " ".join(str(e).split())[:200])
        # -- the maintainers' hand-written vectors, taken as a trace directly (no PyMTL simulation)
        if spec[0] == "repo" and repo_stim is not None:
            import pymtl3.passes.testcases.test_cases as tc
            c = getattr(tc, spec[1])
            try:
                tr, nexp = H.vector_trace(flat, backend, factory, c.TV, c.TV_IN, c.TV_OUT, tag=name + "/hand-vectors")
                tr["kind"] = "vectors"
                out["traces"].append(tr)
                out["tv"] = {"vectors": len(c.TV), "expectations": nexp}
            except H._VecUnsupported as e:
                out["tv_unsupported"] = str(e)
        # -- PyMTL behaviour
        try:
            sets = []
            tvres = []
            if repo_stim is not None:
                sets.append(("repo-vectors", repo_stim))
            R = rng("stim/%s/%s/%s" % (seed_tag, backend, name))
            ports0 = None
            for k in range(nrand):
                if ports0 is None:
                    top = factory()
                    top.elaborate()
                    ports0 = [p for p in H.walk_ports(top) if p[0] != ("clk",) and p[1] == "in"]
                sets.append(("random-%d" % k, rand_stimulus(R, ports0, ncyc + BUSY_RESET)))
            if not sets:
                sets.append(("reset-only", []))
            for label, stim in sets:
                rnd = label.startswith("random-")
                ports, cycles, aborted = H.record(factory, stim, tvres=tvres if label == "repo-vectors" else None,
                                                  busy_reset=BUSY_RESET if rnd else 0)
                if aborted:
                    out["aborted"] += 1
                    out["info"] += " %s aborted after %d cycles: %s;" % (label, len(cycles), aborted)
                    if len(cycles) <= (0 if rnd else 3):
                        out["nosim"] = aborted
                if cycles:
                    tr = H.make_trace(flat, backend, ports, cycles, tag="%s/%s" % (name, label))
                    tr["nports_out"] = len([p for p in ports if p[1] == "out"])
                    out["traces"].append(tr)
                    if flat_sv is not None and label in ("random-0", "reset-only"):
                        tr2 = H.make_trace(flat_sv, H.SV, ports, cycles, tag="%s/%s/sv-text" % (name, label))
                        tr2["kind"] = "cross"
                        out["traces"].append(tr2)
            if repo_stim is not None:
                out["tv_pymtl"] = {"ok": sum(1 for x in tvres if x), "fail": sum(1 for x in tvres if not x)}
        except Exception as e:
            out["nosim"] = "%s: %s" % (type(e).__name__, " ".join(str(e).split())[:300])
            out["tb"] = traceback.format_exc()[-1500:]
    return out


def _nodes(flat):
    import svelab
    return svelab.count_nodes(flat)
