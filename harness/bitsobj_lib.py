"""Shared machinery of the C04 / C05 checks (Bits arithmetic, slices, helpers).

  * encodings of operands / outcomes / object states shared with spec/BitsObj.tla
    (wide values as limbs base 2^15, least significant first);
  * `execute(env, op, refl, args)`: performs ONE logged call on the real pymtl3 API
    (Bits, BitsN, mk_bits, helpers) and returns the encoded outcome;
  * spec -> code: `table(...)` lets TLC compute an exhaustive case table (spec/BitsTable.tla) and
    `check_rows` runs every row on the real API; `graph_walk` model-checks the BitsObj state machine
    and replays every transition of its state graph;
  * spec -> code, object identity: `heap_walk` covers the complete state graph of spec/BitsHeap.tla by one
    continuous walk on real objects (each the very result of the real call), `heap_simulate` replays
    `-simulate` behaviours of larger heaps; all objects are compared after every action;
  * code -> spec: `validate(...)` sends logged traces to spec/BitsObjTrace.tla, resuming a trace after
    a reported violation so that known defects do not hide the rest of it; `Recorder(heap=True)` logs
    sequences over several live objects (results bound to variables, modified in place later);
  * BV self check runner, canaries, violation keys.
"""
import copy
import hashlib
import json
import operator
import os
import tempfile
import shutil
from concurrent.futures import ThreadPoolExecutor

import tlc
from common import MachineryError

LB = 15
MASK = (1 << LB) - 1

WIDTHS = [1, 2, 7, 8, 15, 16, 17, 31, 32, 33, 63, 64, 65, 127, 128, 255, 256, 511, 512, 1022, 1023]

BINOPS = {"add": operator.add, "sub": operator.sub, "mul": operator.mul, "floordiv": operator.floordiv,
          "mod": operator.mod, "and": operator.and_, "or": operator.or_, "xor": operator.xor,
          "lshift": operator.lshift, "rshift": operator.rshift, "eq": operator.eq, "ne": operator.ne,
          "lt": operator.lt, "le": operator.le, "gt": operator.gt, "ge": operator.ge}
SYM = {"add": "+", "sub": "-", "mul": "*", "floordiv": "//", "mod": "%", "and": "&", "or": "|", "xor": "^",
       "lshift": "<<", "rshift": ">>", "eq": "==", "ne": "!=", "lt": "<", "le": "<=", "gt": ">", "ge": ">="}
UNOPS = ("invert", "int", "uint", "pyint", "index", "bool", "nbits", "clone", "deepcopy")
# `x op= y`: Bits defines no in-place arithmetic, Python falls back to the pure operator and rebinds the name
# (`<<=` and `@=` are the non-blocking / blocking assignments, not shifts / matmul)
IBINOPS = {"add": operator.iadd, "sub": operator.isub, "mul": operator.imul, "floordiv": operator.ifloordiv,
           "mod": operator.imod, "and": operator.iand, "or": operator.ior, "xor": operator.ixor,
           "rshift": operator.irshift}
BITS_RESULT = set(BINOPS) | {"invert", "clone", "deepcopy", "getbit", "getslice", "concat", "zext", "sext", "trunc",
                             "reduce_and", "reduce_or", "reduce_xor"}
INT_RESULT = {"int", "uint", "pyint", "index", "nbits", "clog2"}
BOOL_RESULT = {"bool", "hash_eq"}
MUTATORS = {"new", "assign", "nbassign", "flip", "setbit", "setslice"}
STYLES = ("Bits", "BitsN", "mk_bits")


# --------------------------------------------------------------------------------------
# encodings
# --------------------------------------------------------------------------------------

def nl(w):
    return (w + LB - 1) // LB


def limbs(v, n):
    return [(v >> (LB * i)) & MASK for i in range(n)]


def unlimbs(d):
    v = 0
    for i, x in enumerate(d):
        v |= x << (LB * i)
    return v


def enc_bits(w, v):
    """Bits operand / result of width w holding the integer v (v outside [0, 2^w) only if the
    implementation is defective; it is then encoded so that it cannot equal any spec vector)."""
    if 0 <= v < (1 << w):
        return {"k": "bits", "neg": False, "w": w, "d": limbs(v, nl(w))}
    m = abs(v)
    return {"k": "bits", "neg": v < 0, "w": w, "d": limbs(m, max(nl(w), nl(max(1, m.bit_length()))))}


def enc_int(x):
    m = abs(x)
    w = max(1, m.bit_length())
    return {"k": "int", "neg": x < 0, "w": w, "d": limbs(m, nl(w))}


def dec_value(o):
    """integer denoted by an operand / outcome record"""
    v = unlimbs(o["d"])
    return -v if o.get("neg") else v


def out_ok(w, v):
    e = enc_bits(w, v)
    e["k"] = "ok"
    return e


def out_int(x):
    e = enc_int(x)
    return e


def out_bool(b):
    return {"k": "bool", "neg": False, "w": 1, "d": [1 if b else 0]}


OUT_UNIT = {"k": "unit", "neg": False, "w": 1, "d": [0]}


def out_err(exc):
    return {"k": "err", "neg": False, "w": 1, "d": [0], "c": type(exc).__name__}


def same_out(a, b):
    return a["k"] == b["k"] and a["neg"] == b["neg"] and a["w"] == b["w"] and list(a["d"]) == list(b["d"])


def idx(i):
    """index / slice bound: None -> [], i -> [i]"""
    return [] if i is None else [i]


def unidx(s):
    return None if len(s) == 0 else s[0]


def show(o):
    """short human-readable form of an operand / outcome / index"""
    if isinstance(o, dict):
        k = o.get("k")
        if k == "self":
            return "self"
        if k == "obj":
            return "v%d=Bits%s(%s)" % (o["id"], o.get("w", "?"), o.get("v", "?"))
        if k in ("bits", "ok"):
            v = dec_value(o)
            return "Bits%d(%s)" % (o["w"], hex(v) if abs(v) > 9 else v)
        if k == "int":
            v = dec_value(o)
            return hex(v) if abs(v) > 99 else str(v)
        if k == "bool":
            return str(bool(o["d"][0]))
        if k == "unit":
            return "returned"
        if k == "err":
            return "raised %s" % o.get("c", "an error")
        if "some" in o:
            return ("next=%s" % hex(unlimbs(o["d"]))) if o["some"] else "next=unset"
        if "nxt" in o:
            return "Bits%d(%s),%s" % (o["w"], hex(unlimbs(o["d"])), show(o["nxt"]))
        return str(k)
    if isinstance(o, (list, tuple)):
        return "None" if len(o) == 0 else str(o[0])
    return str(o)


# --------------------------------------------------------------------------------------
# the real API
# --------------------------------------------------------------------------------------

class Api:
    """pymtl3 names, resolved late (pymtl3 is imported from $VERIF_REPO)."""

    def __init__(self):
        import pymtl3
        from pymtl3 import datatypes
        from pymtl3.datatypes import bits_import
        self.Bits = pymtl3.Bits
        self.mk_bits = pymtl3.mk_bits
        self.concat = pymtl3.concat
        self.zext = pymtl3.zext
        self.sext = pymtl3.sext
        self.trunc = pymtl3.trunc
        self.clog2 = pymtl3.clog2
        self.reduce_and = pymtl3.reduce_and
        self.reduce_or = pymtl3.reduce_or
        self.reduce_xor = pymtl3.reduce_xor
        self.pymtl3 = pymtl3
        self.datatypes = datatypes
        self.predefined = set(bits_import._bitwidths)
        if self.Bits.__module__ != "pymtl3.datatypes.PythonBits":
            raise MachineryError("pymtl3.Bits is %s, not the pure-Python class" % self.Bits.__module__)

    def bitsn(self, w):
        """the predefined BitsN class exported by pymtl3 (None if this width has none)"""
        if w in self.predefined:
            return getattr(self.pymtl3, "Bits%d" % w)
        return None

    def make(self, style, w, v, trunc=None):
        """construct a Bits of width w from v with one of the three public spellings"""
        if style == "BitsN":
            cls = self.bitsn(w)
            if cls is None:
                style = "mk_bits"
            else:
                return cls(v) if trunc is None else cls(v, trunc_int=trunc)
        if style == "mk_bits":
            cls = self.mk_bits(w)
            return cls(v) if trunc is None else cls(v, trunc_int=trunc)
        return self.Bits(w, v) if trunc is None else self.Bits(w, v, trunc)


_API = None


def api():
    global _API
    if _API is None:
        _API = Api()
    return _API


class Env:
    """program variables 1, 2, ... each bound to its own real object (variable 1 = the tracked object
    `self` of the single-object traces) + the spelling used for constructing operands"""

    def __init__(self, style="Bits", obj=None):
        self.style = style
        self.vars = [obj]
        self.tgt = 1          # the variable a mutator acts on / "new" binds
        self.last = None      # the raw object returned by the last pure call (None unless it is a Bits)
        self.last_exc = None

    @property
    def obj(self):
        return self.vars[0]

    @obj.setter
    def obj(self, o):
        self.vars[0] = o

    def get(self, i):
        return self.vars[i - 1]

    def bind(self, i, o):
        while len(self.vars) < i:
            self.vars.append(None)
        self.vars[i - 1] = o

    def operand(self, o):
        if o["k"] == "self":
            return self.vars[0]
        if o["k"] == "obj":
            return self.vars[o["id"] - 1]
        if o["k"] == "bits":
            return api().make(self.style, o["w"], unlimbs(o["d"]))
        return dec_value(o)


UNBOUND = {"w": 0, "d": [], "nxt": {"some": False, "d": []}}


def observe(obj):
    """projected state of a Bits object: width, value, pending value"""
    if obj is None:
        return copy.deepcopy(UNBOUND)
    try:
        nx = obj._next
        nxt = {"some": True, "d": limbs(int(nx), nl(obj.nbits)) if 0 <= int(nx) < (1 << obj.nbits)
               else limbs(abs(int(nx)), nl(obj.nbits) + 1)}
    except AttributeError:
        nxt = {"some": False, "d": []}
    e = enc_bits(obj.nbits, int(obj))
    return {"w": e["w"], "d": e["d"] if not e["neg"] else e["d"] + [1], "nxt": nxt}


def state_obj(env, stt):
    """build a real object in the given abstract state"""
    o = api().make(env.style, stt["w"], unlimbs(stt["d"]))
    if stt["nxt"]["some"]:
        o <<= unlimbs(stt["nxt"]["d"])
    return o


def same_state(a, b):
    return (a["w"] == b["w"] and list(a["d"]) == list(b["d"]) and a["nxt"]["some"] == b["nxt"]["some"]
            and (not a["nxt"]["some"] or list(a["nxt"]["d"]) == list(b["nxt"]["d"])))


def _encode_result(op, r):
    A = api()
    if op in INT_RESULT:
        if isinstance(r, int):
            return out_int(int(r))
    elif op in BOOL_RESULT:
        if type(r) is bool:
            return out_bool(r)
    elif isinstance(r, A.Bits):
        return out_ok(r.nbits, int(r))
    return {"k": "other:" + type(r).__name__, "neg": False, "w": 1, "d": [0]}


def execute(env, op, refl, args, ip=False):
    """Perform one call on the real API; return the encoded outcome (for "divmod" a pair).
    Mutators act on the object of variable env.tgt (default 1 = env.obj), "new" binds that variable.
    ip: spell a forward binary operator `x op= y`.  env.last = the raw Bits object a pure call returned."""
    A = api()
    env.last = None
    try:
        if op in BINOPS:
            x, y = env.operand(args[0]), env.operand(args[1])
            if ip and not refl and op in IBINOPS:
                r = IBINOPS[op](x, y)
            else:
                r = BINOPS[op](y, x) if refl else BINOPS[op](x, y)
        elif op == "divmod":
            x, y = env.operand(args[0]), env.operand(args[1])
            outs = []
            for o in ("floordiv", "mod"):
                try:
                    outs.append(_encode_result(o, BINOPS[o](y, x) if refl else BINOPS[o](x, y)))
                except Exception as e:          # noqa: BLE001 - the exception class is the observation
                    outs.append(out_err(e))
            return tuple(outs)
        elif op == "invert":
            r = ~env.operand(args[0])
        elif op == "int":
            r = env.operand(args[0]).int()
        elif op == "uint":
            r = env.operand(args[0]).uint()
        elif op == "pyint":
            r = int(env.operand(args[0]))
        elif op == "index":
            r = operator.index(env.operand(args[0]))
        elif op == "bool":
            r = bool(env.operand(args[0]))
        elif op == "nbits":
            r = env.operand(args[0]).nbits
        elif op in ("clone", "deepcopy"):
            x = env.operand(args[0])
            r = x.clone() if op == "clone" else copy.deepcopy(x)
            if r is x:
                r = "%s returned the same object" % op
        elif op == "hash_eq":
            r = hash(env.operand(args[0])) == hash(env.operand(args[1]))
        elif op == "getbit":
            r = env.operand(args[0])[args[1]]
        elif op == "getslice":
            r = env.operand(args[0])[slice(unidx(args[1]), unidx(args[2]), unidx(args[3]))]
        elif op == "concat":
            r = A.concat(*[env.operand(a) for a in args])
        elif op in ("zext", "sext", "trunc"):
            x, n = env.operand(args[0]), args[1]
            f = getattr(A, op)
            if env.style == "Bits":
                r = f(x, n)
            else:
                r = f(x, (A.bitsn(n) if env.style == "BitsN" and A.bitsn(n) else A.mk_bits(n)))
        elif op in ("reduce_and", "reduce_or", "reduce_xor"):
            r = getattr(A, op)(env.operand(args[0]))
        elif op == "clog2":
            r = A.clog2(dec_value(args[0]))
        elif op == "new":
            o = A.make(env.style, args[0], env.operand(args[1]), bool(args[2]))
            env.last = o
            env.bind(env.tgt, o)
            return dict(OUT_UNIT)
        elif op == "assign":
            o = env.get(env.tgt)
            o @= env.operand(args[0])
            env.bind(env.tgt, o)
            return dict(OUT_UNIT)
        elif op == "nbassign":
            o = env.get(env.tgt)
            o <<= env.operand(args[0])
            env.bind(env.tgt, o)
            return dict(OUT_UNIT)
        elif op == "flip":
            env.get(env.tgt)._flip()
            return dict(OUT_UNIT)
        elif op == "setbit":
            env.get(env.tgt)[args[0]] = env.operand(args[1])
            return dict(OUT_UNIT)
        elif op == "setslice":
            env.get(env.tgt)[slice(unidx(args[0]), unidx(args[1]), unidx(args[2]))] = env.operand(args[3])
            return dict(OUT_UNIT)
        else:
            raise MachineryError("unknown op %r" % op)
    except MachineryError:
        raise
    except Exception as e:                      # noqa: BLE001 - the exception class is the observation
        return out_err(e)
    if op in BITS_RESULT and isinstance(r, A.Bits):
        env.last = r
    return _encode_result(op, r)


def call_text(op, refl, args, tgt=None, ip=False):
    """Python-like rendering of a logged call (tgt: the variable a mutator acts on, default `self`)"""
    a = [show(x) for x in args]
    if tgt not in (None, 1):
        return call_text(op, refl, args).replace("self", "v%d" % tgt, 1)
    if ip and op in IBINOPS and not refl:
        return "x = %s; x %s= %s" % (a[0], SYM[op], a[1])
    if op in BINOPS or op == "divmod":
        s = SYM.get(op, "//,%")
        return "%s %s %s" % ((a[1], s, a[0]) if refl else (a[0], s, a[1]))
    if op == "getbit":
        return "%s[%s]" % (a[0], a[1])
    if op == "getslice":
        return "%s[%s:%s%s]" % (a[0], a[1], a[2], "" if a[3] == "None" else ":" + a[3])
    if op == "setbit":
        return "self[%s] = %s" % (a[0], a[1])
    if op == "setslice":
        return "self[%s:%s%s] = %s" % (a[0], a[1], "" if a[2] == "None" else ":" + a[2], a[3])
    if op == "assign":
        return "self @= %s" % a[0]
    if op == "nbassign":
        return "self <<= %s" % a[0]
    if op == "new":
        return "Bits(%s, %s, trunc_int=%s)" % (a[0], a[1], a[2])
    if op == "flip":
        return "self._flip()"
    if op == "hash_eq":
        return "hash(%s) == hash(%s)" % (a[0], a[1])
    return "%s(%s)" % (op, ", ".join(a))


# --------------------------------------------------------------------------------------
# violation keys
# --------------------------------------------------------------------------------------

def _is_pow2(n):
    return n > 0 and n & (n - 1) == 0


def violation_key(op, refl, args, clause, out, selfw=None):
    """Stable, specific key of a disagreement.  Families caused by one mechanism and one input class
    share a key: an explicit 0 as slice stop / step (falsy-bound handling) and floating-point clog2."""
    if op in ("getslice", "setslice") and clause == "missing-error":
        lo, hi, step = (args[1], args[2], args[3]) if op == "getslice" else (args[0], args[1], args[2])
        name = "getitem" if op == "getslice" else "setitem"
        if list(step) == [0]:
            return "%s-step-0" % name
        if list(hi) == [0] and len(step) == 0:
            return "%s-stop-0" % name
    if op == "clog2" and out.get("k") == "int":
        n = dec_value(args[0])
        got = dec_value(out)
        exp = (n - 1).bit_length() if n >= 1 else None      # only used to name the key, never as a verdict
        if n >= (1 << 29) and exp is not None and abs(got - exp) == 1:
            cls = "2^k" if _is_pow2(n) else "2^k+1" if _is_pow2(n - 1) else "2^k-1" if _is_pow2(n + 1) else "other"
            return "clog2-float:%s" % cls
        return "clog2:%s:N=%s" % (clause, hex(n) if n > 99999 else n)
    a = []
    for x in args:
        if isinstance(x, dict) and x.get("k") == "self":
            a.append("self%s" % ("" if selfw is None else selfw))
        elif isinstance(x, dict) and x.get("k") == "obj":
            a.append("Bits%s(%s)" % (x.get("w", "?"), x.get("v", "?")))
        else:
            a.append(show(x))
    body = ",".join(a)
    if len(body) > 80:
        body = "w=%s,h=%s" % (selfw if selfw is not None else
                              next((x["w"] for x in args if isinstance(x, dict) and "w" in x), "?"),
                              hashlib.sha1(body.encode()).hexdigest()[:10])
    return "%s%s:%s:%s" % (op, "(refl)" if refl else "", clause, body)


def classify(outs, out):
    """harness-side naming of a table mismatch (same clause names as BitsObjTrace!Judge)"""
    if out["k"] == "err":
        return "unexpected-error"
    if all(o["k"] == "err" for o in outs):
        return "missing-error"
    if all(o["k"] != out["k"] for o in outs):
        return "wrong-result-type"
    return "wrong-result"


# --------------------------------------------------------------------------------------
# spec -> code: TLC case tables
# --------------------------------------------------------------------------------------

def table(fam, wlo, whi, p1, scratch_dir, timeout=3600):
    """Let TLC evaluate family `fam` of spec/BitsTable.tla; returns (run, rows)."""
    out = os.path.join(scratch_dir, "table_%s_%d_%d.ndjson" % (fam, wlo, whi))
    cfg = ('SPECIFICATION Spec\nCONSTANTS Fam = "%s"\n WLo = %d\n WHi = %d\n P1 = %d\nCHECK_DEADLOCK FALSE\n'
           % (fam, wlo, whi, p1))
    r = tlc.run("BitsTable", cfg_text=cfg, env={"VERIF_OUT": out}, workers=1, timeout=timeout, heap="4g")
    if not r.ok or r.errors or r.violated:
        raise MachineryError("TLC failed on BitsTable %s w=%d..%d: %s\n%s" % (fam, wlo, whi, r.errors, r.out[-2500:]))
    n = [p[4] for p in r.prints if p and p[0] == "R" and p[1] == fam]
    rows = []
    if os.path.exists(out):
        with open(out) as f:
            for line in f:
                line = line.strip()
                if line:
                    rows.append(json.loads(line))
        os.unlink(out)
    if not n or n[0] != len(rows):
        raise MachineryError("BitsTable %s: TLC reports %s rows, file has %d" % (fam, n, len(rows)))
    return r, rows


def tables(jobs, scratch_dir, pool):
    """jobs: list of (fam, wlo, whi, p1) -> list of futures of (run, rows)"""
    return [(j, pool.submit(table, j[0], j[1], j[2], j[3], scratch_dir)) for j in jobs]


def run_row(row, style):
    """Execute one table row on the real API. Returns (agrees, observed) where observed is the
    encoded outcome (pure) or (outcome, post state) (mutator)."""
    op, refl, args = row["op"], row["refl"], row["args"]
    env = Env(style)
    if "pre" in row:
        env.obj = state_obj(env, row["pre"])
        out = execute(env, op, refl, args)
        post = observe(env.obj)
        ok = row["any"] or any(same_out(p["out"], out) and (out["k"] == "err" and op == "new" or
                                                            same_state(p["post"], post)) for p in row["outs"])
        return ok, (out, post)
    out = execute(env, op, refl, args)
    ok = row["any"] or any(same_out(o, out) for o in row["outs"])
    return ok, out


def check_rows(res, fam, rows, styles, canary=True):
    """Run every row of a TLC table on the real API (all `styles`); report disagreements."""
    nbad = 0
    for i, row in enumerate(rows):
        for style in (styles if len(styles) != 1 or styles[0] != "rotate" else (STYLES[i % 3],)):
            ok, got = run_row(row, style)
            res.add_evals()
            if ok:
                continue
            nbad += 1
            mut = "pre" in row
            out = got[0] if mut else got
            exp = [p["out"] for p in row["outs"]] if mut else row["outs"]
            clause = classify(exp, out)
            if mut and any(same_out(o, out) for o in exp):
                clause = "post-state-mismatch"
            selfw = row["pre"]["w"] if mut else None
            key = violation_key(row["op"], row["refl"], row["args"], clause, out, selfw)
            text = call_text(row["op"], row["refl"], row["args"])
            if mut:
                text = "self = %s; %s" % (show(row["pre"]), text)
                what = "%s: the specification admits %s; pymtl3 %s leaving %s" % (
                    text, " or ".join("%s -> %s" % (show(p["out"]), show(p["post"])) for p in row["outs"]),
                    show(out), show(got[1]))
            else:
                what = "%s: the specification admits %s; pymtl3 gives %s" % (
                    text, " or ".join(show(o) for o in exp), show(out))
            res.violation(key, "%s [%s, table %s, spelling %s]" % (what, clause, fam, style),
                          {"row": row, "observed": got, "style": style, "clause": clause})
    res.count("table_rows", len(rows))
    res.count("table_rows:" + fam, len(rows))
    for row in rows[:: max(1, len(rows) // 50)]:
        res.distinct((fam, json.dumps(row["args"], sort_keys=True), row["op"], row["refl"],
                      json.dumps(row.get("pre"), sort_keys=True)))
    # canary: a perturbed expectation must be noticed by the comparison
    if canary and rows:
        tested = 0
        for row in rows[:: max(1, len(rows) // 7)]:
            if row["any"] or len(row["outs"]) != 1:
                continue
            c = copy.deepcopy(row)
            for o in c["outs"]:
                t = o["out"] if "pre" in c else o
                if t["k"] == "err":
                    t["k"] = "ok"
                elif t["k"] == "unit":
                    o["post"]["d"][0] ^= 1
                else:
                    t["d"][0] ^= 1
            ok, _ = run_row(c, STYLES[0])
            okorig, _ = run_row(row, STYLES[0])
            if okorig:
                tested += 1
                if ok:
                    raise MachineryError("table canary accepted (family %s): %s" % (fam, c))
        res.count("table_canaries_rejected", tested)
    return nbad


# --------------------------------------------------------------------------------------
# spec -> code: the state graph of BitsObj
# --------------------------------------------------------------------------------------

def _cfg_model(ws, vws, imax, acts, props=True):
    s = ("SPECIFICATION Spec\nCONSTANTS Ws = {%s}\n VWs = {%s}\n IMax = %d\n Acts = {%s}\n"
         % (",".join(map(str, ws)), ",".join(map(str, vws)), imax, ",".join('"%s"' % a for a in acts)))
    if props:
        s += ("INVARIANT StoredInRange\nPROPERTY ErrorsChangeNothing\nPROPERTY WidthStable\nPROPERTY NbKeepsValue\n"
              "PROPERTY FlipInstalls\nPROPERTY SetKeepsNext\n")
    return s + "CHECK_DEADLOCK FALSE\n"


ACTION_OF = {"new": "New", "assign": "Assign", "nbassign": "NbAssign", "flip": "Flip", "setbit": "SetBit",
             "setslice": "SetSlice"}


def _tuple_to_list(v):
    if isinstance(v, tuple):
        return [_tuple_to_list(x) for x in v]
    if isinstance(v, dict):
        return {k: _tuple_to_list(x) for k, x in v.items()}
    return v


def graph_walk(res, ws, vws, imax, acts, scratch_dir):
    """Model-check BitsObj (invariants, action properties, coverage) and replay EVERY transition of
    its state graph on the real class."""
    cfg = _cfg_model(ws, vws, imax, acts)
    r = tlc.run("BitsObj", cfg_text=cfg, coverage=True, timeout=3600)
    res.add_tlc(r)
    if r.violated:
        res.violation("model:%s" % sorted(r.violated), "BitsObj.tla itself violates %s" % r.violated, r.out[-3000:])
        return
    if not r.ok:
        raise MachineryError("TLC failed on BitsObj: %s\n%s" % (r.errors, r.out[-2500:]))
    for a in acts:
        if r.coverage.get(ACTION_OF[a], (0, 0))[1] == 0:
            raise MachineryError("action %s never taken in BitsObj model (vacuous)" % ACTION_OF[a])
    pref = os.path.join(scratch_dir, "bitsobj_graph")
    r2 = tlc.run("BitsObj", cfg_text=_cfg_model(ws, vws, imax, acts, props=False), dump=pref, workers=1, timeout=3600)
    res.add_tlc(r2)
    path = pref + ".dot" if os.path.exists(pref + ".dot") else pref
    if not os.path.exists(path):
        raise MachineryError("TLC wrote no state graph for BitsObj:\n%s" % r2.out[-2000:])
    states, init, edges = tlc.parse_dot(path)
    os.unlink(path)
    if not edges:
        raise MachineryError("BitsObj state graph has no edges")
    # group by (abstract object state, action, args): the admitted (outcome, next state) pairs
    groups = {}
    for (s, d, name, args) in edges:
        key = (json.dumps(_tuple_to_list(states[s]["st"]), sort_keys=True), name,
               json.dumps(_tuple_to_list(args), sort_keys=True))
        groups.setdefault(key, []).append(states[d])
    op_of = {v: k for k, v in ACTION_OF.items()}
    nrep = 0
    for (sk, name, ak), dsts in groups.items():
        src = json.loads(sk)
        args = json.loads(ak)
        op = op_of[name]
        for style in STYLES:
            env = Env(style)
            env.obj = state_obj(env, src)
            out = execute(env, op, False, args)
            post = observe(env.obj)
            nrep += 1
            res.add_evals()
            ok = any(same_out(_tuple_to_list(d["res"]["out"]), out) and same_state(_tuple_to_list(d["st"]), post)
                     for d in dsts)
            if not ok:
                exp = [_tuple_to_list(d["res"]["out"]) for d in dsts]
                clause = classify(exp, out)
                if any(same_out(o, out) for o in exp):
                    clause = "post-state-mismatch"
                key = violation_key(op, False, args, clause, out, src["w"])
                res.violation(key, "self = %s; %s: the state graph of BitsObj admits %s; pymtl3 %s leaving %s "
                              "[%s, spelling %s]" % (show(src), call_text(op, False, args),
                                                     " or ".join("%s -> %s" % (show(_tuple_to_list(d["res"]["out"])),
                                                                               show(_tuple_to_list(d["st"]))) for d in dsts),
                                                     show(out), show(post), clause, style),
                              {"src": src, "action": name, "args": args, "observed": [out, post]})
        res.distinct(("edge", sk, name, ak))
    res.count("spec_to_code_transitions_replayed", nrep)
    res.note("state_graph", {"states": len(states), "edges": len(edges), "distinct_steps": len(groups)})
    # replay canary: a perturbed expected state must mismatch
    (sk, name, ak), dsts = next(iter(groups.items()))
    env = Env("Bits")
    env.obj = state_obj(env, json.loads(sk))
    execute(env, op_of[name], False, json.loads(ak))
    post = observe(env.obj)
    post["d"][0] ^= 1
    if any(same_state(_tuple_to_list(d["st"]), post) for d in dsts):
        raise MachineryError("graph replay canary: perturbed state accepted")
    return r


# --------------------------------------------------------------------------------------
# spec -> code: behaviours of BitsHeap (object identity) replayed on real objects
# --------------------------------------------------------------------------------------

ALL_OPS = list(BINOPS)
HEAP_ACTS = ("new", "newfrom", "un", "bin", "binint", "getbit", "getslice", "concat", "ext", "assign", "nbassign",
             "flip", "setbit", "setslice")
HEAP_ACTIONS = ("New", "NewFrom", "Un", "Bin", "BinInt", "GetBit", "GetSlice", "Concat", "Ext", "Assign", "AssignInt",
                "NbAssign", "NbAssignInt", "Flip", "SetBit", "SetBitInt", "SetSlice")
HEAP_PROPS = ("Frame", "ErrorsChangeNothing", "ResultIsOutcome", "NewHasNoPending", "WidthStable", "NbInvisible",
              "NatSemantics")


def heap_cfg(nvars, ws, wmax, ineg, ipos, ops, iops, acts=None, props=True, view=True, det=False):
    q = lambda xs: ",".join('"%s"' % x for x in xs)      # noqa: E731
    s = ("SPECIFICATION Spec\nCONSTANTS NVars = %d\n Ws = {%s}\n WMax = %d\n INeg = %d\n IPos = %d\n Ops = {%s}\n"
         " IOps = {%s}\n Acts = {%s}\n DetOnly = %s\n" % (nvars, ",".join(map(str, ws)), wmax, ineg, ipos, q(ops),
                                                             q(iops), q(acts or HEAP_ACTS), "TRUE" if det else "FALSE"))
    if props:
        s += "INVARIANT TypeOK\n" + "".join("PROPERTY %s\n" % p for p in HEAP_PROPS)
    if view:
        s += "VIEW HeapView\n"
    return s + "CHECK_DEADLOCK FALSE\n"


def _obj(i):
    return {"k": "obj", "id": i}


def heap_call(name, a):
    """A BitsHeap action (name, args without the trailing `raises` flag) as a Recorder.call: dict(op, args, ...)"""
    if name == "New":
        return dict(op="new", args=[a[1], enc_int(a[2]), False], rid=a[0])
    if name == "NewFrom":
        return dict(op="new", args=[a[2], _obj(a[1]), False], rid=a[0])
    if name == "Un":
        return dict(op=a[0], args=[_obj(a[2])], rid=a[1])
    if name == "Bin":
        return dict(op=a[0], args=[_obj(a[2]), _obj(a[3])], rid=a[1])
    if name == "BinInt":
        return dict(op=a[0], refl=bool(a[1]), args=[_obj(a[3]), enc_int(a[4])], rid=a[2])
    if name == "GetBit":
        return dict(op="getbit", args=[_obj(a[1]), a[2]], rid=a[0])
    if name == "GetSlice":
        return dict(op="getslice", args=[_obj(a[1]), [a[2]], [a[3]], []], rid=a[0])
    if name == "Concat":
        return dict(op="concat", args=[_obj(a[1]), _obj(a[2])], rid=a[0])
    if name == "Ext":
        return dict(op=a[0], args=[_obj(a[2]), a[3]], rid=a[1])
    if name == "Assign":
        return dict(op="assign", args=[_obj(a[1])], tgt=a[0])
    if name == "AssignInt":
        return dict(op="assign", args=[enc_int(a[1])], tgt=a[0])
    if name == "NbAssign":
        return dict(op="nbassign", args=[_obj(a[1])], tgt=a[0])
    if name == "NbAssignInt":
        return dict(op="nbassign", args=[enc_int(a[1])], tgt=a[0])
    if name == "Flip":
        return dict(op="flip", args=[], tgt=a[0])
    if name == "SetBit":
        return dict(op="setbit", args=[a[1], _obj(a[2])], tgt=a[0])
    if name == "SetBitInt":
        return dict(op="setbit", args=[a[1], enc_int(a[2])], tgt=a[0])
    if name == "SetSlice":
        return dict(op="setslice", args=[[a[1]], [a[2]], [], _obj(a[3])], tgt=a[0])
    raise MachineryError("unknown BitsHeap action %s" % name)


def heap_text(h):
    return ", ".join("v%d=%s" % (i + 1, show(x).replace(",next=unset", "")) for i, x in enumerate(h) if x["w"])


class HeapReal:
    """Real objects driven by BitsHeap actions.  Every object is the one the real operation returned."""

    def __init__(self, heap, nstyle=0):
        """start from the abstract heap `heap` (fresh objects built by the constructors)"""
        self.n = nstyle
        self.rec = None
        self.reset(heap)

    def reset(self, heap):
        w1 = heap[0]["w"]
        self.rec = Recorder(w1, STYLES[self.n % 3], heap=True)
        env = self.rec.env
        for i, stt in enumerate(heap):
            env.bind(i + 1, state_obj(env, stt) if stt["w"] else None)

    def step(self, name, args):
        """-> (raised?, alias, observed heap, event)"""
        c = heap_call(name, args)
        rec = self.rec
        self.n += 1
        rec.env.style = STYLES[self.n % 3]
        for x in c["args"]:                          # annotate the operands for messages / keys
            if isinstance(x, dict) and x.get("k") == "obj":
                o = rec.var(x["id"])
                x["w"], x["v"] = o.nbits, hex(int(o))
        e = rec.call(c["op"], c["args"], refl=c.get("refl", False), rid=c.get("rid", 0), tgt=c.get("tgt", 1))
        rec.ev = []                                  # nothing is kept: the comparison happens here
        return e["out"]["k"] == "err", e.get("alias", 0), e["heap"], e


def _same_heap(a, b):
    n = max(len(a), len(b))
    a = list(a) + [UNBOUND] * (n - len(a))
    b = list(b) + [UNBOUND] * (n - len(b))
    return all(same_state(x, y) for x, y in zip(a, b))


def _heap_violation(res, name, args, src, exp, raised, alias, got, e, where):
    """exp: list of (raises?, heap) the specification admits"""
    tgt = heap_call(name, args)
    t = tgt.get("rid") or tgt.get("tgt") or 0
    if alias:
        clause = "result-aliases-live-object"
    elif all(x[0] != raised for x in exp):
        clause = "unexpected-error" if raised else "missing-error"
    else:
        cand = [h for (r, h) in exp if r == raised]
        others = any(all(same_state(x, y) for i, (x, y) in enumerate(zip(h, list(got) + [UNBOUND] * len(h))) if i + 1 != t)
                     for h in cand)
        clause = "wrong-result" if others else "changed-another-object"
    text = call_text(e["op"], e["refl"], e["args"], e.get("tgt", 1))
    if e.get("rid"):
        text = "v%d = %s" % (e["rid"], text)
    key = "heap:%s:%s:%s" % (text, clause, heap_text(src))
    what = ("objects %s; %s: BitsHeap admits %s; pymtl3 %s leaving %s" %
            (heap_text(src), text, " or ".join(("an error, " if r else "") + heap_text(h) for r, h in exp),
             show(e["out"]), heap_text(got)))
    if alias:
        what += "; the returned object IS the live object of v%d (made by `%s`)" % (alias, e.get("alias_origin", "?"))
    res.violation(key, "%s [%s, %s]" % (what, clause, where), {"action": name, "args": list(args), "before": src,
                                                               "admitted": exp, "observed": got, "clause": clause})


def heap_graph_tlc(cfgargs, scratch_dir, tag):
    """model-check BitsHeap (properties, coverage) and dump its state graph; -> (run, run2, dot path, needed actions)"""
    r = tlc.run("BitsHeap", cfg_text=heap_cfg(*cfgargs), coverage=True, timeout=3600, workers=4)
    pref = os.path.join(scratch_dir, "bitsheap_%s" % tag)
    r2 = tlc.run("BitsHeap", cfg_text=heap_cfg(*cfgargs, props=False), dump=pref, workers=1, timeout=3600)
    path = pref + ".dot" if os.path.exists(pref + ".dot") else pref
    need = [a for a in HEAP_ACTIONS if a != "Concat" or 2 * min(cfgargs[1]) <= cfgargs[2]]
    return r, r2, path, need


def heap_walk(res, fut, max_viol=6):
    """spec -> code: ONE continuous walk on real objects that takes every transition of the complete state
    graph of BitsHeap at least once; all objects are compared after every call."""
    r, r2, path, need = fut
    res.add_tlc(r)
    res.add_tlc(r2)
    if r.violated:
        res.violation("model:heap:%s" % sorted(r.violated), "BitsHeap.tla itself violates %s" % r.violated, r.out[-3000:])
        return
    if not r.ok or not r2.ok:
        raise MachineryError("TLC failed on BitsHeap: %s %s\n%s" % (r.errors, r2.errors, (r.out + r2.out)[-2500:]))
    for a in need:
        if r.coverage.get(a, (0, 0))[1] == 0:
            raise MachineryError("action %s never taken in the BitsHeap model (vacuous)" % a)
    if not os.path.exists(path):
        raise MachineryError("TLC wrote no state graph for BitsHeap:\n%s" % r2.out[-2000:])
    states, init, edges = tlc.parse_dot(path)
    os.unlink(path)
    heaps = {sid: _tuple_to_list(st["heap"]) for sid, st in states.items()}
    calls = {}                                        # sid -> {(name, args) -> [(raises, dst)]}
    for (s_, d, name, args) in edges:
        calls.setdefault(s_, {}).setdefault((name, tuple(args[:-1])), []).append((bool(args[-1]), d))
    (cur,) = tuple(init)
    todo = {s_: set(c) for s_, c in calls.items()}
    ntodo = sum(len(c) for c in todo.values())
    total = ntodo
    real = HeapReal(heaps[cur])
    steps = nviol = 0
    names = set()

    # condensed graph for routing: one call per (state, successor state), deterministic calls preferred
    hop = {}
    for s_, cs in calls.items():
        h = hop.setdefault(s_, {})
        for c, ds in cs.items():
            for (_, d) in ds:
                if d != s_ and (d not in h or (len(ds) == 1 and len(calls[s_][h[d]]) > 1)):
                    h[d] = c
    plan = []                                          # calls still to take towards the next state with work

    def route(frm):
        """calls of a shortest path from frm to a state with an untaken call"""
        seen, q = {frm: None}, [frm]
        for x in q:
            if todo.get(x):
                path = []
                while x != frm:
                    x, c = seen[x]
                    path.append((x, c))
                return path[::-1]
            for d, c in hop.get(x, {}).items():
                if d not in seen:
                    seen[d] = (x, c)
                    q.append(d)
        return None

    while ntodo:
        if todo.get(cur):
            c = min(todo[cur])
            plan = []
        else:
            if not plan or plan[0][0] != cur:
                plan = route(cur)
            if not plan:                              # the untaken calls are unreachable from here: jump
                cur = next(s_ for s_ in todo if todo[s_])
                real.reset(heaps[cur])
                plan = []
                continue
            c = plan.pop(0)[1]
        if c in todo.get(cur, ()):
            todo[cur].discard(c)
            ntodo -= 1
        name, args = c
        names.add(name)
        raised, alias, got, e = real.step(name, args)
        steps += 1
        dst = [d for (rz, d) in calls[cur][c] if rz == raised and _same_heap(heaps[d], got)]
        if dst and not alias:
            cur = dst[0]
            continue
        nviol += 1
        _heap_violation(res, name, args, heaps[cur], [(rz, heaps[d]) for rz, d in calls[cur][c]], raised, alias, got, e,
                        "walk over the state graph of BitsHeap, step %d" % steps)
        if nviol >= max_viol:
            res.note("heap_walk_aborted_after_violations", nviol)
            break
        cur = dst[0] if dst else calls[cur][c][0][1]
        real.reset(heaps[cur])                        # resynchronise on fresh objects
    res.add_evals(steps)
    res.count("spec_to_code_transitions_replayed", steps)
    for s_ in states:
        res.distinct(("heap-state", json.dumps(heaps[s_])))
    res.note("heap_state_graph", {"states": len(states), "edges": len(edges), "distinct_calls": total,
                                  "walk_steps": steps, "actions": sorted(names)})
    # canary: a perturbed expectation must not be matched
    (c0, ds0) = next(iter(calls[next(iter(init))].items()))
    hr = HeapReal(heaps[next(iter(init))])
    _, _, got, _ = hr.step(*c0)
    bad = copy.deepcopy(got)
    bad[0]["d"][0] ^= 1
    if any(_same_heap(heaps[d], bad) for _, d in ds0) or not any(_same_heap(heaps[d], got) for _, d in ds0):
        raise MachineryError("heap walk canary: a perturbed heap was accepted")
    res.count("canaries_rejected", 1)


def heap_sim_tlc(cfgargs, num, depth, sd):
    return tlc.simulate_traces("BitsHeap", cfg_text=heap_cfg(*cfgargs, props=False, view=False, det=True), num=num, depth=depth,
                               sd=sd)


def heap_simulate(res, futs, max_viol=6):
    """spec -> code: `-simulate` behaviours of a larger BitsHeap configuration replayed from Init on real
    objects (all objects compared after every action)."""
    nb = nsteps = nviol = 0
    acts = {}
    for fu in futs:
        r, behs = fu.result() if hasattr(fu, "result") else fu
        res.add_tlc(r)
        if not behs:
            raise MachineryError("TLC -simulate produced no behaviour of BitsHeap:\n%s" % r.out[-2000:])
        for beh in behs:
            nb += 1
            heap = _tuple_to_list(beh[0][2]["heap"])
            real = HeapReal(heap, nb)
            for k, (name, args, st) in enumerate(beh[1:]):
                exp = _tuple_to_list(st["heap"])
                want_raise = bool(args[-1])
                raised, alias, got, e = real.step(name, tuple(args[:-1]))
                nsteps += 1
                acts[name] = acts.get(name, 0) + 1
                if raised == want_raise and not alias and _same_heap(exp, got):
                    heap = exp
                    continue
                nviol += 1
                if nviol <= max_viol:
                    _heap_violation(res, name, tuple(args[:-1]), heap, [(want_raise, exp)], raised, alias, got, e,
                                    "TLC -simulate behaviour %d, step %d" % (nb, k + 1))
                heap = exp
                real.reset(heap)
            res.distinct(("heap-behaviour", nb, len(beh)))
    for a in HEAP_ACTIONS:
        if not acts.get(a):
            raise MachineryError("action %s does not occur in the simulated BitsHeap behaviours" % a)
    res.add_evals(nsteps)
    res.count("spec_to_code_transitions_replayed", nsteps)
    res.note("heap_simulation", {"behaviours": nb, "steps": nsteps, "steps_by_action": dict(sorted(acts.items()))})


def heap_canaries(res, traces, pool, tmp):
    """Corrupted copies of accepted heap traces must be rejected with the clause of the object-identity rules."""
    can = []

    def cut(t, j):
        c = copy.deepcopy(t)
        c["ev"] = c["ev"][:j + 1]
        return c
    for t in traces:
        kinds = {k for k, _ in can}
        for j, e in enumerate(t["ev"]):
            if "heap" not in e or _maybe_open(e) or len(e["heap"]) < 2:
                continue
            ch = e.get("rid") or (e.get("tgt", 1) if e["op"] in MUTATORS else 0)
            other = [i for i in range(len(e["heap"])) if i + 1 != ch]
            if "frame" not in kinds and e["out"]["k"] != "err" and other and ch:
                c = cut(t, j)                         # another object changed as well
                c["ev"][j]["heap"][other[-1]]["d"][0] ^= 1
                can.append(("frame", c))
                break
            if "alias" not in kinds and e.get("rid") and e["op"] != "new":
                c = cut(t, j)                         # the result is an existing object
                c["ev"][j]["alias"] = other[0] + 1
                can.append(("alias", c))
                break
            if "operand" not in kinds and e["op"] in BINOPS and e["out"]["k"] == "ok" and not e.get("rid") \
                    and e["args"][0].get("k") == "obj":
                c = cut(t, j)                         # a pure operator modified its operand
                c["ev"][j]["heap"][e["args"][0]["id"] - 1]["d"][0] ^= 1
                can.append(("operand", c))
                break
            if "stale" not in kinds and e.get("rid") and e["op"] in BINOPS and e["out"]["k"] == "ok":
                c = cut(t, j)                         # the bound object does not hold the result
                c["ev"][j]["heap"][e["rid"] - 1]["d"][0] ^= 1
                can.append(("stale", c))
                break
            if "err-changes" not in kinds and e["out"]["k"] == "err" and e["op"] in MUTATORS and e["op"] != "new":
                c = cut(t, j)                         # a raising mutator changed its object
                c["ev"][j]["heap"][e.get("tgt", 1) - 1]["d"][0] ^= 1
                can.append(("err-changes", c))
                break
        if len(can) >= 5:
            break
    want = {"frame": "changed-another-object", "alias": "result-aliases-live-object",
            "operand": "changed-another-object", "stale": "post-state-mismatch", "err-changes": "post-state-mismatch"}
    have = {k for k, _ in can}
    # which kinds can be derived depends on the recorded histories (e.g. whether a mutator raised while
    # two objects were live); the two object-identity clauses are indispensable, the rest is best effort
    if not {"frame", "alias"} <= have or len(have) < 3:
        raise MachineryError("could not build the heap canaries: have %s" % sorted(have))
    res.note("heap_canary_kinds_not_built", sorted(set(want) - have))
    _, verdicts = _validate_once([c for _, c in can], pool, tmp, coverage_first=False)
    bad = [(k, v[0]) for (k, _), v in zip(can, verdicts) if v[0] != want[k]]
    if bad:
        raise MachineryError("heap canary traces not rejected with the expected clause: %s" % bad)
    res.count("canaries_rejected", len(can))
    res.note("heap_canary_clauses", {k: want[k] for k, _ in can})


# --------------------------------------------------------------------------------------
# code -> spec: trace validation
# --------------------------------------------------------------------------------------

class Recorder:
    """Drives real objects and logs every call as an event of BitsObjTrace.

    Single-object use (C05, part of C04): `call(op, args, refl)` with operands `{"k": "self"}` or literals;
    only the tracked object (variable 1) is observed after each call.
    Heap use (`heap=True`): several program variables, each bound to the very object a real operation
    returned.  `call(..., rid=k)` binds variable k (1 .. number of variables + 1) to the Bits object a pure
    call / the constructor returned, `call(..., tgt=k)` applies a mutator to the object of variable k, operands
    `obj(k)` name the object of variable k.  After EVERY call all objects are observed (`heap`), and the
    returned object is compared by identity with every live object (`alias`)."""

    def __init__(self, w0, style, heap=False):
        self.env = Env(style, api().make(style, w0, 0) if style != "Bits" else api().Bits(w0))
        self.w0 = w0
        self.ev = []
        self.heap = heap
        self.origin = {1: "Bits(%d)" % w0}      # variable -> text of the call that produced its object

    @property
    def obj(self):
        return self.env.obj

    @property
    def nvars(self):
        return len(self.env.vars)

    def var(self, i):
        return self.env.vars[i - 1]

    def obj_arg(self, i):
        """operand naming the object of variable i (width / value annotated for messages and keys only)"""
        o = self.env.vars[i - 1]
        return {"k": "obj", "id": i, "w": o.nbits, "v": hex(int(o))}

    def call(self, op, args, refl=False, rid=0, tgt=1, ip=False):
        env = self.env
        env.tgt = (rid or 1) if op == "new" else tgt
        out = execute(env, op, refl, args, ip)
        e = {"op": op, "refl": bool(refl), "args": args}
        if op == "divmod":
            e["out"], e["out2"] = out
        else:
            e["out"] = out
        if ip:
            e["ip"] = True
        if op in MUTATORS and op != "new" and (self.heap or tgt != 1):
            e["tgt"] = tgt
        raw = env.last
        if op == "new":
            if rid:
                e["rid"] = rid
            if raw is not None:
                self.origin[rid or 1] = call_text(op, refl, args)
        elif raw is not None and (self.heap or rid):
            # identity of the returned object against every live object (operands included)
            alias = 0
            for i, o in enumerate(env.vars):
                if o is raw:
                    alias = i + 1
                    break
            if alias:
                e["alias"] = alias
                e["alias_origin"] = self.origin.get(alias, "?")
                raw = api().make(env.style, raw.nbits, int(raw))      # repair: continue with a private copy
            if rid:
                if out.get("k") != "ok":
                    raise MachineryError("cannot bind variable %d to a non-Bits result of %s" % (rid, op))
                env.bind(rid, raw)
                e["rid"] = rid
                self.origin[rid] = call_text(op, refl, args, ip=ip)
        elif rid:
            pass                                    # the call raised / returned no Bits: nothing is bound
        e["post"] = observe(env.vars[0])
        if self.heap:
            e["heap"] = [e["post"]] + [observe(o) for o in env.vars[1:]]
        self.ev.append(e)
        return e

    def trace(self):
        return {"w0": self.w0, "ev": self.ev}


def obj_value(a):
    """integer value annotated on an `obj` operand"""
    return int(a["v"], 16)


def _run_trace_chunk(path, coverage):
    return tlc.run("BitsObjTrace", env={"VERIF_INPUT": path}, workers=1, timeout=3600, deadlock=False,
                   coverage=coverage, heap="4g")


def _trace_cost(t):
    """rough TLC cost of a trace: events weighted by operand size"""
    w = t["init_heap"][0]["w"] if "init_heap" in t else t.get("w0", 64) if "init" not in t else t["init"]["w"]
    nh = len(t["ev"][-1].get("heap", ())) if t["ev"] else 0
    return len(t["ev"]) * (1.0 + w / 256.0) * (1.0 + nh / 4.0) + 5 * sum(1 for e in t["ev"] if e["op"] in ("mod", "floordiv") and w > 200)


def _validate_once(traces, pool, tmp, coverage_first=True):
    """-> (runs, verdicts[(err, pos)]).  The batch is split into about one chunk per core, balanced by
    estimated cost (every trace is an independent linear search; one TLC worker per chunk)."""
    ncpu = min(os.cpu_count() or 4, 16)
    total = sum(len(t["ev"]) for t in traces)
    nchunks = max(1, min(ncpu, total // 300, len(traces)))
    order = sorted(range(len(traces)), key=lambda i: -_trace_cost(traces[i]))
    chunks = [[] for _ in range(nchunks)]
    load = [0.0] * nchunks
    for i in order:
        k = load.index(min(load))
        chunks[k].append(i)
        load[k] += _trace_cost(traces[i])
    chunks = [sorted(c) for c in chunks if c]
    futs = []
    for ci, ids in enumerate(chunks):
        fn = os.path.join(tmp, "in_%d_%d.json" % (id(traces) % 100000, ci))
        with open(fn, "w") as f:
            json.dump({"traces": [traces[i] for i in ids]}, f)
        futs.append((ids, fn, pool.submit(_run_trace_chunk, fn, coverage_first and ci == 0)))
    runs, verdicts = [], [None] * len(traces)
    for ids, fn, fu in futs:
        r = fu.result()
        os.unlink(fn)
        runs.append(r)
        if r.errors or r.violated:
            raise MachineryError("trace spec BitsObjTrace failed: %s %s\n%s" % (r.errors, r.violated, r.out[-3000:]))
        for v in r.prints:
            if v and v[0] == "V":
                k = ids[v[1] - 1]
                if verdicts[k] is not None:
                    raise MachineryError("two verdicts for trace %d" % k)
                verdicts[k] = (v[2], v[3])
        for k in ids:
            if verdicts[k] is None:
                raise MachineryError("no verdict for trace %d\n%s" % (k, r.out[-3000:]))
    return runs, verdicts


TRACE_ACTIONS = ("BinEv", "DivModEv", "UnaryEv", "ReadEv", "HelperEv", "Clog2Ev", "NewEv", "AssignEv", "SetEv")


def validate(res, traces, pool, tmp, need_actions=(), label="trace", max_rounds=40, report=True, max_per_trace=None):
    """Validate traces with BitsObjTrace.  A rejected trace is reported and its remainder is
    resubmitted starting from the observed state, so one defect does not hide later events
    (at most max_per_trace rejections per trace if given).
    Returns list of (trace index, event index, clause, event)."""
    found = []
    nfound = {}
    pending = [(i, 0, t) for i, t in enumerate(traces)]      # (orig index, offset, trace)
    cov = {}
    rounds = 0
    while pending:
        rounds += 1
        if rounds > max_rounds:
            if found:
                # many defects per trace (e.g. a helper wrong for dozens of inputs): the remainder of the
                # failing traces is left unexamined; what was found is reported
                res.note("%s_validation_truncated_after_rounds" % label, max_rounds)
                break
            raise MachineryError("trace validation did not converge (%d traces still failing)" % len(pending))
        runs, verdicts = _validate_once([p[2] for p in pending], pool, tmp)
        nxt = []
        for r in runs:
            res.add_tlc(r)
            for a, c in r.coverage.items():
                cov[a] = cov.get(a, 0) + c[1]
        for (oi, off, t), (err, pos) in zip(pending, verdicts):
            if err == "ok":
                continue
            e = t["ev"][pos - 1]
            if err.startswith("bad-trace"):
                raise MachineryError("the harness logged an ill-formed trace (%s, %s %d event %d): %s"
                                     % (err, label, oi, off + pos - 1, json.dumps(e)[:500]))
            found.append((oi, off + pos - 1, err, e))
            nfound[oi] = nfound.get(oi, 0) + 1
            rest = t["ev"][pos:]
            if max_per_trace is not None and nfound[oi] >= max_per_trace:
                rest = []
            if rest and "heap" in e:
                nxt.append((oi, off + pos, {"w0": e["post"]["w"], "init_heap": e["heap"], "ev": rest}))
            elif rest:
                nxt.append((oi, off + pos, {"w0": e["post"]["w"], "init": e["post"], "ev": rest}))
        pending = nxt
    if report:
        for (oi, ei, clause, e) in found:
            report_trace_violation(res, traces[oi], oi, ei, clause, e, label)
    for a in need_actions:
        if cov.get(a, 0) == 0:
            raise MachineryError("trace action %s never taken (vacuous coverage): %s" % (a, cov))
    res.add_traces(len(traces))
    res.add_evals(sum(len(t["ev"]) for t in traces))
    res.note("trace_validation_rounds:" + label, rounds)
    return found


def report_trace_violation(res, trace, oi, ei, clause, e, label):
    """One rejected event of a validated trace -> res.violation with a stable key and a readable history."""
    tgt = e.get("tgt", 1)
    selfw = e["heap"][tgt - 1]["w"] if "heap" in e and tgt <= len(e["heap"]) else e["post"]["w"]
    key = violation_key(e["op"], e["refl"], e["args"], clause, e["out"], selfw)
    text = call_text(e["op"], e["refl"], e["args"], tgt, e.get("ip", False))
    what = "%s: pymtl3 %s%s" % (text, show(e["out"]), (" and " + show(e["out2"])) if "out2" in e else "")
    detail = {"event": e, "clause": clause, "trace": oi, "index": ei}
    if clause == "result-aliases-live-object":
        what += ("; the returned object IS the live object of variable v%d (made by `%s`): a result must be a new "
                 "object, Bits objects are mutable in place" % (e["alias"], e.get("alias_origin", "?")))
    elif clause == "changed-another-object" and "heap" in e and ei > 0 and "heap" in trace["ev"][ei - 1]:
        before = trace["ev"][ei - 1]["heap"]
        ch = [i + 1 for i, (a, b) in enumerate(zip(before, e["heap"])) if not same_state(a, b)
              and i + 1 != (e.get("rid") or (tgt if e["op"] in MUTATORS else 0))]
        what += "; it also changed the object(s) of %s, which the call does not own" % \
                ", ".join("v%d (%s -> %s)" % (i, show(before[i - 1]), show(e["heap"][i - 1])) for i in ch)
    elif clause == "post-state-mismatch" and "heap" in e:
        what += "; afterwards the object holds %s" % show(e["heap"][(e.get("rid") or tgt) - 1])
    if "heap" in e:
        # the calls that produced / last modified the operands: enough history to read the violation
        hist = []
        for k in range(max(0, ei - 6), ei):
            p = trace["ev"][k]
            hist.append("%s%s -> %s" % (("v%d = " % p["rid"]) if p.get("rid") else "",
                                        call_text(p["op"], p["refl"], p["args"], p.get("tgt", 1), p.get("ip", False)),
                                        show(p["out"])))
        detail["preceding_calls"] = hist
    res.violation(key, "%s; rejected by BitsObjTrace with clause %s [%s %d, event %d]" % (what, clause, label, oi, ei),
                  detail)


def _maybe_open(e):
    """True if the specification may admit more than one outcome for this logged call (such events are
    not used for canaries: a corrupted copy could legitimately be accepted).  Conservative."""
    op, a = e["op"], e["args"]
    sw = e["post"]["w"]

    def width(o):
        return sw if o.get("k") == "self" else o["w"]

    def value(o):
        if o.get("k") == "obj":
            return obj_value(o)
        return unlimbs(e["post"]["d"]) if o.get("k") == "self" else dec_value(o)
    if op in ("lshift", "rshift"):
        return e["refl"] or (a[1]["k"] != "int" and width(a[1]) != width(a[0])) or \
            (a[1]["k"] == "int" and value(a[1]) >= (1 << width(a[0])))
    if op in ("floordiv", "mod", "divmod"):
        return value(a[0] if e["refl"] else a[1]) == 0
    if op in ("zext", "sext"):
        return not (width(a[0]) <= a[1] <= 1023)
    if op == "trunc":
        return not (1 <= a[1] <= width(a[0]))
    if op == "concat":
        return sum(width(x) for x in a) > 1023
    if op == "clog2":
        return dec_value(a[0]) <= 0
    if op in ("hash_eq", "flip"):
        return True
    if op in ("setbit", "setslice"):
        v = a[-1]
        return v.get("k") in ("bits", "self", "obj") or v.get("neg", False)
    return False


def canaries(res, traces, pool, tmp, limit=60):
    """Corrupted copies of real traces must be rejected by BitsObjTrace."""
    can = []
    kinds = 0
    for t in traces:
        if len(can) >= limit:
            break
        evs = t["ev"]
        for j in range(len(evs) - 1, -1, -1):
            e = evs[j]
            if _maybe_open(e):
                continue
            k = e["out"]["k"]
            mode = len(can) % 5
            c = None
            if mode == 0 and k in ("ok", "int", "bool"):          # one flipped result bit
                c = copy.deepcopy(t)
                c["ev"] = c["ev"][:j + 1]
                c["ev"][j]["out"]["d"][0] ^= 1
            elif mode == 1 and k == "ok" and e["out"]["w"] < 1023 and e["op"] != "divmod":   # wrong result width
                c = copy.deepcopy(t)
                c["ev"] = c["ev"][:j + 1]
                o = c["ev"][j]["out"]
                o["w"] += 1
                o["d"] = limbs(unlimbs(o["d"]), nl(o["w"]))
            elif mode == 2 and k == "err" and e["op"] in BINOPS and e["args"][1].get("k") == "int":
                c = copy.deepcopy(t)                              # an error swallowed (silent truncation)
                c["ev"] = c["ev"][:j + 1]
                w = e["post"]["w"] if e["args"][0].get("k") == "self" else e["args"][0]["w"]
                c["ev"][j]["out"] = out_ok(1 if e["op"] in ("eq", "ne", "lt", "le", "gt", "ge") else w, 0)
            elif mode == 3 and k in ("ok", "unit", "int", "bool"):                   # state silently changed
                c = copy.deepcopy(t)
                c["ev"] = c["ev"][:j + 1]
                c["ev"][j]["post"]["d"][-1] ^= 1
                if "heap" in c["ev"][j]:
                    c["ev"][j]["heap"][0]["d"][-1] ^= 1
            elif mode == 4 and k == "ok" and e["op"] not in ("divmod",):            # a result replaced by an exception
                c = copy.deepcopy(t)
                c["ev"] = c["ev"][:j + 1]
                c["ev"][j]["out"] = {"k": "err", "neg": False, "w": 1, "d": [0], "c": "ValueError"}
            if c is not None:
                can.append(c)
                kinds |= 1 << mode
                break
    if not can:
        raise MachineryError("no canary traces could be built")
    _, verdicts = _validate_once(can, pool, tmp, coverage_first=False)
    acc = [i for i, v in enumerate(verdicts) if v[0] == "ok"]
    if acc:
        raise MachineryError("canary traces accepted by BitsObjTrace: %s e.g. %s" % (acc[:5], can[acc[0]]["ev"][-1]))
    res.count("canaries_rejected", len(can))
    return len(can)


# --------------------------------------------------------------------------------------
# BV self check
# --------------------------------------------------------------------------------------

def bv_selfcheck_jobs(tier):
    wmax = 5 if tier == "quick" else 6
    jobs = []
    for lb in (2, 3, 15):
        if tier == "quick":
            jobs.append((lb, 1, wmax, 4, ()))
        else:
            jobs.append((lb, 1, wmax - 1, 4, ()))
            jobs.append((lb, wmax, wmax, 4, ()))
    jobs.append((2, 1, 0, 0, (7, 13)))
    jobs.append((3, 1, 0, 0, (7, 13, 20)))
    jobs.append((15, 1, 0, 0, (16, 31, 45, 64)))
    jobs.append((15, 1, 0, 0, (255,)))
    jobs.append((15, 1, 0, 0, (1023,)))
    return jobs


def _bv_job(job):
    lb, wmin, w, wq, wide = job
    cfg = ("SPECIFICATION Spec\nCONSTANTS LB = %d\n WMin = %d\n W = %d\n WQ = %d\n Wide = {%s}\n"
           "INVARIANT AllAgree\nCHECK_DEADLOCK FALSE\n" % (lb, wmin, w, wq, ",".join(map(str, wide))))
    return tlc.run("BVSelfCheck", cfg_text=cfg, workers=1, timeout=3600, heap="4g")


def bv_selfcheck_submit(tier, pool):
    return [(j, pool.submit(_bv_job, j)) for j in bv_selfcheck_jobs(tier)]


def bv_selfcheck_collect(res, futs):
    total = 0
    for job, fu in futs:
        r = fu.result()
        res.add_tlc(r)
        if r.violated or r.errors or not r.ok:
            raise MachineryError("BV.tla self check failed (LB=%d, widths %d..%d, wide %s): the limb library "
                                 "disagrees with its definition on the naturals\n%s"
                                 % (job[0], job[1], job[2], job[4], r.out[-3000:]))
        njobs = (max(0, job[2] - job[1] + 1)) + len(job[4])
        got = [p for p in r.prints if p and p[0] == "R"]
        if len(got) != njobs:
            raise MachineryError("BV self check: %d of %d jobs reported (LB=%d)\n%s" % (len(got), njobs, job[0], r.out[-2000:]))
        total += sum(p[3] for p in got)
    res.note("bv_selfcheck_named_checks", total)
    res.note("bv_selfcheck", "every BV operator == its definition on naturals for all operands of widths 1..%d "
             "with limb sizes 2, 3 and 15 bits; algebraic identities at widths up to 1023" %
             max(j[2] for j, _ in futs))


def new_pool():
    return ThreadPoolExecutor(max_workers=min(os.cpu_count() or 4, 16))


# --------------------------------------------------------------------------------------
# boundary-biased operand generators (all randomness from common.rng)
# --------------------------------------------------------------------------------------

def gen_value(R, w):
    """a value in [0, 2^w), biased to the boundaries and to limb / word edges"""
    top = (1 << w) - 1
    c = R.random()
    if c < 0.30:
        v = R.choice([0, 1, top, top - 1, 1 << (w - 1), (1 << (w - 1)) - 1, (1 << (w - 1)) + 1, 2, 3])
    elif c < 0.45:
        k = R.choice([15, 16, 30, 31, 32, 45, 63, 64, 128, 256, 512, w // 2, w - 2, w - 1])
        v = (1 << max(0, min(k, w - 1))) + R.choice([-1, 0, 1])
    elif c < 0.60:
        v = 0
        for _ in range(R.randint(1, 4)):
            v |= 1 << R.randrange(w)
        if R.random() < 0.5:
            v = top ^ v
    elif c < 0.70:
        v = int("01" * 512, 2) >> R.randrange(2) if R.random() < 0.5 else int("0011" * 256, 2) >> R.randrange(4)
    elif c < 0.80:
        v = R.getrandbits(R.randint(1, w))
    else:
        v = R.getrandbits(w)
    return v & top


def gen_bits(R, w):
    return enc_bits(w, gen_value(R, w))


def other_width(R, w):
    while True:
        o = R.choice([w - 1, w + 1, 1, 2, 1023, w // 2, 2 * w, R.choice(WIDTHS), R.randint(1, 1023)])
        if 1 <= o <= 1023 and o != w:
            return o


def gen_int_operand(R, w):
    """int operand of a binary operator: mostly inside [0, 2^w), sometimes just outside / negative"""
    c = R.random()
    if c < 0.70:
        return gen_value(R, w)
    if c < 0.85:
        return R.choice([-1, -2, 1 << w, (1 << w) + 1, -(1 << w), -(1 << (w - 1)), -((1 << w) - 1), 1 << (w + 1)])
    if c < 0.93:
        return -gen_value(R, w) - 1
    return (1 << w) + R.getrandbits(R.randint(1, w + 40))


def gen_assign_int(R, w):
    """int for constructor / @= / <<=: around both ends of -2^(w-1) .. 2^w-1"""
    lo, hi = -(1 << (w - 1)), (1 << w) - 1
    c = R.random()
    if c < 0.35:
        return R.choice([lo, lo - 1, lo + 1, hi, hi + 1, hi - 1, -1, 0, 1, -2, lo - 2, hi + 2, 2 * lo, 2 * hi + 1])
    if c < 0.65:
        return gen_value(R, w)
    if c < 0.85:
        return -R.getrandbits(R.randint(1, w)) if w > 1 else -R.randint(0, 2)
    return R.choice([-1, 1]) * R.getrandbits(w + R.randint(1, 70))


def gen_shift_amount(R, w):
    c = R.random()
    if c < 0.55:
        return R.choice([0, 1, 2, w - 1, w, w + 1, w // 2, 14, 15, 16, 30, 31, 32, 63, 64, 65, max(0, w - 2)])
    if c < 0.8:
        return R.randrange(w + 3)
    return gen_value(R, w)


def gen_index(R, w):
    c = R.random()
    if c < 0.5:
        return R.choice([-2, -1, 0, 1, w - 2, w - 1, w, w + 1, w + 2, 14, 15, 16, 29, 30, 31, 32, w // 2])
    if c < 0.9:
        return R.randrange(w)
    return R.choice([-1, 1]) * R.randint(w, 1 << 20)


def gen_bounds(R, w):
    """(lo, hi) in (Int u {None})^2: mostly valid, with every kind of invalid pair"""
    c = R.random()
    if c < 0.55:
        lo = R.choice([0, 0, R.randrange(w), R.choice([14, 15, 16, 30, 31, 32]) % w])
        hi = R.choice([w, R.randint(lo + 1, w), min(w, lo + R.choice([1, 2, 15, 16, 17, 32, 64]))])
        lo = None if lo == 0 and R.random() < 0.3 else lo
        hi = None if hi == w and R.random() < 0.3 else hi
        return lo, hi
    if c < 0.75:
        return R.choice([None, 0, 1, w - 1, w, -1, w + 1]), R.choice([None, 0, 1, w - 1, w, w + 1, -1, 0])
    a, b = gen_index(R, w), gen_index(R, w)
    return a, b
