"""Subprocess side of the C13 check: translate ONE design in a fresh interpreter.

  python c13_worker.py <design.py> <out.json> <order> <alone 0|1> <repeat 0|1>

The interpreter is started by props/c13.py with PYTHONHASHSEED=<seed>, PYTHONPATH=$VERIF_REPO and
cwd = a private scratch directory (the translation passes write into cwd).  <design.py> defines
`build()` returning a fresh, un-elaborated top component (and may import sibling files of its
directory).  <order> is "sy" or "ys": which back end is run first in this process.

Output (JSON):
  results  {backend: {ok, text | error, top_module}}       whole design translated from its top
  repeat   {backend: {...}}                                 the same again in the same process
  insts    [{path, parent, iname, cls_ix, cls_name, cls_qual, cls_file, args,
             alone: {backend: {ok, top_module, text | error}}}]
           one entry per component of the hierarchy: that component translated ALONE, i.e. a
           freshly built design in which only that component carries
           `<Pass>.enable` (the documented way to translate a sub-component).
"""
import importlib.util
import json
import os
import sys
import traceback


def _passes():
    from pymtl3.passes.backends.verilog import VerilogTranslationPass
    from pymtl3.passes.backends.yosys import YosysTranslationPass
    return {"sv": VerilogTranslationPass, "yosys": YosysTranslationPass}


def _components(top):
    out = []

    def rec(m):
        out.append(m)
        for c in m.get_child_components(repr):
            rec(c)
    rec(top)
    return out


def _params(c):
    """Effective construct() arguments of a component: [name, type name, repr, str] (harness-side
    diagnosis only: used to name the mechanism of an aliasing pair)."""
    import inspect
    try:
        ba = inspect.signature(c.construct).bind(*c._dsl.args, **c._dsl.kwargs)
        ba.apply_defaults()
        items = list(ba.arguments.items())
    except Exception:
        items = [("arg%d" % i, a) for i, a in enumerate(c._dsl.args)] + sorted(c._dsl.kwargs.items())
    out = []
    for k, v in items:
        try:
            sv = v.__name__ if isinstance(v, type) else str(v)
        except Exception:
            sv = "?"
        tn = type(v).__name__
        try:
            from pymtl3.datatypes import is_bitstruct_class
            if isinstance(v, type) and is_bitstruct_class(v):
                tn = "bitstruct-class"
        except Exception:
            pass
        out.append([k, tn, repr(v)[:200], sv[:200]])
    return out


PREPARE = [None]        # the design module's prepare(top) hook (metadata, placeholder pass), if it defines one


def _translate(build, P, index=0):
    """Fresh build; enable translation on the index-th component only; return result dict."""
    try:
        top = build()
        top.elaborate()
        if PREPARE[0]:
            PREPARE[0](top)
        c = _components(top)[index]
        c.set_metadata(P.enable, True)
        top.apply(P())
        fn = c.get_metadata(P.translated_filename)
        with open(fn) as f:
            text = f.read()
        os.remove(fn)
        return {"ok": True, "text": text, "top_module": c.get_metadata(P.translated_top_module),
                "filename": fn}
    except BaseException as e:      # noqa: BLE001 - every failure is an observation
        if isinstance(e, (KeyboardInterrupt, SystemExit)):
            raise
        return {"ok": False, "error": type(e).__name__, "msg": str(e)[:400],
                "tb": traceback.format_exc()[-1500:]}


def main():
    design, outp, order, alone, repeat = sys.argv[1:6]
    ddir = os.path.dirname(os.path.abspath(design))
    sys.path.insert(0, ddir)
    name = os.path.splitext(os.path.basename(design))[0]
    spec = importlib.util.spec_from_file_location(name, design)
    mod = importlib.util.module_from_spec(spec)
    sys.modules[name] = mod
    spec.loader.exec_module(mod)
    build = mod.build
    PREPARE[0] = getattr(mod, "prepare", None)
    PS = _passes()
    order = ["sv", "yosys"] if order == "sy" else ["yosys", "sv"]
    out = {"results": {}, "repeat": {}, "insts": [], "hashseed": os.environ.get("PYTHONHASHSEED")}
    for b in order:
        out["results"][b] = _translate(build, PS[b])
    if repeat == "1":
        for b in order:
            out["repeat"][b] = _translate(build, PS[b])
    if alone == "1":
        try:
            top = build()
            top.elaborate()
            comps = _components(top)
        except BaseException as e:      # noqa: BLE001
            comps = []
            out["build_error"] = type(e).__name__ + ": " + str(e)[:300]
        cls_ix = {}
        for i, c in enumerate(comps):
            par = c.get_parent_object() if i else None
            path = repr(c)
            rel = path[len(repr(par)) + 1:] if par is not None else ""
            iname = rel.replace("][", "__").replace("[", "__").replace("]", "")
            cls = type(c)
            try:
                import inspect
                cfile = inspect.getsourcefile(cls)
                cline = inspect.getsourcelines(cls)[1]
            except Exception:
                cfile, cline = None, None
            ent = {"path": path, "parent": repr(par) if par is not None else "", "iname": iname,
                   "cls_ix": cls_ix.setdefault(id(cls), len(cls_ix)), "cls_name": cls.__name__,
                   "cls_qual": cls.__module__ + "." + cls.__qualname__, "cls_file": cfile,
                   "cls_line": cline,
                   "params": _params(c), "alone": {}}
            for b in order:
                ent["alone"][b] = _translate(build, PS[b], i)
            out["insts"].append(ent)
    import time
    out["cpu_s"] = round(time.process_time(), 2)
    with open(outp, "w") as f:
        json.dump(out, f)


if __name__ == "__main__":
    main()
