"""Simulation workers for C20: run one TinyRV0 program on ProcFL / ProcCL / ProcRTL inside the
tutorial TestHarness, or a batch of word vectors through the checksum FL / CL / RTL models.

The stock TestSinkCL wants the expected messages in advance.  Here it gets an endless list of
placeholders and a recording cmp_fn, so no expectation of any kind reaches the simulation; the run
stops when the sentinel word arrives at the sink (plus a number of extra cycles during which nothing
more may arrive and no store may land).

All functions are top-level and take/return plain picklable data (multiprocessing).
"""
import struct
import traceback

LEVELS = ("FL", "CL", "RTL")


class _Endless(list):
    """Expected-message list of the sink: never exhausted, never compared (cmp_fn ignores it)."""

    def __len__(self):
        return 1 << 60

    def __getitem__(self, i):
        return None


def _proc_cls(level):
    if level == "FL":
        from examples.ex03_proc.ProcFL import ProcFL
        return ProcFL
    if level == "CL":
        from examples.ex03_proc.ProcCL import ProcCL
        return ProcCL
    from examples.ex03_proc.ProcRTL import ProcRTL
    return ProcRTL


def cycle_budget(steps, cfg):
    src, sink, stall, lat = cfg
    per = 8 + 2 * lat + src + sink
    if stall:
        per = int(per / (1.0 - stall)) + 4
    return 3000 + steps * per * 3


def run_proc(task):
    """task = (key, asm, data_words, inq_words, level, cfg, sentinel, steps)
    cfg = (src_delay, sink_delay, mem_stall_prob, mem_latency).
    Returns (key, obs) with obs = {st, out: [int], mem: [[int]], cycles, exc}."""
    key, asm, data, inq, level, cfg, sentinel, steps = task
    out = []
    obs = {"st": "ok", "out": out, "mem": [], "cycles": 0, "exc": ""}
    try:
        from pymtl3 import DefaultPassGroup
        from examples.ex03_proc.test.harness import TestHarness
        import c20_gen
        prog = c20_gen.Program("p", [], data, inq)
        prog.asm = lambda: asm
        img, secs = c20_gen.assemble_program(prog)
        src, sink, stall, lat = cfg
        th = TestHarness(_proc_cls(level), src_delay=src, sink_delay=sink, mem_stall_prob=stall, mem_latency=lat)
        th.elaborate()
        th.load(img)
        th.sink.msgs = _Endless()

        def record(msg, _ref):
            out.append(int(msg))
            return True

        th.sink.cmp_fn = record
        th.apply(DefaultPassGroup(linetrace=False))
        th.sim_reset()
        limit = cycle_budget(steps, cfg)
        n = 0
        while n < limit and not (out and out[-1] == sentinel):
            th.sim_tick()
            n += 1
        if not (out and out[-1] == sentinel):
            obs["st"] = "timeout"
        else:
            for _ in range(40 + 6 * (src + sink + lat) + (30 if stall else 0)):
                th.sim_tick()
                n += 1
        obs["cycles"] = n
        for (name, addr, words) in secs:
            raw = bytes(th.mem.read_mem(addr, 4 * len(words)))
            obs["mem"].append([w[0] for w in struct.iter_unpack("<I", raw)])
    except Exception:
        obs["st"] = "exception"
        obs["exc"] = traceback.format_exc()[-1500:]
    return key, obs


# ---------------------------------------------------------------------------------------------
# checksum
# ---------------------------------------------------------------------------------------------

def _cksum_harness(dut_cls, msgs, src_delay, sink_delay):
    from pymtl3 import Bits32, Bits128, Component
    from pymtl3.stdlib.connects import connect_pairs
    from pymtl3.stdlib.test_utils import TestSinkCL, TestSrcCL

    class CksumHarness(Component):
        def construct(s):
            s.src = TestSrcCL(Bits128, msgs, src_delay, src_delay)
            s.dut = dut_cls()
            s.sink = TestSinkCL(Bits32, [], sink_delay, sink_delay)
            connect_pairs(s.src.send, s.dut.recv, s.dut.send, s.sink.recv)

    return CksumHarness()


def run_cksum(task):
    """task = (key, level, vectors, src_delay, sink_delay); vectors: list of 8-lists of 16-bit ints.
    Returns (key, {st, res: [int], exc})."""
    key, level, vectors, src_delay, sink_delay = task
    res = []
    obs = {"st": "ok", "res": res, "exc": ""}
    try:
        from pymtl3 import DefaultPassGroup, b16
        from examples.ex02_cksum.ChecksumFL import checksum
        from examples.ex02_cksum.utils import words_to_b128
        if level == "FL":
            for v in vectors:
                res.append(int(checksum([b16(w) for w in v])))
            return key, obs
        if level == "CL":
            from examples.ex02_cksum.ChecksumCL import ChecksumCL as cls
        else:
            from examples.ex02_cksum.ChecksumRTL import ChecksumRTL as cls
        msgs = [words_to_b128([b16(w) for w in v]) for v in vectors]
        th = _cksum_harness(cls, msgs, src_delay, sink_delay)
        th.elaborate()
        th.sink.msgs = _Endless()

        def record(msg, _ref):
            res.append(int(msg))
            return True

        th.sink.cmp_fn = record
        th.apply(DefaultPassGroup(linetrace=False))
        th.sim_reset()
        limit = 200 + len(vectors) * (4 + src_delay + sink_delay) * 3
        n = 0
        while n < limit and len(res) < len(vectors):
            th.sim_tick()
            n += 1
        if len(res) < len(vectors):
            obs["st"] = "timeout"
        else:
            for _ in range(10 + 2 * (src_delay + sink_delay)):
                th.sim_tick()
    except Exception:
        obs["st"] = "exception"
        obs["exc"] = traceback.format_exc()[-1500:]
    return key, obs
