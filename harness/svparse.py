"""Recursive-descent parser for the SystemVerilog / plain-Verilog subset the pymtl3 back ends emit.

Independent of pymtl3 (nothing is imported from the repository).  The result is a JSON-able AST that
`svelab.py` flattens and `spec/SVSem.tla` interprets.

  parse(text) -> {"types": {name: {"fields": [{"n", "ty"}]}},
                  "modules": {name: MODULE}, "order": [module names in file order]}
  MODULE  = {"name", "ports": [{"n", "dir", "ty"}], "vars": [{"n", "ty"}],
             "params": [{"n", "ty", "init": PATTERN}], "procs": [PROC], "insts": [INST]}
  TYPE    = {"base": "logic" | <struct name>, "pd": [packed dims, outermost first],
             "ud": [unpacked dims], "sg": bool (signed: `integer`)}
  PROC    = {"k": "comb" | "ff" | "assign", "label", "body": STMT}
  INST    = {"mod", "n", "conns": [{"p", "e"}]}
  STMT    = {"k": "blk", "ss": [STMT]} | {"k": "if", "c", "t", "e"} |
            {"k": "for", "v", "decl": bool, "init", "cond", "step", "body"} |
            {"k": "ba" | "nba", "l": EXPR, "r": EXPR}
  EXPR    = {"k": "num", "w": N (0 = unsized, i.e. 32 bit signed), "b": [bits, LSB first]}
          | {"k": "id", "n"} | {"k": "field", "e", "f"} | {"k": "idx", "e", "i"}
          | {"k": "range", "e", "h", "l"} | {"k": "psel", "e", "b", "w"}
          | {"k": "cat", "es"} | {"k": "rep", "n", "es"} | {"k": "cast", "w", "e"}
          | {"k": "sel", "e": cat / rep, "h", "l"}       select on a concatenation
          | {"k": "un", "op", "e"} | {"k": "bin", "op", "a", "b"} | {"k": "cond", "c", "a", "b"}
  PATTERN = EXPR | {"k": "apat", "es": [PATTERN]}

Two kinds of failure:
  SVSyntaxError   the text is not well-formed SystemVerilog as far as this parser can tell for sure
                  (unbalanced brackets, missing `;`, missing endmodule, reserved word used as a
                  name, stray token) -> the "syntactically valid" clause of C03/C12;
  SVUnsupported   a construct of the language the parser / the semantics does not cover yet
                  (never a verdict about pymtl3; the harness turns it into a MachineryError).
"""
import re


class SVSyntaxError(Exception):
    pass


class SVUnsupported(Exception):
    pass


KEYWORDS = set("""
accept_on alias always always_comb always_ff always_latch and assert assign assume automatic before
begin bind bins binsof bit break buf bufif0 bufif1 byte case casex casez cell chandle checker class
clocking cmos config const constraint context continue cover covergroup coverpoint cross deassign
default defparam design disable dist do edge else end endcase endchecker endclass endclocking
endconfig endfunction endgenerate endgroup endinterface endmodule endpackage endprimitive endprogram
endproperty endspecify endsequence endtable endtask enum event eventually expect export extends
extern final first_match for force foreach forever fork forkjoin function generate genvar global
highz0 highz1 if iff ifnone ignore_bins illegal_bins implements implies import incdir include
initial inout input inside instance int integer interconnect interface intersect join join_any
join_none large let liblist library local localparam logic longint macromodule matches medium
modport module nand negedge nettype new nexttime nmos nor noshowcancelled not notif0 notif1 null or
output package packed parameter pmos posedge primitive priority program property protected pull0
pull1 pulldown pullup pulsestyle_ondetect pulsestyle_onevent pure rand randc randcase randsequence
rcmos real realtime ref reg reject_on release repeat restrict return rnmos rpmos rtran rtranif0
rtranif1 s_always s_eventually s_nexttime s_until s_until_with scalared sequence shortint shortreal
showcancelled signed small soft solve specify specparam static string strong strong0 strong1 struct
super supply0 supply1 sync_accept_on sync_reject_on table tagged task this throughout time
timeprecision timeunit tran tranif0 tranif1 tri tri0 tri1 triand trior trireg type typedef union
unique unique0 unsigned until until_with untyped use uwire var vectored virtual void wait wait_order
wand weak weak0 weak1 while wildcard wire with within wor xnor xor
""".split())

_TOK = re.compile(r"""
    (?P<ws>\s+)
  | (?P<lc>//[^\n]*)
  | (?P<bc>/\*.*?\*/)
  | (?P<dir>`[A-Za-z_]\w*)
  | (?P<num>\d+\s*'\s*[sS]?[bBdDhHoO]\s*[0-9a-fA-F_xXzZ?]+)
  | (?P<ubnum>'[sS]?[bBdDhHoO]\s*[0-9a-fA-F_xXzZ?]+)
  | (?P<int>\d[\d_]*)
  | (?P<id>[A-Za-z_][\w$]*)
  | (?P<op>\*\*|<<<|>>>|<<|>>|<=|>=|===|!==|==|!=|&&|\|\||\+=|-=|\+:|-:|'\{|::|[-+*/%&|^~!<>=?:;,.()\[\]{}@\#'])
""", re.X | re.S)


class Tok:
    __slots__ = ("k", "v", "pos", "line")

    def __init__(self, k, v, pos, line):
        self.k, self.v, self.pos, self.line = k, v, pos, line

    def __repr__(self):
        return "%s(%r)@%d" % (self.k, self.v, self.line)


def tokenize(text):
    """Tokens of `text`.  The conditional-compilation directives the back end emits
    (`ifndef SYNTHESIS ... `endif) are resolved for simulation: SYNTHESIS is not defined."""
    toks = []
    i, n, line = 0, len(text), 1
    skipping = []          # stack of booleans for `ifdef nesting
    while i < n:
        m = _TOK.match(text, i)
        if not m:
            raise SVSyntaxError("line %d: illegal character %r" % (line, text[i]))
        k = m.lastgroup
        v = m.group(k)
        if k == "dir":
            if v in ("`ifndef", "`ifdef"):
                m2 = re.compile(r"\s*([A-Za-z_]\w*)").match(text, m.end())
                if not m2:
                    raise SVSyntaxError("line %d: %s without a macro name" % (line, v))
                defined = False         # no macro is defined in this flow
                skipping.append(defined if v == "`ifndef" else not defined)
                line += text.count("\n", i, m2.end())
                i = m2.end()
                continue
            if v == "`else":
                if not skipping:
                    raise SVSyntaxError("line %d: `else without `ifdef" % line)
                skipping[-1] = not skipping[-1]
            elif v == "`endif":
                if not skipping:
                    raise SVSyntaxError("line %d: `endif without `ifdef" % line)
                skipping.pop()
            else:
                raise SVUnsupported("line %d: compiler directive %s" % (line, v))
        elif k not in ("ws", "lc", "bc") and not any(skipping):
            toks.append(Tok(k, v, i, line))
        line += text.count("\n", i, m.end())
        i = m.end()
    if skipping:
        raise SVSyntaxError("unterminated `ifdef/`ifndef")
    toks.append(Tok("eof", "", n, line))
    return toks


def _bits(value, width):
    return [(value >> i) & 1 for i in range(width)]


def _num_sized(text, line):
    m = re.match(r"(\d+)\s*'\s*([sS]?)([bBdDhHoO])\s*([0-9a-fA-F_xXzZ?]+)$", text)
    w, sg, base, digits = int(m.group(1)), m.group(2), m.group(3).lower(), m.group(4).replace("_", "")
    if w == 0:
        raise SVSyntaxError("line %d: zero-width literal %s" % (line, text))
    if sg:
        raise SVUnsupported("line %d: signed literal %s" % (line, text))
    if re.search(r"[xXzZ?]", digits):
        raise SVUnsupported("line %d: x/z literal %s" % (line, text))
    radix = {"b": 2, "d": 10, "h": 16, "o": 8}[base]
    try:
        v = int(digits, radix)
    except ValueError:
        raise SVSyntaxError("line %d: malformed literal %s" % (line, text))
    # IEEE 1800 5.7.1: a value that does not fit is truncated from the left
    return {"k": "num", "w": w, "b": _bits(v, w), "trunc": v >= (1 << w)}


BINPREC = [  # lowest to highest
    ["||"], ["&&"], ["|"], ["^"], ["&"], ["==", "!="], ["<", "<=", ">", ">="],
    ["<<", ">>"], ["+", "-"], ["*", "/", "%"], ["**"],
]


class Parser:
    def __init__(self, text):
        self.toks = tokenize(text)
        self.i = 0
        self.types = {}
        self.modules = {}
        self.order = []
        self.no_le = False

    # -- token helpers
    @property
    def t(self):
        return self.toks[self.i]

    def peek(self, k=1):
        return self.toks[min(self.i + k, len(self.toks) - 1)]

    def at(self, v):
        return self.t.v == v and self.t.k in ("op", "id")

    def eat(self, v):
        if self.at(v):
            self.i += 1
            return True
        return False

    def expect(self, v):
        if not self.eat(v):
            raise SVSyntaxError("line %d: expected %r, found %r" % (self.t.line, v, self.t.v or "end of file"))

    def ident(self, what="identifier"):
        t = self.t
        if t.k != "id":
            raise SVSyntaxError("line %d: expected %s, found %r" % (t.line, what, t.v or "end of file"))
        if t.v in KEYWORDS:
            raise SVSyntaxError("line %d: reserved word %r used as %s" % (t.line, t.v, what))
        self.i += 1
        return t.v

    # -- top level
    def parse(self):
        while self.t.k != "eof":
            if self.at("typedef"):
                self.typedef()
            elif self.at("module"):
                self.module()
            else:
                raise SVSyntaxError("line %d: unexpected %r at file level" % (self.t.line, self.t.v))
        return {"types": self.types, "modules": self.modules, "order": self.order}

    def const_int(self):
        """A constant dimension bound: plain decimal integer."""
        t = self.t
        if t.k != "int":
            raise SVUnsupported("line %d: non-literal dimension bound %r" % (t.line, t.v))
        self.i += 1
        return int(t.v.replace("_", ""))

    def packed_dims(self):
        dims = []
        while self.at("["):
            self.i += 1
            h = self.const_int()
            self.expect(":")
            l = self.const_int()
            self.expect("]")
            if l != 0:
                raise SVUnsupported("line %d: packed dimension [%d:%d] (only [h:0] is modelled)" % (self.t.line, h, l))
            dims.append(h + 1)
        return dims

    def unpacked_dims(self):
        dims = []
        while self.at("["):
            self.i += 1
            a = self.const_int()
            self.expect(":")
            b = self.const_int()
            self.expect("]")
            if a != 0:
                raise SVUnsupported("line %d: unpacked dimension [%d:%d] (only [0:n] is modelled)" % (self.t.line, a, b))
            dims.append(b + 1)
        return dims

    def data_type(self):
        """logic | wire | reg | wire logic | integer | <typedef name>, followed by packed dims."""
        t = self.t
        if t.k != "id":
            raise SVSyntaxError("line %d: expected a data type, found %r" % (t.line, t.v))
        if t.v in ("logic", "reg", "wire", "bit"):
            self.i += 1
            if t.v == "wire" and self.t.v in ("logic", "reg"):
                self.i += 1
            if self.at("signed"):
                raise SVUnsupported("line %d: signed vector" % t.line)
            return {"base": "logic", "pd": self.packed_dims(), "ud": [], "sg": False}
        if t.v == "integer":
            self.i += 1
            return {"base": "logic", "pd": [32], "ud": [], "sg": True}
        if t.v == "int":
            self.i += 1
            if self.eat("unsigned"):
                return {"base": "logic", "pd": [32], "ud": [], "sg": False}
            return {"base": "logic", "pd": [32], "ud": [], "sg": True}
        if t.v in KEYWORDS:
            raise SVSyntaxError("line %d: expected a data type, found reserved word %r" % (t.line, t.v))
        if t.v not in self.types:
            raise SVSyntaxError("line %d: unknown type name %r" % (t.line, t.v))
        self.i += 1
        return {"base": t.v, "pd": self.packed_dims(), "ud": [], "sg": False}

    def typedef(self):
        self.expect("typedef")
        self.expect("struct")
        self.expect("packed")
        self.expect("{")
        fields = []
        while not self.at("}"):
            ty = self.data_type()
            n = self.ident("field name")
            if self.at("["):
                raise SVSyntaxError("line %d: unpacked dimension on a packed struct member" % self.t.line)
            self.expect(";")
            if any(f["n"] == n for f in fields):
                raise SVSyntaxError("line %d: duplicate struct member %r" % (self.t.line, n))
            fields.append({"n": n, "ty": ty})
        self.expect("}")
        if not fields:
            raise SVSyntaxError("line %d: empty struct" % self.t.line)
        name = self.ident("type name")
        self.expect(";")
        if name in self.types:
            raise SVSyntaxError("line %d: type %r defined twice" % (self.t.line, name))
        self.types[name] = {"fields": fields}

    def module(self):
        self.expect("module")
        name = self.ident("module name")
        if name in self.modules:
            raise SVSyntaxError("line %d: module %r defined twice" % (self.t.line, name))
        m = {"name": name, "ports": [], "vars": [], "params": [], "procs": [], "insts": []}
        names = set()

        def declare(n):
            if n in names:
                raise SVSyntaxError("line %d: %r declared twice in module %s" % (self.t.line, n, name))
            names.add(n)

        if self.at("#"):
            raise SVUnsupported("line %d: parameterised module header" % self.t.line)
        self.expect("(")
        if not self.at(")"):
            while True:
                d = self.t.v
                if d not in ("input", "output"):
                    if d == "inout":
                        raise SVUnsupported("line %d: inout port" % self.t.line)
                    raise SVSyntaxError("line %d: expected a port direction, found %r" % (self.t.line, d))
                self.i += 1
                ty = self.data_type()
                n = self.ident("port name")
                ty["ud"] = self.unpacked_dims()
                declare(n)
                m["ports"].append({"n": n, "dir": "in" if d == "input" else "out", "ty": ty})
                if not self.eat(","):
                    break
        self.expect(")")
        self.expect(";")
        while not self.at("endmodule"):
            if self.t.k == "eof":
                raise SVSyntaxError("module %s: missing endmodule" % name)
            self.item(m, declare)
        self.expect("endmodule")
        self.modules[name] = m
        self.order.append(name)

    def item(self, m, declare):
        t = self.t
        if t.k != "id":
            raise SVSyntaxError("line %d: unexpected %r in module body" % (t.line, t.v))
        v = t.v
        if v == "localparam" or v == "parameter":
            self.i += 1
            ty = self.data_type()
            n = self.ident("parameter name")
            ty["ud"] = self.unpacked_dims()
            self.expect("=")
            init = self.pattern()
            self.expect(";")
            declare(n)
            m["params"].append({"n": n, "ty": ty, "init": init})
        elif v == "assign":
            self.i += 1
            l = self.lvalue()
            self.expect("=")
            r = self.expr()
            self.expect(";")
            m["procs"].append({"k": "assign", "label": "", "body": {"k": "ba", "l": l, "r": r}})
        elif v == "always_comb":
            self.i += 1
            body = self.stmt()
            m["procs"].append({"k": "comb", "label": self._label(body), "body": body})
        elif v == "always_ff":
            self.i += 1
            self.edge()
            body = self.stmt()
            m["procs"].append({"k": "ff", "label": self._label(body), "body": body})
        elif v == "always":
            self.i += 1
            if not self.at("@"):
                raise SVSyntaxError("line %d: always without event control" % self.t.line)
            if self.peek(1).v == "*":
                self.i += 2
                kind = "comb"
            elif self.peek(1).v == "(" and self.peek(2).v == "*":
                self.i += 3
                self.expect(")")
                kind = "comb"
            else:
                self.edge()
                kind = "ff"
            body = self.stmt()
            m["procs"].append({"k": kind, "label": self._label(body), "body": body})
        elif v in ("logic", "reg", "wire", "integer", "bit", "int") or v in self.types:
            ty = self.data_type()
            while True:
                n = self.ident("variable name")
                ty1 = dict(ty)
                ty1["ud"] = self.unpacked_dims()
                if self.at("="):
                    raise SVUnsupported("line %d: variable initialiser" % self.t.line)
                declare(n)
                m["vars"].append({"n": n, "ty": ty1})
                if not self.eat(","):
                    break
            self.expect(";")
        elif v in ("initial", "generate", "genvar", "function", "task", "case", "always_latch", "final",
                   "import", "defparam", "specify", "assert"):
            raise SVUnsupported("line %d: module item %r" % (t.line, v))
        elif v in KEYWORDS:
            raise SVSyntaxError("line %d: unexpected reserved word %r in module body" % (t.line, v))
        else:
            # instantiation:  ModName instName ( .p( e ), ... );
            self.i += 1
            if self.at("#"):
                raise SVUnsupported("line %d: parameterised instantiation" % self.t.line)
            iname = self.ident("instance name")
            declare(iname)
            self.expect("(")
            conns = []
            seen = set()
            if not self.at(")"):
                while True:
                    self.expect(".")
                    p = self.ident("port name")
                    if p in seen:
                        raise SVSyntaxError("line %d: port %r connected twice" % (self.t.line, p))
                    seen.add(p)
                    self.expect("(")
                    if self.at(")"):
                        raise SVUnsupported("line %d: unconnected port .%s()" % (self.t.line, p))
                    e = self.expr()
                    self.expect(")")
                    conns.append({"p": p, "e": e})
                    if not self.eat(","):
                        break
            self.expect(")")
            self.expect(";")
            m["insts"].append({"mod": v, "n": iname, "conns": conns, "line": t.line})

    def _label(self, body):
        return body.get("label", "") if isinstance(body, dict) else ""

    def edge(self):
        self.expect("@")
        self.expect("(")
        if not self.eat("posedge"):
            raise SVUnsupported("line %d: event control other than posedge" % self.t.line)
        n = self.ident("clock")
        if n != "clk":
            raise SVUnsupported("line %d: clock %r (only clk is modelled)" % (self.t.line, n))
        self.expect(")")

    # -- statements
    def stmt(self):
        t = self.t
        if self.at("begin"):
            self.i += 1
            label = ""
            if self.eat(":"):
                label = self.ident("block label")
            ss = []
            while not self.at("end"):
                if self.t.k == "eof":
                    raise SVSyntaxError("line %d: begin without end" % t.line)
                ss.append(self.stmt())
            self.expect("end")
            if self.eat(":"):
                l2 = self.ident("block label")
                if l2 != label:
                    raise SVSyntaxError("line %d: end label %r does not match %r" % (self.t.line, l2, label))
            return {"k": "blk", "ss": ss, "label": label}
        if self.at("if"):
            self.i += 1
            self.expect("(")
            c = self.expr()
            self.expect(")")
            th = self.stmt()
            el = {"k": "blk", "ss": [], "label": ""}
            if self.eat("else"):
                el = self.stmt()
            return {"k": "if", "c": c, "t": th, "e": el}
        if self.at("for"):
            self.i += 1
            self.expect("(")
            decl = False
            if self.at("int"):
                self.i += 1
                if not self.eat("unsigned"):
                    raise SVUnsupported("line %d: signed loop variable `int`" % self.t.line)
                decl = True
            elif self.at("integer") or self.at("genvar"):
                raise SVUnsupported("line %d: loop variable declared as %s in the header" % (self.t.line, self.t.v))
            v = self.ident("loop variable")
            self.expect("=")
            init = self.expr()
            self.expect(";")
            cond = self.expr()
            self.expect(";")
            v2 = self.ident("loop variable")
            if v2 != v:
                raise SVUnsupported("line %d: loop step assigns %r, not the loop variable %r" % (self.t.line, v2, v))
            if self.eat("+="):
                step = {"k": "bin", "op": "+", "a": {"k": "id", "n": v}, "b": self.expr()}
            elif self.eat("-="):
                step = {"k": "bin", "op": "-", "a": {"k": "id", "n": v}, "b": self.expr()}
            elif self.eat("="):
                step = self.expr()
            else:
                raise SVSyntaxError("line %d: malformed for-step at %r" % (self.t.line, self.t.v))
            self.expect(")")
            body = self.stmt()
            return {"k": "for", "v": v, "decl": decl, "init": init, "cond": cond, "step": step, "body": body}
        if t.k == "id" and t.v in ("case", "casez", "casex", "while", "repeat", "forever", "unique", "priority",
                                   "return", "break", "continue", "do", "foreach", "assert"):
            raise SVUnsupported("line %d: statement %r" % (t.line, t.v))
        if self.at(";"):
            self.i += 1
            return {"k": "blk", "ss": [], "label": ""}
        l = self.lvalue()
        if self.eat("="):
            k = "ba"
        elif self.eat("<="):
            k = "nba"
        else:
            raise SVSyntaxError("line %d: expected = or <= after assignment target, found %r" % (self.t.line, self.t.v))
        r = self.expr()
        self.expect(";")
        return {"k": k, "l": l, "r": r}

    def lvalue(self):
        if self.at("{"):
            raise SVUnsupported("line %d: concatenation as assignment target" % self.t.line)
        n = self.ident("assignment target")
        return self.selects({"k": "id", "n": n})

    # -- expressions
    def pattern(self):
        if self.at("'{"):
            self.i += 1
            es = [self.pattern()]
            while self.eat(","):
                es.append(self.pattern())
            self.expect("}")
            return {"k": "apat", "es": es}
        return self.expr()

    def expr(self):
        c = self.binary(0)
        if self.eat("?"):
            a = self.expr()
            self.expect(":")
            b = self.expr()
            return {"k": "cond", "c": c, "a": a, "b": b}
        return c

    def binary(self, lvl):
        if lvl == len(BINPREC):
            return self.unary()
        ops = BINPREC[lvl]
        if ops == ["**"]:
            a = self.unary()
            while self.t.k == "op" and self.t.v == "**":
                self.i += 1
                b = self.unary()
                a = {"k": "bin", "op": "**", "a": a, "b": b}
            return a
        a = self.binary(lvl + 1)
        while self.t.k == "op" and self.t.v in ops:
            op = self.t.v
            self.i += 1
            b = self.binary(lvl + 1)
            a = {"k": "bin", "op": op, "a": a, "b": b}
        if self.t.k == "op" and self.t.v in ("<<<", ">>>", "===", "!=="):
            raise SVUnsupported("line %d: operator %s" % (self.t.line, self.t.v))
        return a

    def unary(self):
        t = self.t
        if t.k == "op" and t.v in ("~", "-", "+", "!", "&", "|", "^"):
            self.i += 1
            if t.v in ("~", "&", "|", "^") and self.t.k == "op" and self.t.v in ("&", "|", "^", "~") and \
               (t.v + self.t.v) in ("~&", "~|", "~^", "^~") and self.t.pos == t.pos + 1:
                # ~& ~| ~^ ^~ reductions (one token only when written without a space, 11.4.9 / 5.5)
                raise SVUnsupported("line %d: operator %s%s" % (t.line, t.v, self.t.v))
            e = self.unary()
            op = t.v
            if op in ("&", "|", "^"):
                op = "r" + op
            return {"k": "un", "op": op, "e": e}
        return self.primary()

    def primary(self):
        t = self.t
        if t.k == "num":
            self.i += 1
            e = _num_sized(t.v, t.line)
            if self.at("'"):
                raise SVUnsupported("line %d: cast with a based-literal size" % t.line)
            return e
        if t.k == "ubnum":
            raise SVUnsupported("line %d: unsized based literal %s" % (t.line, t.v))
        if t.k == "int":
            self.i += 1
            v = int(t.v.replace("_", ""))
            if self.at("'"):
                # size cast  N'( e )
                self.i += 1
                self.expect("(")
                e = self.expr()
                self.expect(")")
                if v == 0:
                    raise SVSyntaxError("line %d: cast to zero width" % t.line)
                return self.no_selects({"k": "cast", "w": v, "e": e})
            if v >= (1 << 31):
                raise SVUnsupported("line %d: unsized literal %d does not fit 32 bits" % (t.line, v))
            return {"k": "num", "w": 0, "b": _bits(v, 32), "trunc": False}
        if t.k == "op" and t.v == "(":
            self.i += 1
            e = self.expr()
            self.expect(")")
            if self.at("'"):
                raise SVUnsupported("line %d: cast with an expression size" % t.line)
            return self.no_selects(e)
        if t.k == "op" and t.v == "{":
            self.i += 1
            first = self.expr()
            if self.at("{"):
                # replication { n { a, b } }
                self.i += 1
                es = [self.expr()]
                while self.eat(","):
                    es.append(self.expr())
                self.expect("}")
                self.expect("}")
                e = {"k": "rep", "n": first, "es": es}
            else:
                es = [first]
                while self.eat(","):
                    es.append(self.expr())
                self.expect("}")
                e = {"k": "cat", "es": es}
            if self.at("["):
                # 1800-2017 A.8.4: concatenation [ [ range_expression ] ]
                self.i += 1
                a = self.expr()
                if self.eat(":"):
                    b = self.expr()
                elif self.at("+:") or self.at("-:"):
                    raise SVUnsupported("line %d: indexed part select on a concatenation" % self.t.line)
                else:
                    b = a
                self.expect("]")
                e = {"k": "sel", "e": e, "h": a, "l": b}
                if self.at("[") or self.at("."):
                    raise SVSyntaxError("line %d: second select on a concatenation" % self.t.line)
            return e
        if t.k == "op" and t.v == "'{":
            raise SVUnsupported("line %d: assignment pattern inside an expression" % t.line)
        if t.k == "id":
            if t.v in KEYWORDS:
                raise SVSyntaxError("line %d: reserved word %r in an expression" % (t.line, t.v))
            self.i += 1
            if self.at("("):
                raise SVUnsupported("line %d: function call %s(...)" % (t.line, t.v))
            if self.at("'"):
                raise SVUnsupported("line %d: type cast %s'(...)" % (t.line, t.v))
            if self.at("::"):
                raise SVUnsupported("line %d: scope operator" % t.line)
            return self.selects({"k": "id", "n": t.v})
        if t.k == "id" or t.k == "op" and t.v == "$":
            raise SVUnsupported("line %d: %r" % (t.line, t.v))
        raise SVSyntaxError("line %d: expected an expression, found %r" % (t.line, t.v or "end of file"))

    def no_selects(self, e):
        if self.at("[") or self.at("."):
            raise SVSyntaxError("line %d: select applied to a parenthesised expression or cast" % self.t.line)
        return e

    def selects(self, e):
        while True:
            if self.at("."):
                self.i += 1
                f = self.ident("member name")
                e = {"k": "field", "e": e, "f": f}
            elif self.at("["):
                self.i += 1
                a = self.expr()
                if self.eat(":"):
                    b = self.expr()
                    self.expect("]")
                    e = {"k": "range", "e": e, "h": a, "l": b}
                elif self.eat("+:"):
                    w = self.expr()
                    self.expect("]")
                    e = {"k": "psel", "e": e, "b": a, "w": w}
                elif self.at("-:"):
                    raise SVUnsupported("line %d: indexed part select -:" % self.t.line)
                else:
                    self.expect("]")
                    e = {"k": "idx", "e": e, "i": a}
            else:
                return e


def parse(text):
    return Parser(text).parse()


def check_names(ast):
    """Static name resolution (part of 'syntactically valid' in the wide sense a compiler front end
    enforces): every identifier used in a module is declared there, every instantiated module is
    defined with the connected ports."""
    for mn in ast["order"]:
        m = ast["modules"][mn]
        declared = {p["n"] for p in m["ports"]} | {v["n"] for v in m["vars"]} | {p["n"] for p in m["params"]}
        insts = {it["n"]: it["mod"] for it in m["insts"]}
        vtypes = {x["n"]: x["ty"] for x in m["ports"] + m["vars"] + m["params"]}

        def stype(e, local):
            """static type (base, #packed dims, #unpacked dims) of a reference, None if not known here"""
            k = e["k"]
            if k == "id":
                if e["n"] in local or e["n"] not in vtypes:
                    return None
                t = vtypes[e["n"]]
                return (t["base"], len(t["pd"]), len(t["ud"]))
            if k not in ("idx", "field", "range", "psel"):
                return None
            t = stype(e["e"], local)
            if t is None:
                return None
            base, npd, nud = t
            if k == "field":
                if base == "logic" or npd or nud:
                    raise SVSyntaxError("module %s: member select .%s on an expression that is not of struct type"
                                        % (mn, e["f"]))
                fs = {f["n"]: f["ty"] for f in ast["types"][base]["fields"]}
                if e["f"] not in fs:
                    raise SVSyntaxError("module %s: struct %s has no member %s" % (mn, base, e["f"]))
                ft = fs[e["f"]]
                return (ft["base"], len(ft["pd"]), 0)
            if k == "idx":
                if nud:
                    return (base, npd, nud - 1)
                if npd:
                    return (base, npd - 1, 0)
                if base == "logic":
                    raise SVSyntaxError("module %s: bit select on a scalar" % mn)
                return None          # bit select of a packed struct
            if nud:
                raise SVUnsupported("module %s: slice of an unpacked array" % mn)
            return (base, npd, 0) if npd else None

        def walk_e(e, local):
            k = e["k"]
            if k == "field" and e["e"]["k"] == "id" and e["e"]["n"] in insts and e["e"]["n"] not in local \
                    and e["e"]["n"] not in declared:
                # hierarchical reference to a signal of a child instance (23.6)
                sub = ast["modules"].get(insts[e["e"]["n"]])
                if sub is None:
                    raise SVSyntaxError("module %s: instance %s of undefined module" % (mn, e["e"]["n"]))
                names = {p["n"] for p in sub["ports"]} | {v["n"] for v in sub["vars"]} | {p["n"] for p in sub["params"]}
                if e["f"] not in names:
                    raise SVSyntaxError("module %s: %s.%s does not exist" % (mn, e["e"]["n"], e["f"]))
                return
            if k in ("field", "idx"):
                stype(e, local)
            if k == "id":
                if e["n"] not in declared and e["n"] not in local:
                    raise SVSyntaxError("module %s: identifier %r is not declared" % (mn, e["n"]))
            elif k == "num":
                pass
            else:
                for key, v in e.items():
                    if isinstance(v, dict):
                        walk_e(v, local)
                    elif isinstance(v, list) and key == "es":
                        for x in v:
                            walk_e(x, local)

        def walk_s(s, local):
            k = s["k"]
            if k == "blk":
                for x in s["ss"]:
                    walk_s(x, local)
            elif k == "if":
                walk_e(s["c"], local)
                walk_s(s["t"], local)
                walk_s(s["e"], local)
            elif k == "for":
                loc = local | {s["v"]} if s["decl"] else local
                if not s["decl"] and s["v"] not in declared:
                    raise SVSyntaxError("module %s: loop variable %r is not declared" % (mn, s["v"]))
                walk_e(s["init"], local)
                walk_e(s["cond"], loc)
                walk_e(s["step"], loc)
                walk_s(s["body"], loc)
            else:
                try:
                    walk_e(s["l"], local)
                    walk_e(s["r"], local)
                except SVSyntaxError as ex:
                    root = s["l"]
                    while root["k"] != "id":
                        root = root["e"]
                    if "[assignment to " in str(ex):
                        raise
                    raise SVSyntaxError("%s [assignment to %s]" % (ex, root["n"]))

        for p in m["procs"]:
            walk_s(p["body"], frozenset())
        for p in m["params"]:
            def walk_p(x):
                if x["k"] == "apat":
                    for y in x["es"]:
                        walk_p(y)
                else:
                    walk_e(x, frozenset())
            walk_p(p["init"])
        for inst in m["insts"]:
            if inst["mod"] not in ast["modules"]:
                raise SVSyntaxError("module %s: instance %s of undefined module %r" % (mn, inst["n"], inst["mod"]))
            sub = ast["modules"][inst["mod"]]
            sp = {p["n"] for p in sub["ports"]}
            for c in inst["conns"]:
                if c["p"] not in sp:
                    raise SVSyntaxError("module %s: instance %s connects unknown port %r of %s"
                                        % (mn, inst["n"], c["p"], inst["mod"]))
                walk_e(c["e"], frozenset())
