"""Regenerate MANIFEST.json from the registry below (only properties whose check module exists are
claimed; the others are listed under not_applicable with the reason)."""
import json
import os

V = os.path.dirname(os.path.dirname(os.path.abspath(__file__)))
PY = "/venv/bin/python"

REG = {
 "C01": ("model_checking", "SimKernel.tla trace validation of every pass group + forced schedules; TLC confluence on the model", "4/C01"),
 "C02": ("model_checking", "SimKernel.tla enabling condition (Ready) checked on every recorded block call", "4/C02"),
 "C03": ("translation_validation", "SVSem.tla executes the emitted SystemVerilog; PyMTL traces validated against it", "4/C03"),
 "C04": ("model_checking", "BitsObj.tla case tables replayed on Bits + logged operation sequences validated by TLC", "4/C04"),
 "C05": ("model_checking", "BitsObj.tla slicing/helper tables replayed + logged calls validated by TLC", "4/C05"),
 "C06": ("model_checking", "BitStruct.tla layout/pack/unpack; TLC-enumerated shapes replayed, logged pack events validated", "4/C06"),
 "C07": ("model_checking", "SimKernel.tla RunFF/Flip; all ff permutations forced, post-state after every ff block validated", "4/C07"),
 "C08": ("model_checking", "Elab.tla nets/writers; every statement permutation and side flip elaborated and compared", "4/C08"),
 "C09": ("model_checking", "Elab.tla defect classes; defect grid classified by TLC and elaborated for real", "4/C09"),
 "C10": ("model_checking", "RTLIRTypes.tla width rules; per-node static/runtime widths validated as traces", "4/C10"),
 "C11": ("model_checking", "SimKernel.tla cyclic groups: Rerun/Stable/Raise rules validated on recorded SCC passes", "4/C11"),
 "C12": ("translation_validation", "SVSem.tla on the Yosys back end output + FlatMap layout clause", "4/C12"),
 "C13": ("exploration", "ModuleTable.tla invariants over parsed output of translations in fresh processes x hash seeds", "4/C13"),
 "C14": ("model_checking", "Names.tla naming function; TLC-enumerated hierarchy shapes built and object tables validated", "4/C14"),
 "C15": ("model_checking", "Replace.tla histories enumerated by TLC, replayed with replace_component, metadata compared", "4/C15"),
 "C16": ("model_checking", "Vcd.tla replay of the parsed VCD / text wave against simulator snapshots (trace validation)", "4/C16"),
 "C17": ("model_checking", "Fifo.tla: every transition of the state graph replayed on every queue class + random histories validated", "4/C17"),
 "C18": ("model_checking", "MagicMem.tla: Send/Process/Deliver histories of the real memories validated by TLC", "4/C18"),
 "C19": ("model_checking", "Arbiter.tla: TLC invariants, every state-graph transition replayed on the real arbiters, exhaustive (ptr,reqs,en) histories validated by ArbiterTrace.tla", "4/C19"),
 "C20": ("model_checking", "TinyRV0.tla / Cksum.tla execute the program; Out sequences and memory image of FL/CL/RTL validated", "4/C20"),
}

NOTES = {}
for f in os.listdir(os.path.join(V, "harness", "props")):
    pass


HOLD = set()


def main():
    checks, na = [], []
    for pid, (lvl, text, ref) in sorted(REG.items()):
        mod = os.path.join(V, "harness", "props", pid.lower() + ".py")
        if pid in HOLD or not os.path.exists(mod) or "\nREADY = True" not in open(mod).read():
            na.append({"property_id": pid, "reason": "check not built yet (planned: %s); see DESIGN.md section %s" % (text, ref)})
            continue
        doc = ""
        src = open(mod).read()
        if src.startswith('"""'):
            doc = src[3:src.index('"""', 3)].strip()
        level_text = doc.split("\n\n")[0].replace("\n", " ") if doc else text
        note = "Trusted base: TLC 1.8.0, the TLA+ specification under spec/ as the statement of the property, " \
               "the Python harness that projects implementation state; bounds are recorded in the evidence file."
        if "NOTE:" in doc:
            note = doc[doc.index("NOTE:") + 5:].strip().replace("\n", " ")
        checks.append({
            "property_id": pid,
            "quick_cmd": "%s harness/check.py %s --tier quick" % (PY, pid),
            "thorough_cmd": "%s harness/check.py %s --tier thorough" % (PY, pid),
            "evidence_file": "/verif/evidence/%s.json" % pid,
            "replay_cmd_template": "%s harness/check.py %s --replay {path}" % (PY, pid),
            "engine": "tlc",
            "level_claimed": {"category": lvl, "text": text + ". " + level_text, "design_ref": "DESIGN.md section " + ref},
            "level_note": note,
            "technique": "TLA+ specification model-checked with TLC, bound to the code by trace validation / state-graph replay",
        })
    m = {
        "version": 1,
        "setup_cmd": "%s harness/setup_check.py" % PY,
        "hooks": {
            "guard": "PYMTL3_VERIF",
            "enable": "export PYMTL3_VERIF=1 (set by harness/common.py; no source hook exists at present: every "
                      "observation uses public API, sys.setprofile or instance-attribute wrapping from the harness)",
            "baseline_off_cmd": "cd /repo && env -u PYMTL3_VERIF /venv/bin/python -m pytest -ra -q -p no:cacheprovider "
                                "--timeout=900 --continue-on-collection-errors",
            "source_commits": [],
            "add_only": True,
        },
        "engines": [{"name": "tlc", "path": "/opt/veriftools/tla/tla2tools.jar",
                     "serves_properties": [c["property_id"] for c in checks],
                     "kind_free_text": "TLC 1.8.0 explicit-state model checker for the TLA+ specs in /verif/spec, "
                                       "driven by /verif/harness/tlc.py"}],
        "checks": checks,
        "not_applicable": na,
        "notes": "All checks: /venv/bin/python harness/check.py <id> --tier quick|thorough. VERIF_REPO overrides the "
                 "tree under test (default /repo); VERIF_SEED seeds every random choice. Exit 2 = machinery failure.",
    }
    with open(os.path.join(V, "MANIFEST.json"), "w") as f:
        json.dump(m, f, indent=1)
        f.write("\n")
    print("claimed:", [c["property_id"] for c in checks])


if __name__ == "__main__":
    main()
