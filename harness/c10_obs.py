"""C10 helper: observe what pymtl3 does with an update block.

  typecheck(comp)        apply BehavioralRTLIRGenPass + BehavioralRTLIRTypeCheckPass
  convert(upblk, comp)   RTLIR tree of one block -> flat node list of RTLIRTypesTrace.tla
                         (static width / _is_explicit per node, children before parents)
  Runtime(...)           evaluates every sub-expression's originating Python `ast` node in the
                         block's own environment on the simulated component and records nbits
  observe_component()    everything for one component: one trace per update block
"""
import ast
import builtins
import copy
import re
import traceback

from c10_lang import limbs, shape_nbits, type_class

_OPS = {"Add": "+", "Sub": "-", "Mult": "*", "Div": "/", "Mod": "%", "Pow": "**",
        "ShiftLeft": "<<", "ShiftRightLogic": ">>", "BitAnd": "&", "BitOr": "|", "BitXor": "^",
        "Eq": "==", "NotEq": "!=", "Lt": "<", "LtE": "<=", "Gt": ">", "GtE": ">=",
        "Invert": "~", "UAdd": "+", "USub": "-"}

_WIDTH_MSG = re.compile(r"bitwidth|too wide|too narrow|not a valid binop operand|Cannot fit|"
                        r"too big for|must have matching", re.I)
# from_bits() of a bitstruct (struct @= vector / other struct) states its width requirement as an assert
_STRUCT_WIDTH_MSG = re.compile(r"LHS bitstruct \d+-bit <> RHS other \d+-bit")


def exc_category(e):
    if isinstance(e, ValueError) and _WIDTH_MSG.search(str(e)):
        return "width"
    if isinstance(e, AssertionError) and _STRUCT_WIDTH_MSG.search(str(e)):
        return "width"
    if isinstance(e, AssertionError):
        # trunc / zext / sext (datatypes/helpers.py) state their bitwidth requirement as an assert
        tb, last = e.__traceback__, None
        while tb is not None:
            last, tb = tb, tb.tb_next
        if last is not None and last.tb_frame.f_code.co_name in ("trunc", "zext", "sext") \
                and last.tb_frame.f_code.co_filename.replace("\\", "/").endswith("datatypes/helpers.py") \
                and isinstance(last.tb_frame.f_locals.get("value"), object) \
                and hasattr(last.tb_frame.f_locals.get("value"), "nbits"):
            return "width"
    return "other"


class Unconvertible(Exception):
    pass


# ------------------------------------------------------------------------------------------
# passes
# ------------------------------------------------------------------------------------------

def typecheck(comp):
    """-> (verdict, exception or None).  verdict: accepted | rejected | syntax | other"""
    from pymtl3.passes.rtlir import BehavioralRTLIRGenPass, BehavioralRTLIRTypeCheckPass
    from pymtl3.passes.rtlir.errors import PyMTLSyntaxError, PyMTLTypeError
    try:
        comp.apply(BehavioralRTLIRGenPass(comp))
    except PyMTLSyntaxError as e:
        return "syntax", e
    except Exception as e:                      # noqa: BLE001
        return "other", e
    try:
        comp.apply(BehavioralRTLIRTypeCheckPass(comp))
    except PyMTLTypeError as e:
        return "rejected", e
    except Exception as e:                      # noqa: BLE001
        return "other", e
    return "accepted", None


def rtlir_upblks(comp):
    from pymtl3.passes.rtlir import BehavioralRTLIRGenPass
    return comp.get_metadata(BehavioralRTLIRGenPass.rtlir_upblks)


# ------------------------------------------------------------------------------------------
# RTLIR tree -> flat node list
# ------------------------------------------------------------------------------------------

class _Zero(dict):
    """locals mapping for static resolution: unknown names (loop / temporary variables) read 0"""
    def __init__(self, glob):
        super().__init__()
        self.glob = glob

    def __missing__(self, k):
        if k in self.glob:
            return self.glob[k]
        if hasattr(builtins, k):
            return getattr(builtins, k)
        return 0


def block_env(blk):
    env = dict(blk.__globals__)
    if blk.__closure__:
        for nm, cell in zip(blk.__code__.co_freevars, blk.__closure__):
            try:
                env[nm] = cell.cell_contents
            except ValueError:
                pass
    return env


def _load(node):
    n = copy.deepcopy(node)
    for x in ast.walk(n):
        if hasattr(x, "ctx"):
            x.ctx = ast.Load()
    return n


def shape_of_type(ty):
    """shape (BitStruct.tla: leaf / struct / list) of a declared Python type: a BitsN class, a bitstruct class
    (read from its field declarations) or a (nested) list of types -- never from RTLIR, to_bits() or nbits"""
    from pymtl3.datatypes import Bits, is_bitstruct_class
    if isinstance(ty, list):
        if not ty:
            raise Unconvertible("empty list type")
        return {"k": "list", "n": len(ty), "t": shape_of_type(ty[0])}
    if isinstance(ty, type) and issubclass(ty, Bits):
        return {"k": "leaf", "w": int(ty.nbits)}
    if is_bitstruct_class(ty):
        return {"k": "struct", "fs": [{"n": nm, "t": shape_of_type(t)} for nm, t in ty.__bitstruct_fields__.items()]}
    raise Unconvertible("type %r" % (ty,))


def _declared(obj):
    """declared (w, st, pytype) of a signal / value object, from the Python objects (not RTLIR)"""
    from pymtl3.datatypes import Bits, is_bitstruct_class, is_bitstruct_inst
    from pymtl3.dsl import Const, InPort, OutPort, Wire
    if isinstance(obj, (InPort, OutPort, Wire)):
        ty = obj._dsl.Type
    elif isinstance(obj, Bits):
        return obj.nbits, False, type(obj)
    elif is_bitstruct_inst(obj):
        ty = type(obj)
    else:
        return None
    if isinstance(ty, type) and issubclass(ty, Bits):
        return ty.nbits, False, ty
    if is_bitstruct_class(ty):
        return shape_nbits(shape_of_type(ty)), True, ty
    return None


class Converter:
    def __init__(self, blk, comp, typed):
        self.blk = blk
        self.comp = comp
        self.typed = typed          # the type checker accepted the component: .Type is final
        self.nodes = []             # flat list of dicts (trace nodes)
        self.rn = []                # parallel: RTLIR node (or None)
        self.py = []                # parallel: declared Python type (for struct fields)
        self.genv = block_env(blk)
        self.loops = []             # (name, for-node id)
        self.tmps = {}              # name -> id of the value node of the latest assignment
        self.tmps_all = {}          # name -> ids of the value nodes of all assignments so far (visit order)
        self.struct = []            # statement structure for the interpreter

    # -- static info ----------------------------------------------------------------------
    def _static(self, r):
        if not self.typed or r is None:
            return 0, True
        T = getattr(r, "Type", None)
        sx = bool(getattr(r, "_is_explicit", True))
        try:
            return int(T.get_dtype().get_length()), sx
        except Exception:           # noqa: BLE001  (component / array / None typed nodes)
            return 0, sx

    def emit(self, k, r, role="", py=None, **f):
        sw, sx = self._static(r)
        n = {"k": k, "sw": sw, "sx": sx, "rk": "none", "rw": 0, "rc": "", "role": role}
        n.update(f)
        if py is not None and (isinstance(py, list) or f.get("st")):
            try:
                n["tc"] = type_class(shape_of_type(py))       # class of the struct / list type (violation keys)
            except Unconvertible:
                pass
        self.nodes.append(n)
        self.rn.append(r)
        self.py.append(py)
        return len(self.nodes)       # 1-based id

    def opaque(self, r, role=""):
        sw, sx = self._static(r)
        return self.emit("opq", r, role, w=sw, ex=sx)

    def resolve(self, r):
        a = getattr(r, "ast", None)
        if a is None:
            raise Unconvertible("no ast")
        code = compile(ast.Expression(_load(a)), "<c10-static>", "eval")
        return eval(code, {"__builtins__": builtins}, _Zero(self.genv))      # noqa: S307

    # -- expressions ----------------------------------------------------------------------
    def expr(self, r, role=""):
        from pymtl3.datatypes import Bits
        from pymtl3.dsl import InPort, OutPort, Wire
        cn = type(r).__name__
        if cn == "Number":
            v = r.value
            if isinstance(v, int) and not isinstance(v, bool) and v >= 0:
                return self.emit("num", r, role, limbs=limbs(v))
            return self.opaque(r, role)
        if cn == "FreeVar":
            o = r.obj
            if isinstance(o, int) and not isinstance(o, bool) and o >= 0:
                return self.emit("num", r, role, limbs=limbs(o))
            if isinstance(o, Bits):
                return self.emit("bconst", r, role, w=o.nbits, limbs=limbs(int(o)))
            d = _declared(o)
            if d is not None and d[1]:           # a bitstruct constant
                return self.emit("sig", r, role, py=d[2], w=d[0], st=True, ty=shape_of_type(d[2]))
            return self.opaque(r, role)
        if cn == "SizeCast":
            inner = r.value
            call = getattr(r, "ast", None)
            if call is None or (isinstance(call, ast.Call) and len(call.args) == 0):
                # a Bits constant folded by the generation pass / BitsN() with no argument
                if type(inner).__name__ == "Number" and isinstance(inner.value, int) and inner.value >= 0:
                    return self.emit("bconst", r, role, w=int(r.nbits), limbs=limbs(int(inner.value)))
                return self.opaque(r, role)
            a = self.expr(inner)
            return self.emit("cast", r, role, n=int(r.nbits), a=a)
        if cn == "UnaryOp":
            a = self.expr(r.operand)
            return self.emit("unop", r, role, op=_OPS[type(r.op).__name__], a=a)
        if cn == "BinOp":
            a = self.expr(r.left)
            b = self.expr(r.right)
            op = _OPS[type(r.op).__name__]
            return self.emit("shift" if op in ("<<", ">>") else "binop", r, role, op=op, a=a, b=b)
        if cn == "Compare":
            a = self.expr(r.left)
            b = self.expr(r.right)
            return self.emit("cmp", r, role, op=_OPS[type(r.op).__name__], a=a, b=b)
        if cn == "IfExp":
            c = self.expr(r.cond)
            a = self.expr(r.body)
            b = self.expr(r.orelse)
            return self.emit("ifexp", r, role, py=self.py[a - 1] if self.nodes[a - 1].get("st") else None,
                             c=c, a=a, b=b, st=bool(self.nodes[a - 1].get("st")))
        if cn == "Concat":
            args = [self.expr(x) for x in r.values]
            return self.emit("concat", r, role, args=args)
        if cn in ("ZeroExt", "SignExt", "Truncate"):
            a = self.expr(r.value)
            return self.emit({"ZeroExt": "zext", "SignExt": "sext", "Truncate": "trunc"}[cn], r, role,
                             n=int(r.nbits), a=a)
        if cn == "Reduce":
            a = self.expr(r.value)
            return self.emit("reduce", r, role, a=a)
        if cn == "LoopVar":
            for nm, fid in reversed(self.loops):
                if nm == r.name:
                    return self.emit("loopvar", r, role, f=fid)
            return self.opaque(r, role)
        if cn == "TmpVar":
            if r.name in self.tmps:
                vid = self.tmps[r.name]
                vpy = self.py[vid - 1]
                return self.emit("tmp", r, role, py=vpy, v=vid, vs=list(self.tmps_all[r.name]),
                                 st=bool(self.nodes[vid - 1].get("st")) and not isinstance(vpy, list))
            return self.opaque(r, role)
        if cn == "Attribute":
            return self.attribute(r, role)
        if cn == "Index":
            return self.index(r, role)
        if cn == "Slice":
            return self.slice(r, role)
        if cn == "StructInst":
            from pymtl3.datatypes import is_bitstruct_class
            if not is_bitstruct_class(r.struct):
                return self.opaque(r, role)
            args = [self.expr(x) for x in r.values]
            sh = shape_of_type(r.struct)
            return self.emit("sinst", r, role, py=r.struct, w=shape_nbits(sh), st=True, ty=sh, args=args)
        return self.opaque(r, role)

    def _sig_like(self, r, role):
        """Attribute / Index chain that statically resolves to a signal object"""
        try:
            o = self.resolve(r)
        except Exception:            # noqa: BLE001
            return None
        d = _declared(o)
        from pymtl3.datatypes import Bits
        if d is None or isinstance(o, Bits):
            return None
        w, st, ty = d
        return self.emit("sig", r, role, py=ty, w=w, st=st, ty=shape_of_type(ty))

    def attribute(self, r, role):
        from pymtl3.datatypes import Bits, is_bitstruct_class
        v = r.value
        if type(v).__name__ == "Base":
            got = self._sig_like(r, role)
            return got if got is not None else self.opaque(r, role)
        # struct field?  (of a signal, a field, an element, a temporary, a constant, ...)
        if type(v).__name__ in ("Attribute", "Index", "TmpVar", "FreeVar", "IfExp", "StructInst"):
            a = self.expr(v)
            base = self.nodes[a - 1]
            ty = self.py[a - 1]
            if base["k"] in ("sig", "field", "elem", "idx", "tmp", "ifexp", "sinst") and ty is not None \
                    and not isinstance(ty, list) and is_bitstruct_class(ty) and r.attr in ty.__bitstruct_fields__:
                fty = ty.__bitstruct_fields__[r.attr]       # BitsN class, bitstruct class or (nested) list of types
                sh = shape_of_type(fty)
                return self.emit("field", r, role, py=fty, a=a, name=r.attr, w=shape_nbits(sh), st=sh["k"] == "struct")
            # interface / sub-component attribute: the chain was emitted as opaque; try the object
            if base["k"] == "opq" and base["sw"] == 0:
                self.nodes.pop(); self.rn.pop(); self.py.pop()
                got = self._sig_like(r, role)
                return got if got is not None else self.opaque(r, role)
            return self.opaque(r, role)
        return self.opaque(r, role)

    def index(self, r, role):
        from pymtl3.dsl import InPort, OutPort, Wire
        v = r.value
        # a list field of a bitstruct (packed array): one dimension per index
        if not (type(v).__name__ == "Attribute" and type(v.value).__name__ == "Base"):
            n0 = len(self.nodes)
            a = self.expr(v)
            ety = self.py[a - 1]
            if isinstance(ety, list) and ety:
                i = self.expr(r.idx, "idx")
                sh = shape_of_type(ety[0])
                return self.emit("idx", r, role, py=ety[0], a=a, i=i, w=shape_nbits(sh), st=sh["k"] == "struct")
            del self.nodes[n0:], self.rn[n0:], self.py[n0:]
        # array of signals?
        arr = None
        try:
            arr = self.resolve(v)
        except Exception:            # noqa: BLE001
            arr = None
        if isinstance(arr, list) and arr and isinstance(arr[0], (InPort, OutPort, Wire)):
            d = _declared(arr[0])
            i = self.expr(r.idx, "idx")
            if d is None:
                return self.opaque(r, role)
            return self.emit("elem", r, role, py=d[2], n=len(arr), w=d[0], st=d[1], i=i, ty=shape_of_type(d[2]))
        if isinstance(arr, list):
            self.expr(r.idx, "idx")
            return self.opaque(r, role)
        a = self.expr(v)
        i = self.expr(r.idx, "idx")
        base = self.nodes[a - 1]
        if base["k"] in ("sig", "field", "elem", "idx", "tmp", "slice") and not base.get("st", False) \
                and not isinstance(self.py[a - 1], list):
            return self.emit("bit", r, role, a=a, i=i)
        return self.opaque(r, role)

    def slice(self, r, role):
        a = self.expr(r.value)
        lo = self.expr(r.lower, "lo")
        hi = self.expr(r.upper, "hi")
        if self.nodes[lo - 1]["k"] == "num" and self.nodes[hi - 1]["k"] == "num":
            return self.emit("slice", r, role, a=a, lo=lo, hi=hi)
        self.nodes[hi - 1]["role"] = ""
        return self.opaque(r, role)

    # -- statements -----------------------------------------------------------------------
    def stmt(self, r, out):
        cn = type(r).__name__
        if cn == "Assign":
            v = self.expr(r.value)
            tids = []
            for t in r.targets:
                if type(t).__name__ == "TmpVar":
                    tid = self.emit("tmpdef", t, "tgt")
                else:
                    tid = self.expr(t, "tgt")
                tids.append(tid)
            aids = []
            for tid in tids:
                aid = self.emit("assign", None, "", t=tid, v=v)
                self.nodes[aid - 1]["sw"] = 0
                aids.append(aid)
            for t in r.targets:
                if type(t).__name__ == "TmpVar":
                    self.tmps[t.name] = v
                    self.tmps_all.setdefault(t.name, []).append(v)
            out.append(("assign", r, v, tids, aids))
        elif cn == "If":
            c = self.expr(r.cond)
            iid = self.emit("if", None, "", c=c)
            body, orelse = [], []
            for b in r.body:
                self.stmt(b, body)
            for b in r.orelse:
                self.stmt(b, orelse)
            out.append(("if", r, c, iid, body, orelse))
        elif cn == "For":
            s = self.expr(r.start)
            e = self.expr(r.end)
            st = self.expr(r.step)
            fid = self.emit("for", None, "", s=s, e=e, st=st)
            self.loops.append((r.var.name, fid))
            body = []
            for b in r.body:
                self.stmt(b, body)
            self.loops.pop()
            out.append(("for", r, (s, e, st), fid, body))
        else:
            raise Unconvertible(cn)

    def run(self, upblk):
        for st in upblk.body:
            self.stmt(st, self.struct)
        return self


def shape_of(nodes):
    """kind sequence comparable with c10_lang.flat_shape"""
    from c10_lang import limbs as _l
    out = []
    for n in nodes:
        k = n["k"]
        if k == "sig":
            out.append(("sig", n["w"]))
        elif k == "field":
            out.append(("field", n["w"]))
        elif k == "idx":
            out.append(("idx", n["w"]))
        elif k == "sinst":
            out.append(("sinst", len(n["args"])))
        elif k == "num":
            v = 0
            for j, x in enumerate(n["limbs"]):
                v |= x << (15 * j)
            out.append(("num", v))
        elif k == "bconst":
            v = 0
            for j, x in enumerate(n["limbs"]):
                v |= x << (15 * j)
            out.append(("bconst", n["w"], v))
        elif k in ("cast", "zext", "sext", "trunc"):
            out.append((k, n["n"]))
        elif k in ("unop", "binop", "shift", "cmp"):
            out.append((k, n["op"]))
        elif k == "concat":
            out.append(("concat", len(n["args"])))
        elif k == "elem":
            out.append(("elem", n["n"], n["w"]))
        else:
            out.append((k,))
    return out


# ------------------------------------------------------------------------------------------
# run-time observation
# ------------------------------------------------------------------------------------------

class _Abort(Exception):
    pass


def _folded_value(r):
    """value of an RTLIR node without a Python ast: a Number, or a Bits constant folded by the generation pass
    (SizeCast of a Number)"""
    v = getattr(r, "value", 0)
    while not isinstance(v, int) and hasattr(v, "value"):
        v = v.value
    return v if isinstance(v, int) else 0


def _list_bits(v):
    """total number of bits of a (nested) list of Bits / bitstruct values; None if it holds anything else"""
    from pymtl3.datatypes import Bits, is_bitstruct_inst
    if isinstance(v, Bits):
        return v.nbits
    if is_bitstruct_inst(v):
        return v.to_bits().nbits
    if isinstance(v, list) and v:
        tot = 0
        for x in v:
            b = _list_bits(x)
            if b is None:
                return None
            tot += b
        return tot
    return None


class Runtime:
    """Interprets the block statement by statement on the simulated component.  Before a statement
    executes, every sub-expression (the Python ast node the RTLIR node came from) is evaluated on
    its own in the block's environment and the width of the value recorded."""

    def __init__(self, conv):
        self.c = conv
        n = len(conv.nodes)
        self.bits = [set() for _ in range(n)]
        self.ints = [None] * n
        self.neg = [False] * n       # a negative Python int was seen (it has no width)
        self.excs = [None] * n
        self.seen = [False] * n
        self.kids = [self._kids(x) for x in conv.nodes]
        self.code = {}
        self.raised = None           # first exception of the current run

    @staticmethod
    def _kids(n):
        k = n["k"]
        ks = []
        for f in ("c", "a", "b", "i", "lo", "hi"):
            if f in n and k not in ("assign", "if", "for", "loopvar", "tmp"):
                ks.append(n[f])
        ks += n.get("args", [])
        return ks

    def _compiled(self, i):
        if i not in self.code:
            r = self.c.rn[i]
            a = getattr(r, "ast", None)
            if a is None or not isinstance(a, ast.expr):
                self.code[i] = None
            else:
                e = ast.Expression(_load(a))
                ast.fix_missing_locations(e)
                self.code[i] = compile(e, "<c10-expr>", "eval")
        return self.code[i]

    def _record(self, i, v):
        from pymtl3.datatypes import Bits, is_bitstruct_inst
        self.seen[i] = True
        if isinstance(v, int) and not isinstance(v, Bits) and v < 0:
            self.neg[i] = True
        if isinstance(v, Bits):
            self.bits[i].add(v.nbits)
        elif is_bitstruct_inst(v):
            self.bits[i].add(v.to_bits().nbits)
        elif isinstance(v, list):
            # a (partially indexed) list field: the bits of all its elements
            w = _list_bits(v)
            if w is not None:
                self.bits[i].add(w)
        elif isinstance(v, int):
            if v >= 0:
                b = max(1, int(v).bit_length())
                self.ints[i] = b if self.ints[i] is None else max(self.ints[i], b)

    def eval_node(self, nid, env, quiet=False):
        """evaluate node nid (1-based) after its children; returns False if something raised.
        quiet: the node lies in a branch of an if-expression that is not taken in this run: its width
        is still recorded, but an exception there is not an exception of the block"""
        i = nid - 1
        n = self.c.nodes[i]
        if n["k"] == "ifexp":
            if not self.eval_node(n["c"], env, quiet):
                return False
            ccode = self._compiled(n["c"] - 1)
            try:
                taken = bool(eval(ccode, env)) if ccode is not None else bool(_folded_value(self.c.rn[n["c"] - 1]))  # noqa: S307
            except Exception:                # noqa: BLE001
                return False
            for br, live in ((n["a"], taken), (n["b"], not taken)):
                if not self.eval_node(br, env, quiet or not live) and live:
                    return False
        else:
            for kd in self.kids[i]:
                if not self.eval_node(kd, env, quiet):
                    return False
        if n["k"] == "tmpdef":
            return True
        code = self._compiled(i)
        if code is None:
            r = self.c.rn[i]
            if type(r).__name__ == "Number":
                self._record(i, r.value)
            return True
        try:
            v = eval(code, env)              # noqa: S307
        except Exception as e:               # noqa: BLE001
            if not quiet:
                if self.excs[i] is None:
                    self.excs[i] = e
                if self.raised is None:
                    self.raised = e
            return False
        self._record(i, v)
        return True

    def _stmts(self, sts, env):
        for st in sts:
            kind = st[0]
            if kind == "assign":
                _, r, v, tids, aids = st
                # `target @= value` / `target <<= value` are augmented assignments: Python loads the target
                # (its object, index and field sub-expressions) before it evaluates the value
                ok = True
                for t in tids:
                    ok = ok and self.eval_node(t, env)
                ok = ok and self.eval_node(v, env)
                if not ok:
                    raise _Abort()
                m = ast.Module(body=[r.ast], type_ignores=[])
                try:
                    exec(compile(m, "<c10-stmt>", "exec"), env)     # noqa: S102
                except Exception as e:       # noqa: BLE001
                    i = aids[0] - 1
                    if self.excs[i] is None:
                        self.excs[i] = e
                    if self.raised is None:
                        self.raised = e
                    raise _Abort()
            elif kind == "if":
                _, r, c, iid, body, orelse = st
                if not self.eval_node(c, env):
                    raise _Abort()
                code = self._compiled(c - 1)
                try:
                    taken = bool(eval(code, env)) if code is not None else bool(_folded_value(self.c.rn[c - 1]))      # noqa: S307
                except Exception as e:       # noqa: BLE001
                    if self.raised is None:
                        self.raised = e
                    raise _Abort()
                self._stmts(body if taken else orelse, env)
            elif kind == "for":
                _, r, (s, e, stp), fid, body = st
                vals = []
                for nid in (s, e, stp):
                    if not self.eval_node(nid, env):
                        raise _Abort()
                    code = self._compiled(nid - 1)
                    if code is None:
                        vals.append(int(_folded_value(self.c.rn[nid - 1])))
                    else:
                        vals.append(int(eval(code, env)))             # noqa: S307
                if vals[2] == 0:
                    raise _Abort()
                it = range(vals[0], vals[1], vals[2])
                if len(it) > 4096:
                    it = list(it[:64]) + list(it[-64:])
                for x in it:
                    env[r.var.name] = x
                    self._stmts(body, env)

    def run(self):
        """one execution of the block in the component's current state -> exception or None"""
        self.raised = None
        env = dict(self.c.genv)
        try:
            self._stmts(self.c.struct, env)
        except _Abort:
            pass
        return self.raised

    def fill(self):
        for i, n in enumerate(self.c.nodes):
            if self.neg[i]:
                n["rneg"] = True
            if self.excs[i] is not None:
                n["rk"] = "exc"
                n["rc"] = exc_category(self.excs[i])
                n["rx"] = type(self.excs[i]).__name__
            elif len(self.bits[i]) > 1:
                n["rk"] = "mixed"
            elif self.bits[i]:
                w = next(iter(self.bits[i]))
                if self.ints[i] is not None and self.ints[i] > w:
                    # an if-expression that is Bits on one branch and an int too wide for it on the other
                    n["rk"], n["rw"] = "int", self.ints[i]
                else:
                    n["rk"], n["rw"] = "bits", w
            elif self.ints[i] is not None:
                n["rk"] = "int"
                n["rw"] = self.ints[i]


# ------------------------------------------------------------------------------------------
# one component
# ------------------------------------------------------------------------------------------

def _in_block(exc, blk):
    tb = exc.__traceback__
    while tb is not None:
        if tb.tb_frame.f_code is blk.__code__:
            return True
        tb = tb.tb_next
    return False


def set_inputs(comp, R, mode):
    """drive the top-level input ports: mode 0 zeros, 1 all ones, 2 random"""
    from pymtl3.datatypes import Bits, is_bitstruct_class
    from pymtl3.dsl import InPort

    def value(p):
        ty = p._dsl.Type
        try:
            if isinstance(ty, type) and issubclass(ty, Bits):
                n = ty.nbits
                return ty(0 if mode == 0 else ((1 << n) - 1 if mode == 1 else R.getrandbits(n)))
            if is_bitstruct_class(ty):
                n = ty().to_bits().nbits
                v = 0 if mode == 0 else ((1 << n) - 1 if mode == 1 else R.getrandbits(n))
                return ty.from_bits(Bits(n, v))
        except Exception:                    # noqa: BLE001
            return None
        return None

    for name, obj in list(vars(comp).items()):
        if name in ("clk", "reset") or name.startswith("_"):
            continue
        ports = [(None, obj)] if isinstance(obj, InPort) else \
                [(j, p) for j, p in enumerate(obj) if isinstance(p, InPort)] if isinstance(obj, list) else []
        for j, p in ports:
            val = value(p)
            if val is None:
                continue
            try:
                cur = getattr(comp, name) if j is None else getattr(comp, name)[j]
                cur @= val
            except Exception:                # noqa: BLE001
                pass


def observe_component(comp, R, nsamples=3):
    """comp: a constructed (not yet elaborated) component.
    -> dict(verdict, exc, traces=[{name, nodes, sim, conv}], note)"""
    from pymtl3 import DefaultPassGroup
    comp.elaborate()
    verdict, texc = typecheck(comp)
    out = {"verdict": verdict, "exc": type(texc).__name__ if texc is not None else "",
           "msg": (str(texc).strip().split("\n")[-1][:200] if texc is not None else ""), "blocks": []}
    if verdict in ("syntax", "other"):
        return out
    ub = rtlir_upblks(comp)
    convs = []
    for blk, r in ub.items():
        try:
            convs.append((blk, Converter(blk, comp, verdict == "accepted").run(r)))
        except Unconvertible as e:
            out.setdefault("unconvertible", []).append("%s: %s" % (blk.__name__, e))
    # ---- simulate
    sim_exc = {id(blk): None for blk, _ in convs}
    other_exc = None
    rts = {id(blk): Runtime(c) for blk, c in convs}
    ffs = set(id(b) for b in comp.get_all_update_ff()) if hasattr(comp, "get_all_update_ff") else set()
    alive = True
    try:
        comp.apply(DefaultPassGroup())
        comp.sim_reset()
    except Exception as e:                   # noqa: BLE001
        alive = False
        hit = False
        for blk, _ in convs:
            if _in_block(e, blk):
                sim_exc[id(blk)] = e
                hit = True
        if not hit:
            other_exc = e
    if other_exc is not None:
        out["sim_setup_error"] = "%s: %s" % (type(other_exc).__name__, str(other_exc)[:200])
        simulated = False
    else:
        simulated = True
        # interpreter on the post-reset state (inputs zero)
        for blk, c in convs:
            ie = rts[id(blk)].run()
            _agree(out, blk, sim_exc[id(blk)] if not alive else None, ie, strict=not alive)
        for s in range(nsamples if alive else 0):
            set_inputs(comp, R, (1, 2, 2, 0, 2, 2)[s % 6])
            cur = {}
            try:
                if ffs:
                    comp.sim_tick()
                else:
                    comp.sim_eval_combinational()
            except Exception as e:           # noqa: BLE001
                for blk, _ in convs:
                    if _in_block(e, blk):
                        cur[id(blk)] = e
                        if sim_exc[id(blk)] is None:
                            sim_exc[id(blk)] = e
                if not cur:
                    out["sim_setup_error"] = "%s: %s" % (type(e).__name__, str(e)[:200])
                alive = False
            for blk, c in convs:
                ie = rts[id(blk)].run()
                if len(convs) == 1:
                    _agree(out, blk, cur.get(id(blk)), ie, strict=True)
            if not alive:
                break
    for blk, c in convs:
        if simulated:
            rts[id(blk)].fill()
        e = sim_exc[id(blk)]
        sim = {"raised": e is not None, "cat": exc_category(e) if e is not None else "",
               "exc": type(e).__name__ if e is not None else "", "msg": str(e).split("\n")[0][:160] if e is not None else ""}
        out["blocks"].append({"name": blk.__name__, "nodes": c.nodes, "sim": sim, "simulated": simulated})
    return out


def _agree(out, blk, sim_e, int_e, strict):
    """the interpreter and the real simulation must agree on whether (and what) the block raises"""
    if not strict:
        return
    a = type(sim_e).__name__ if sim_e is not None else ""
    b = type(int_e).__name__ if int_e is not None else ""
    if a != b:
        out.setdefault("disagree", []).append("%s: simulation %r vs interpreter %r (%s | %s)" %
                                              (blk.__name__, a, b, str(sim_e)[:80], str(int_e)[:80]))
