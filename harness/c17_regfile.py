"""Devices under test for the register-file part of C17: RegisterFile / RegisterFileRst of
pymtl3/stdlib/basic_rtl/register_files.py behind one cycle interface, plus an independent software model
with injectable faults (canaries).

    dut = RegFileDut(shape)              shape = Shape(cls, type, nregs, rd, wr, cz, rv)
    obs = dut.cycle(ra, wa, wd, we, rst) one clock cycle under DefaultPassGroup: the ports are set, the
                                         combinational read data is sampled BEFORE the edge
                                         (sim_eval_combinational), then sim_tick(); obs = {rdata, regs}
                                         with regs = contents after the edge (white box: s.regs[i])

Values are plain integers; for a bitstruct Type they are the integer of to_bits().
"""
from common import MachineryError


class Shape:
    def __init__(self, cls, typ, nregs, rd, wr, cz, rv=0):
        self.cls = cls          # "RegisterFile" | "RegisterFileRst"
        self.typ = typ          # "b<nbits>" | "struct"
        self.nregs, self.rd, self.wr, self.cz, self.rv = nregs, rd, wr, bool(cz), rv

    @property
    def hr(self):
        return self.cls == "RegisterFileRst"

    def name(self):
        return "%s(%s,nregs=%d,rd=%d,wr=%d,cz=%d%s)" % (self.cls, self.typ, self.nregs, self.rd, self.wr, self.cz,
                                                        ",rv=%d" % self.rv if self.hr else "")

    def tuple(self):
        return (self.cls, self.typ, self.nregs, self.rd, self.wr, self.cz, self.rv)


_STRUCT = None


def _struct():
    """A two-field bitstruct (12 bits) as the entry Type."""
    global _STRUCT
    if _STRUCT is None:
        from pymtl3 import Bits4, Bits8, bitstruct

        @bitstruct
        class C17Entry:
            hi: Bits8
            lo: Bits4
        _STRUCT = C17Entry
    return _STRUCT


def type_nbits(typ):
    return 12 if typ == "struct" else int(typ[1:])


class RegFileDut:
    def __init__(self, shape):
        from pymtl3 import DefaultPassGroup, mk_bits
        from pymtl3.stdlib.basic_rtl import register_files
        self.shape = sh = shape
        nb = type_nbits(sh.typ)
        if sh.typ == "struct":
            T = _struct()
            B = mk_bits(nb)
            self.enc = lambda v: T.from_bits(B(v))
            self.dec = lambda x: int(x.to_bits())
        else:
            T = mk_bits(nb)
            self.enc = lambda v: v
            self.dec = int
        cls = getattr(register_files, sh.cls)
        kw = dict(nregs=sh.nregs, rd_ports=sh.rd, wr_ports=sh.wr, const_zero=sh.cz)
        if sh.hr:
            kw["reset_value"] = self.enc(sh.rv) if sh.typ == "struct" else sh.rv
        top = cls(T, **kw)
        top.elaborate()
        top.apply(DefaultPassGroup())
        self.top = top
        self._idle()
        top.sim_reset()
        self._idle()
        top.sim_eval_combinational()

    def _idle(self):
        t = self.top
        for i in range(self.shape.wr):
            t.wen[i] @= 0

    def regs(self):
        return tuple(self.dec(r) for r in self.top.regs)

    def sig(self):
        return ()

    def cycle(self, ra, wa, wd, we, rst=False):
        t, sh = self.top, self.shape
        for i in range(sh.rd):
            t.raddr[i] @= ra[i]
        for i in range(sh.wr):
            t.waddr[i] @= wa[i]
            t.wdata[i] @= self.enc(wd[i])
            t.wen[i] @= 1 if we[i] else 0
        t.reset @= 1 if rst else 0
        t.sim_eval_combinational()
        rdata = tuple(self.dec(t.rdata[i]) for i in range(sh.rd))
        t.sim_tick()
        t.reset @= 0
        self._idle()
        t.sim_eval_combinational()
        return {"rdata": rdata, "regs": self.regs()}


class SoftRegFile:
    """Register file written independently of RegFile.tla (a dict and the obvious loops), with one optional
    injected fault:
      first-wins     of several ports writing one address the FIRST one wins
      wrong-reg      a write through the last port lands in the next register
      cz-port        the const_zero test looks at port 0's address for every port
      cz-off         register 0 of a const_zero file is writable
      rst-skip-last  reset leaves the last register alone
      forward        a read of an address written in the same cycle returns the new data
      lose-write     every 3rd enabled write is dropped"""

    def __init__(self, shape, fault=None):
        self.shape, self.fault = shape, fault
        self.r = [shape.rv if shape.hr else 0] * shape.nregs
        self.n = 0

    def regs(self):
        return tuple(self.r)

    def sig(self):
        return (self.n % 3,) if self.fault == "lose-write" else ()

    def cycle(self, ra, wa, wd, we, rst=False):
        sh, f = self.shape, self.fault
        new = {}
        if sh.hr and rst:
            for a in range(sh.nregs - (1 if f == "rst-skip-last" else 0)):
                new[a] = sh.rv
        else:
            for i in range(sh.wr):
                if not we[i]:
                    continue
                a = wa[i]
                za = wa[0] if f == "cz-port" else a
                if sh.cz and za == 0 and f != "cz-off":
                    continue
                self.n += 1
                if f == "lose-write" and self.n % 3 == 0:
                    continue
                if f == "wrong-reg" and i == sh.wr - 1 and sh.nregs > 1:
                    a = (a + 1) % sh.nregs
                    if sh.cz and a == 0:
                        a = 1 % sh.nregs
                if f == "first-wins" and a in new:
                    continue
                new[a] = wd[i]
        rdata = tuple(new.get(ra[i], self.r[ra[i]]) if f == "forward" else self.r[ra[i]] for i in range(sh.rd))
        for a, v in new.items():
            self.r[a] = v
        return {"rdata": rdata, "regs": self.regs()}


def make(shape):
    if shape.nregs < 1 or shape.rd < 1 or shape.wr < 1:
        raise MachineryError("bad register file shape %s" % shape.name())
    return RegFileDut(shape)
