"""MANIFEST.setup_cmd: nothing to build (TLA+ is interpreted by TLC, the harness is Python);
verify that the tools the checks rely on are present, offline."""
import os
import subprocess
import sys

sys.path.insert(0, os.path.dirname(os.path.abspath(__file__)))
import common  # noqa
import tlc  # noqa

ok = True
for p in (tlc.JAR, tlc.DEPS, "/venv/bin/python"):
    if not os.path.exists(p):
        print("missing", p)
        ok = False
r = subprocess.run(["java", "-version"], stdout=subprocess.PIPE, stderr=subprocess.STDOUT, text=True)
print(r.stdout.strip().splitlines()[0] if r.stdout else "java?")
ok = ok and r.returncode == 0
common.use_repo()
import pymtl3  # noqa
print("pymtl3 from", os.path.dirname(pymtl3.__file__))
for _b in ("xdg-open", "dot"):
    os.chmod(os.path.join(common.VERIF, "harness", "bin", _b), 0o755)
sys.exit(0 if ok else 1)
