"""C02, CL part: method-level ordering constraints (M(x) < M(y), M(x) == M(y), U(b) < M(x), M(x) < U(b)),
update_once blocks, method nets across the hierarchy and the open-loop scheduler.

  corpus()            descriptor families (CLDesign objects)
  CLDesign.source()   real pymtl3 components (written to a .py file in the scratch dir)
  CLDesign.desc()     the JSON descriptor spec/MethodOrder.tla works on (blocks, which ACTUAL methods each
                      block invokes in program order, the declared constraints resolved to actual methods,
                      signal footprints) -- written by the generator, never read back from pymtl3
  run_phase(res, tier)   model check, code -> spec traces, spec -> code forced extensions, open loop,
                      canaries

Observation uses sys.setprofile: call/return of the update blocks' code objects and call of the method
functions (keyed by code object AND component instance, so several instances of one class are told apart).
The profile hook also fires inside greenlets, so a block that calls a blocking method (kind `fl`:
@blocking / CalleeIfcFL / CallerIfcFL) and is therefore wrapped into a greenlet ticker by WrapGreenletPass is
observed like any other block: by the code object of the block BODY, wherever the ticker runs it.  Every
generated blocking method returns immediately, so a wrapped block runs to completion once per cycle.
Net steps declared by the design (`d.net`: s.w1 //= s.w0) are blocks of the descriptor too (`net:w0`),
observed by the code object of the generated net block.
"""
import importlib.util
import itertools
import json
import os
import random as _random
import re
import sys
import time

from greenlet import getcurrent as _getcurrent

import tlc
from common import MachineryError, rng, scratch

P = 65521

# ------------------------------------------------------------------------------------------
# design model
# ------------------------------------------------------------------------------------------


CALLER_CLS = {"port": "CallerPort", "plain": "CallerPort", "nb": "CallerIfcCL", "fl": "CallerIfcFL"}
CALLEE_CLS = {"port": "CalleePort", "plain": "CalleePort", "nb": "CalleeIfcCL", "fl": "CalleeIfcFL"}


class CLDesign:
    """A CL design.  Everything is keyed by strings:
         methods  'l0.m0', 'l0.m1', 'l0.m1.rdy', 'p0.fwd', 'top.tm0'
         blocks   'b0' (top), 'l0.lb0' (inside leaf l0), 'u0.ub' (inside user component u0)
    """

    def __init__(self, name, family):
        self.name, self.family = name, family
        self.leaves = []     # dict(name, wrap, cls, meths=[dict(name, kind)], blocks=[dict(name, once)], cons=[txt])
        self.pts = []        # dict(name, target, kind)   pass-through method fwd -> caller port -> target
        self.users = []      # dict(name, outs=[method key], once)
        self.blocks = []     # top blocks: dict(name, once, calls=[(key, via)], rd=[sig], wr=[sig])
        self.nsig = 0
        self.topcons = []    # source text of constraints declared in top.construct
        self.callers = {}    # method key -> name of a top-level CallerPort / CallerIfcCL connected to it
        self.exposed = []    # (top attr, method key): top-level callee port connected to a child's method
        self.topmeths = []   # top's own methods dict(name, kind)
        self.userports = {}  # method key -> 'u0.out0'
        self.shared = {}     # leaf name -> class name of another leaf (two instances of one class)
        self.nets = []       # dict(src, dsts): net step  s.w<dst> //= s.w<src>  (src is written by a block)
        # resolved constraints (actual method keys / block keys)
        self.mm, self.eq, self.um, self.mu, self.uu = [], [], [], [], []
        self.note = ""

    # -- construction helpers ---------------------------------------------------------------
    def leaf(self, name, meths, wrap=0, blocks=()):
        """meths: 'm0:port m1:nb m2:plain m3:fl'   (fl: @blocking method -> CalleeIfcFL)"""
        ms = []
        for t in meths.split():
            n, k = t.split(":")
            ms.append({"name": n, "kind": k})
        lf = {"name": name, "wrap": wrap, "meths": ms, "blocks": [dict(b) for b in blocks], "cons": []}
        self.leaves.append(lf)
        return lf

    def block(self, name, calls=(), once=True, rd=(), wr=()):
        b = {"name": name, "once": once, "calls": [c if isinstance(c, tuple) else (c, "child") for c in calls],
             "rd": list(rd), "wr": list(wr)}
        for s in list(rd) + list(wr):
            self.nsig = max(self.nsig, s + 1)
        self.blocks.append(b)
        return b

    def passthru(self, name, target, eq=True):
        """component with a method `fwd` that calls a caller port connected to `target`; the designer
        declares M(fwd) == M(out) (pymtl3's convention for a method that calls a method)"""
        kind = self._kind(target) if self._kind(target) in ("nb", "fl") else "port"
        self.pts.append({"name": name, "target": target, "kind": kind, "eq": eq})
        if eq:
            self.eq.append((name + ".fwd", target))
            if kind == "nb":
                self.eq.append((name + ".fwd.rdy", target + ".rdy"))
        return name + ".fwd"

    def net(self, src, dsts):
        """net step: the signals `dsts` are connected to signal `src` (which some block writes)"""
        dsts = [dsts] if isinstance(dsts, int) else list(dsts)
        self.nets.append({"src": src, "dsts": dsts})
        self.nsig = max([self.nsig, src + 1] + [x + 1 for x in dsts])
        return "net:w%d" % src

    def user(self, name, outs):
        self.users.append({"name": name, "outs": list(outs)})
        for j, key in enumerate(outs):
            self.userports.setdefault(key, "%s.out%d" % (name, j))
        return name + ".ub"

    def _leaf(self, name):
        for lf in self.leaves:
            if lf["name"] == name:
                return lf
        raise KeyError(name)

    def _kind(self, key):
        parts = key.split(".")
        if parts[-1] == "rdy":
            parts = parts[:-1]
        if parts[0] == "top":
            return next(m["kind"] for m in self.topmeths if m["name"] == parts[1])
        if parts[0].startswith("p"):
            return next(p["kind"] for p in self.pts if p["name"] == parts[0])
        return next(m["kind"] for m in self._leaf(parts[0])["meths"] if m["name"] == parts[1])

    def leaf_path(self, lf, outer=False):
        """attribute path of the leaf instance (or of its outermost wrapper) below top"""
        if lf["wrap"] == 0:
            return lf["name"]
        if outer:
            return "w_" + lf["name"]
        return "w_" + lf["name"] + ".inner" * lf["wrap"]

    def mref(self, key, site="top", style="outer"):
        """source text that denotes method `key` seen from component `site`.
        style: outer (outermost re-exported port) | deep (the leaf's own port) | caller (top-level
        CallerPort connected to it) | raw (the bound python method, kind plain only)"""
        parts = key.split(".")
        rdy = parts[-1] == "rdy"
        if rdy:
            parts = parts[:-1]
        owner, m = parts
        if site == owner or (site == "top" and owner == "top"):
            if style == "raw":
                txt = "s.%s_" % m
            else:
                txt = "s.%s" % m
        elif site == "top":
            if owner.startswith("p"):
                txt = "s.%s.fwd" % owner
            elif style == "caller":
                txt = "s." + self.callers[".".join(parts)]
            elif style == "user":
                txt = "s." + self.userports[".".join(parts)]
            else:
                txt = "s.%s.%s" % (self.leaf_path(self._leaf(owner), outer=(style == "outer")), m)
        else:
            raise ValueError("cannot reference %s from %s" % (key, site))
        if rdy:
            txt += ".rdy"
        return txt

    def constrain(self, kind, a, b, site="top", sa="outer", sb="outer", flip=False):
        """kind: mm | eq | um | mu | uu.   Records the resolved pair and emits the source text at `site`.
        flip: write  Y > X  instead of  X < Y."""
        getattr(self, kind).append((a, b))

        def side(k, key, style):
            if k == "U":
                blk = key.split(".")[-1]
                return "U(%s)" % blk
            return "M(%s)" % self.mref(key, site, style)
        ka, kb = {"mm": "MM", "eq": "MM", "um": "UM", "mu": "MU", "uu": "UU"}[kind]
        ta, tb = side(ka, a, sa), side(kb, b, sb)
        if kind == "eq":
            txt = "%s == %s" % (ta, tb)
        elif flip:
            txt = "%s > %s" % (tb, ta)
        else:
            txt = "%s < %s" % (ta, tb)
        if site == "top":
            self.topcons.append(txt)
        elif site.startswith("p"):
            raise ValueError
        else:
            self._leaf(site)["cons"].append(txt)

    # -- enumeration of actual methods / blocks ---------------------------------------------
    def method_keys(self):
        out = []
        for lf in self.leaves:
            for m in lf["meths"]:
                out.append("%s.%s" % (lf["name"], m["name"]))
                if m["kind"] == "nb":
                    out.append("%s.%s.rdy" % (lf["name"], m["name"]))
        for p in self.pts:
            out.append(p["name"] + ".fwd")
            if p["kind"] == "nb":
                out.append(p["name"] + ".fwd.rdy")
        for m in self.topmeths:
            out.append("top." + m["name"])
            if m["kind"] == "nb":
                out.append("top.%s.rdy" % m["name"])
        return out

    def invocations(self, key):
        """actual methods invoked (in order) by one call of `key` the way generated code calls it:
        non-blocking methods are called as `if x.rdy(): x()`; pass-through methods call their target."""
        if self._kind(key) == "nb":
            return self._chain(key, ".rdy") + self._chain(key, "")
        return self._chain(key, "")

    def _chain(self, key, suffix):
        # fwd.rdy asks the target's rdy, fwd calls the target
        if key.endswith(".fwd"):
            p = next(p for p in self.pts if p["name"] == key.split(".")[0])
            return [key + suffix] + self._chain(p["target"], suffix)
        return [key + suffix]

    def all_blocks(self):
        """[(key, once, [invoked method keys], rd, wr)] in a fixed order"""
        out = []
        for b in self.blocks:
            inv = []
            for key, _via in b["calls"]:
                inv += self.invocations(key)
            out.append((b["name"], b["once"], inv, b["rd"], b["wr"]))
        for lf in self.leaves:
            for b in lf["blocks"]:
                out.append(("%s.%s" % (lf["name"], b["name"]), b["once"], [], [], []))
        for u in self.users:
            inv = []
            for key in u["outs"]:
                inv += self.invocations(key)
            out.append((u["name"] + ".ub", True, inv, [], []))
        for n in self.nets:
            out.append(("net:w%d" % n["src"], False, [], [n["src"]], list(n["dsts"])))
        return out

    def greenlet_blocks(self):
        """keys of the blocks WrapGreenletPass has to wrap: a block that calls a blocking method itself
        (the method of a CalleeIfcFL / CallerIfcFL; calls made inside a method do not count)"""
        out = set()
        for b in self.blocks:
            if any(self._kind(key) == "fl" for key, _via in b["calls"]):
                out.add(b["name"])
        for u in self.users:
            if any(self._kind(key) == "fl" for key in u["outs"]):
                out.add(u["name"] + ".ub")
        return out

    def ext_methods(self):
        """top-level callee methods (what an open-loop test bench may call): actual method keys"""
        out = []
        for _attr, key in self.exposed:
            if self._kind(key) == "nb":
                out.append(key + ".rdy")
            out.append(key)
        for m in self.topmeths:
            if m["kind"] == "nb":
                out.append("top.%s.rdy" % m["name"])
            out.append("top." + m["name"])
        return out

    def desc(self):
        mk = self.method_keys()
        mi = {k: i + 1 for i, k in enumerate(mk)}
        bl = self.all_blocks()
        bi = {b[0]: i + 1 for i, b in enumerate(bl)}
        ext = self.ext_methods()
        gl = self.greenlet_blocks()
        blocks = [{"name": k, "once": once, "ext": False, "gl": k in gl, "net": k.startswith("net:"),
                   "calls": [mi[m] for m in inv],
                   "rd": [s + 1 for s in rd], "wr": [s + 1 for s in wr]} for k, once, inv, rd, wr in bl]
        # one pseudo block per top-level callee method: "the test bench calls it" (open loop only)
        for m in ext:
            rdy = m.endswith(".rdy")
            chain = self._chain(m[:-4] if rdy else m, ".rdy" if rdy else "")
            blocks.append({"name": "ext:" + m, "once": True, "ext": True, "gl": False, "net": False,
                           "calls": [mi[x] for x in chain], "rd": [], "wr": []})
        return {"name": self.name,
                "blocks": blocks,
                "methods": [{"name": k} for k in mk],
                "mm": [[mi[a], mi[b]] for a, b in self.mm],
                "eq": [[mi[a], mi[b]] for a, b in self.eq],
                "um": [[bi[a], mi[b]] for a, b in self.um],
                "mu": [[mi[a], bi[b]] for a, b in self.mu],
                "uu": [[bi[a], bi[b]] for a, b in self.uu]}

    # -- source -------------------------------------------------------------------------------
    def cls(self, what):
        return "%s_%s" % (self.name, what)

    def source(self):
        o = []
        w = o.append
        K = [0]

        def const():
            K[0] += 1
            return 11 + 2 * K[0]

        def method_src(ind, name, kind, body_extra=None, state="st"):
            k = const()
            body = body_extra or ["s.%s = (s.%s * 3 + %d) %% %d" % (state, state, k, P), "return s.%s" % state]
            if kind == "port":
                w(ind + "@method_port")
                w(ind + "def %s( s ):" % name)
            elif kind == "nb":
                w(ind + "def %s_rdy( s ):" % name)
                w(ind + "  return True")
                w(ind + "@non_blocking( %s_rdy )" % name)
                w(ind + "def %s( s ):" % name)
            elif kind == "fl":
                w(ind + "@blocking")
                w(ind + "def %s( s ):" % name)
            else:
                w(ind + "def %s_( s ):" % name)
            for line in body:
                w(ind + "  " + line)

        done_cls = {}
        for lf in self.leaves:
            cname = self.shared.get(lf["name"]) or self.cls(lf["name"].upper())
            lf["cls"] = cname
            if cname in done_cls:
                lf["outer_cls"] = done_cls[cname]
                continue
            done_cls[cname] = cname
            w("class %s( Component ):" % cname)
            w("  def construct( s ):")
            w("    s.st = 0")
            for m in lf["meths"]:
                if m["kind"] == "plain":
                    w("    s.%s = CalleePort( method=s.%s_ )" % (m["name"], m["name"]))
            for b in lf["blocks"]:
                w("    s.n_%s = 0" % b["name"])
                w("    @update_once" if b["once"] else "    @update")
                w("    def %s():" % b["name"])
                w("      s.n_%s = s.n_%s + 1" % (b["name"], b["name"]))
            if lf["cons"]:
                w("    s.add_constraints(")
                for c in lf["cons"]:
                    w("      %s," % c)
                w("    )")
            for m in lf["meths"]:
                method_src("  ", m["name"], m["kind"])
            w("")
            # wrappers re-export every method as a connected callee port / interface
            inner = cname
            for lvl in range(lf["wrap"]):
                wn = self.cls("W%d_%s" % (lvl, lf["name"].upper()))
                w("class %s( Component ):" % wn)
                w("  def construct( s ):")
                w("    s.inner = %s()" % inner)
                for m in lf["meths"]:
                    w("    s.%s = %s()" % (m["name"], CALLEE_CLS[m["kind"]]))
                    w("    s.%s //= s.inner.%s" % (m["name"], m["name"]))
                w("")
                inner = wn
            lf["outer_cls"] = done_cls[cname] = inner
        for p in self.pts:
            w("class %s( Component ):" % self.cls(p["name"].upper()))
            w("  def construct( s ):")
            w("    s.out = %s()" % CALLER_CLS[p["kind"]])
            if p.get("eq", True):
                w("    s.add_constraints( M(s.fwd) == M(s.out)%s )" %
                  (", M(s.fwd.rdy) == M(s.out.rdy)" if p["kind"] == "nb" else ""))
            if p["kind"] == "nb":
                w("  def fwd_rdy( s ):")
                w("    return s.out.rdy()")
                w("  @non_blocking( fwd_rdy )")
            elif p["kind"] == "fl":
                w("  @blocking")
            else:
                w("  @method_port")
            w("  def fwd( s ):")
            w("    return s.out()")
            w("")
        for u in self.users:
            w("class %s( Component ):" % self.cls(u["name"].upper()))
            w("  def construct( s ):")
            for j, key in enumerate(u["outs"]):
                w("    s.out%d = %s()" % (j, CALLER_CLS[self._kind(key)]))
            w("    s.acc = 0")
            w("    @update_once")
            w("    def ub():")
            for j, key in enumerate(u["outs"]):
                if self._kind(key) == "nb":
                    w("      if s.out%d.rdy():" % j)
                    w("        s.acc = (s.acc * 7 + s.out%d()) %% %d" % (j, P))
                else:
                    w("      s.acc = (s.acc * 7 + s.out%d()) %% %d" % (j, P))
            w("")
        # ---- top
        w("class %s( Component ):" % self.cls("TOP"))
        w("  def construct( s ):")
        w("    s.st = 0")
        for lf in self.leaves:
            w("    s.%s = %s()" % (self.leaf_path(lf, outer=True), lf["outer_cls"]))
        for p in self.pts:
            w("    s.%s = %s()" % (p["name"], self.cls(p["name"].upper())))
            w("    s.%s.out //= %s" % (p["name"], self.mref(p["target"], "top", "outer")))
        for u in self.users:
            w("    s.%s = %s()" % (u["name"], self.cls(u["name"].upper())))
            for j, key in enumerate(u["outs"]):
                w("    s.%s.out%d //= %s" % (u["name"], j, self.mref(key, "top", "outer")))
        for key, attr in sorted(self.callers.items()):
            w("    s.%s = %s()" % (attr, CALLER_CLS[self._kind(key)]))
            w("    s.%s //= %s" % (attr, self.mref(key, "top", "outer")))
        for attr, key in self.exposed:
            w("    s.%s = %s()" % (attr, CALLEE_CLS[self._kind(key)]))
            w("    s.%s //= %s" % (attr, self.mref(key, "top", "outer")))
        for m in self.topmeths:
            if m["kind"] == "plain":
                w("    s.%s = CalleePort( method=s.%s_ )" % (m["name"], m["name"]))
        for i in range(self.nsig):
            w("    s.w%d = Wire( Bits16 )" % i)
        for n in self.nets:
            for t in n["dsts"]:
                w("    s.w%d //= s.w%d" % (t, n["src"]))
        for b in self.blocks:
            w("    s.acc_%s = 0" % b["name"])
            w("    s.n_%s = 0" % b["name"])
            w("    @update_once" if b["once"] else "    @update")
            w("    def %s():" % b["name"])
            w("      s.n_%s = s.n_%s + 1" % (b["name"], b["name"]))
            for s_ in b["rd"]:
                w("      s.acc_%s = (s.acc_%s * 7 + int(s.w%d)) %% %d" % (b["name"], b["name"], s_, P))
            for key, via in b["calls"]:
                ref = self.mref(key, "top", "caller" if via == "caller" else "outer")
                call = "s.acc_%s = (s.acc_%s * 7 + %s()) %% %d" % (b["name"], b["name"], ref, P)
                if self._kind(key) == "nb":
                    w("      if %s.rdy():" % ref)
                    w("        " + call)
                else:
                    w("      " + call)
            for s_ in b["wr"]:
                w("      s.w%d @= (s.n_%s * %d + %d) %% 65536" % (s_, b["name"], const(), const()))
        if self.topcons:
            w("    s.add_constraints(")
            for c in self.topcons:
                w("      %s," % c)
            w("    )")
        for m in self.topmeths:
            method_src("  ", m["name"], m["kind"])
        w("  def line_trace( s ):")
        w("    return ''")
        w("")
        return "\n".join(o)

    # -- locating the real objects ---------------------------------------------------------
    def bind(self, top):
        """-> (code_map {(code, id(instance)) -> ('blk'|'meth', index)}, observers)"""
        mk = self.method_keys()
        mi = {k: i + 1 for i, k in enumerate(mk)}
        bl = self.all_blocks()
        bi = {b[0]: i + 1 for i, b in enumerate(bl)}
        cmap = {}

        def comp(path):
            o = top
            for a in path.split("."):
                if a:
                    o = getattr(o, a)
            return o
        insts = {"top": top}
        for lf in self.leaves:
            insts[lf["name"]] = comp(self.leaf_path(lf))
        for p in self.pts:
            insts[p["name"]] = comp(p["name"])
        for u in self.users:
            insts[u["name"]] = comp(u["name"])
        for k in mk:
            parts = k.split(".")
            inst = insts[parts[0]]
            cls = type(inst)
            kind = self._kind(".".join(parts[:2]))
            if parts[-1] == "rdy":
                fn = cls.__dict__[parts[1] + "_rdy"]
            elif kind == "plain":
                fn = cls.__dict__[parts[1] + "_"]
            else:
                fn = cls.__dict__[parts[1]]
            cmap[(fn.__code__, id(inst))] = ("meth", mi[k])
        hostkey = {id(v): k for k, v in insts.items()}
        for blk in top.get_all_update_blocks():
            host = top.get_update_block_host_component(blk)
            hk = hostkey.get(id(host))
            if hk is None:
                continue                                   # wrapper components have no blocks
            key = blk.__name__ if hk == "top" else "%s.%s" % (hk, blk.__name__)
            if key in bi:
                cmap[(blk.__code__, id(host))] = ("blk", bi[key])
        # generated net blocks of the design's own net steps (their frames have no local `s`)
        for blk in getattr(getattr(top, "_dag", None), "genblks", ()):
            key = self.net_key(top, blk)
            if key in bi:
                cmap[(blk.__code__, id(None))] = ("blk", bi[key])
        self._insts = insts
        return cmap, bi, mi

    def net_key(self, top, blk):
        """descriptor key of a generated net block: by the signal it propagates (None: clk / reset fan-out)"""
        rd = top._dag.genblk_reads.get(blk)
        if rd:
            nm = repr(rd[0])
            for n in self.nets:
                if nm == "s.w%d" % n["src"]:
                    return "net:w%d" % n["src"]
        return None

    def observe(self, top):
        """observable python state after a cycle: {name: value}"""
        insts = self._insts
        out = {}
        for lf in self.leaves:
            out["st:" + lf["name"]] = insts[lf["name"]].st
        out["st:top"] = top.st
        for b in self.blocks:
            out["acc:" + b["name"]] = getattr(top, "acc_" + b["name"])
            out["n:" + b["name"]] = getattr(top, "n_" + b["name"])
        for u in self.users:
            out["acc:%s.ub" % u["name"]] = insts[u["name"]].acc
        for i in range(self.nsig):
            out["w%d" % i] = int(getattr(top, "w%d" % i))
        return out

    def touchers(self):
        """observable -> set of block keys whose execution changes / determines it"""
        bl = self.all_blocks()
        owner = lambda m: m.split(".")[0]
        touch = {}
        for key, _once, inv, rd, wr in bl:
            for m in inv:
                if owner(m).startswith("p"):
                    continue
                touch.setdefault("st:" + owner(m), set()).add(key)
        return touch


# ------------------------------------------------------------------------------------------
# driving and observing the real simulator
# ------------------------------------------------------------------------------------------

MODES = ["dyn", "simple", "unroll", "heu", "mamba"]
_modcount = [0]


def write_module(designs, path):
    with open(path, "w") as f:
        f.write("from pymtl3 import *\n\n")
        for d in designs:
            f.write(d.source())
            f.write("\n")


def load_module(path):
    _modcount[0] += 1
    name = "verifcl_%d_%d" % (os.getpid(), _modcount[0])
    spec = importlib.util.spec_from_file_location(name, path)
    mod = importlib.util.module_from_spec(spec)
    sys.modules[name] = mod
    spec.loader.exec_module(mod)
    return mod


class Rec:
    """sys.setprofile observer: block start / end, method invocation, register flip"""

    def __init__(self, cmap):
        self.cmap = cmap
        self.codes = {c for (c, _i) in cmap}
        self.ev = []

    def prof(self, frame, event, arg):
        if event == "call":
            code = frame.f_code
            if code in self.codes:
                k = self.cmap.get((code, id(frame.f_locals.get("s"))))
                if k is not None:
                    if k[0] == "blk":
                        # g: the body runs inside a greenlet (harness-side evidence that wrapping happened)
                        self.ev.append({"k": "bs", "b": k[1], "m": 0, "g": _getcurrent().parent is not None})
                    else:
                        self.ev.append({"k": "inv", "b": 0, "m": k[1]})
            elif code.co_name in ("double_buffer", "no_double_buffer"):
                self.ev.append({"k": "flip", "b": 0, "m": 0})
        elif event == "return":
            code = frame.f_code
            if code in self.codes:
                k = self.cmap.get((code, id(frame.f_locals.get("s"))))
                if k is not None and k[0] == "blk":
                    self.ev.append({"k": "be", "b": k[1], "m": 0})

    def run(self, fn):
        sys.setprofile(self.prof)
        try:
            return fn()
        finally:
            sys.setprofile(None)


def _E(k, cls=""):
    return {"k": k, "b": 0, "m": 0, "cls": cls}


def raw_block(top, blk):
    """the update block behind a greenlet ticker of WrapGreenletPass (the block itself otherwise)"""
    for raw, ticker in getattr(top._dag, "blk_greenlet_mapping", {}).items():
        if ticker is blk:
            return raw
    return blk


def blk_key(top, design, blk):
    """key of a scheduled pymtl3 function: descriptor key for user blocks (also behind a greenlet ticker) and
    for the design's own net steps, '#name' for the other generated net blocks (clk / reset fan-out)"""
    blk = raw_block(top, blk)
    if blk in top._dag.genblks:
        return design.net_key(top, blk) or "#" + blk.__name__
    host = top.get_update_block_host_component(blk)
    for k, v in design._insts.items():
        if v is host:
            return blk.__name__ if k == "top" else "%s.%s" % (k, blk.__name__)
    return "#" + blk.__name__


class VertexMismatch(MachineryError):
    pass


def build(mod, design, mode, tie_seed=0, forced=None):
    """-> (top, exception).  forced: function(top) -> list of block keys (the comb schedule to impose;
    generated net blocks (clk / reset fan-out) are put first)."""
    from pymtl3.passes.PassGroups import DefaultPassGroup, SimpleSimPass
    from pymtl3.passes.mamba.PassGroups import HeuTopoUnrollSim, Mamba2020, UnrollSim
    from pymtl3.passes.sim.DynamicSchedulePass import DynamicSchedulePass
    from pymtl3.passes.sim.GenDAGPass import GenDAGPass
    from pymtl3.passes.sim.PrepareSimPass import PrepareSimPass
    from pymtl3.passes.sim.SimpleSchedulePass import SimpleSchedulePass
    from pymtl3.passes.sim.WrapGreenletPass import WrapGreenletPass
    from pymtl3.passes.autotick.OpenLoopCLPass import OpenLoopCLPass
    top = getattr(mod, design.cls("TOP"))()
    top.elaborate()
    _random.seed(tie_seed)
    try:
        if mode == "dyn":
            top.apply(DefaultPassGroup())
        elif mode == "simple":
            top.apply(SimpleSimPass())
        elif mode == "unroll":
            top.apply(UnrollSim(print_line_trace=False))
        elif mode == "heu":
            top.apply(HeuTopoUnrollSim(print_line_trace=False))
        elif mode == "mamba":
            top.apply(Mamba2020(print_line_trace=False))
        elif mode == "ol":
            # what AutoTickSimPass does (AutoTickSimPass itself locks the simulation twice and fails)
            GenDAGPass()(top)
            WrapGreenletPass()(top)
            OpenLoopCLPass(print_line_trace=False)(top)
        elif mode == "dag":
            # the constraint set every scheduler works on (after the re-targeting to greenlet tickers)
            GenDAGPass()(top)
            WrapGreenletPass()(top)
        else:   # forced
            GenDAGPass()(top)
            WrapGreenletPass()(top)
            SimpleSchedulePass()(top)
            design.bind(top)
            want = forced(top)
            objs = {}
            for b in top._dag.final_upblks - top.get_all_update_ff():
                objs.setdefault(blk_key(top, design, b), []).append(b)
            nets = sorted(k for k in objs if k.startswith("#"))
            if sorted(want) != sorted(k for k, v in objs.items() if not k.startswith("#") for _ in v):
                # pymtl3's vertex set is not the design's block set (a block missing / scheduled twice): the
                # ordinary runs of this design report it; nothing can be forced here
                raise VertexMismatch("forced schedule of %s does not name pymtl3's vertices: %s vs %s" %
                                     (design.name, want, sorted((k, len(v)) for k, v in objs.items())))
            pool = {k: list(v) for k, v in objs.items()}
            top._sched.update_schedule = [b for k in nets for b in objs[k]] + [pool[k].pop() for k in want]
            PrepareSimPass(print_line_trace=False)(top)
    except MachineryError:
        raise
    except Exception as e:  # noqa: BLE001
        return top, e
    return top, None


def run_closed(mod, design, didx, mode, seed, cycles, forced=None):
    """-> (trace, [observables after each cycle])"""
    for _attempt in range(4):
        top, exc = build(mod, design, mode, seed, forced)
        # dump_dag(view=True) renders the fixed file /tmp/upblk-dag.gv before UpblkCyclicError is raised;
        # concurrent processes race on it
        if type(exc).__name__ not in ("CalledProcessError", "ExecutableNotFound"):
            break
        time.sleep(0.05 * (_attempt + 1))
    tr = {"d": didx, "ol": False, "mode": mode, "seed": seed, "ev": []}
    if exc is not None:
        tr["ev"].append(_E("schedraise", type(exc).__name__))
        tr["exc"] = "%s: %s" % (type(exc).__name__, str(exc)[:300])
        return tr, []
    tr["ev"].append(_E("schedok"))
    cmap, _bi, _mi = design.bind(top)
    rec = Rec(cmap)
    obs = []
    for _ in range(cycles):
        rec.ev.append(_E("bcyc"))
        try:
            rec.run(top.sim_tick)
        except Exception as e:  # noqa: BLE001
            rec.ev.append(_E("raised", type(e).__name__))
            break
        rec.ev.append(_E("ecyc"))
        obs.append(design.observe(top))
    tr["ev"] += [e for e in rec.ev if e["k"] != "flip"]
    return tr, obs


def run_open(mod, design, didx, seed, ncalls, R):
    """open loop: the test bench calls the top-level callee methods in a random order"""
    top, exc = build(mod, design, "ol", seed)
    tr = {"d": didx, "ol": True, "mode": "ol", "seed": seed, "ev": []}
    if exc is not None:
        tr["ev"].append(_E("schedraise", type(exc).__name__))
        tr["exc"] = "%s: %s" % (type(exc).__name__, str(exc)[:300])
        return tr
    tr["ev"].append(_E("schedok"))
    cmap, _bi, _mi = design.bind(top)
    rec = Rec(cmap)
    xi = {b["name"]: k + 1 for k, b in enumerate(design.desc()["blocks"])}
    targets = []
    for attr, key in design.exposed:
        targets.append((attr, design._kind(key), key))
    for m in design.topmeths:
        targets.append((m["name"], m["kind"], "top." + m["name"]))
    calls = []
    for _ in range(ncalls):
        attr, kind, key = R.choice(targets)
        port = getattr(top, attr)
        if kind == "nb":
            if R.random() < 0.8:
                calls.append((port.rdy, xi["ext:%s.rdy" % key]))
            if R.random() < 0.9:
                calls.append((port, xi["ext:" + key]))
        else:
            calls.append((port, xi["ext:" + key]))
    for c, x in calls:
        rec.ev.append({"k": "xs", "b": x, "m": 0})
        try:
            rec.run(c)
        except Exception as e:  # noqa: BLE001
            rec.ev.append(_E("raised", type(e).__name__))
            tr["exc"] = "%s: %s" % (type(e).__name__, str(e)[:300])
            break
        rec.ev.append({"k": "xe", "b": x, "m": 0})
    tr["ev"] += rec.ev
    return tr


def own_extensions(top, design, limit, R):
    """linear extensions of pymtl3's OWN constraint set (top._dag.all_constraints, after WrapGreenletPass:
    the set the schedule passes read) over the design's blocks, tickers and net steps, the way every
    schedule pass reads it (an edge counts when both ends are scheduled vertices): what pymtl3 itself
    considers a legal schedule"""
    V = [b for b in top._dag.final_upblks - top.get_all_update_ff()
         if not blk_key(top, design, b).startswith("#")]
    key = {b: blk_key(top, design, b) for b in V}
    V.sort(key=lambda b: key[b])
    E = {(u, v) for (u, v) in top._dag.all_constraints if u in key and v in key}
    pred = {v: {u for (u, w) in E if w == v} for v in V}
    out = []

    def rec(done, order):
        if len(out) > limit:
            return
        if len(order) == len(V):
            out.append([key[b] for b in order])
            return
        for v in V:
            if v not in done and pred[v] <= done:
                done.add(v)
                order.append(v)
                rec(done, order)
                order.pop()
                done.discard(v)
    rec(set(), [])
    if len(out) <= limit:
        return out
    res = []
    for _ in range(limit):
        done, order = set(), []
        while len(order) < len(V):
            ready = [v for v in V if v not in done and pred[v] <= done]
            if not ready:
                break
            v = R.choice(ready)
            done.add(v)
            order.append(v)
        if len(order) == len(V):
            res.append([key[b] for b in order])
    return res


# ------------------------------------------------------------------------------------------
# corpus
# ------------------------------------------------------------------------------------------

SHAPES = {
    # roles: X Y Z W methods of leaf l0, A B blocks; every shape makes A precede B
    "mm":  [("mm", "X", "Y")],
    "mmf": [("mm", "X", "Y", "flip")],
    "eqc": [("eq", "X", "Z"), ("mm", "Z", "Y")],
    "eqt": [("eq", "X", "Z"), ("eq", "W", "Z"), ("mm", "W", "Y")],
    "eqr": [("mm", "X", "Z"), ("eq", "Y", "Z")],
    "ch1": [("mm", "X", "Z"), ("mm", "Z", "Y")],
    "ch2": [("mm", "X", "Z"), ("mm", "Z", "W"), ("mm", "W", "Y")],
    "um":  [("um", "A", "Y")],
    "mu":  [("mu", "X", "B")],
    "umc": [("um", "A", "Z"), ("mm", "Z", "Y")],
    "muc": [("mm", "X", "Z"), ("mu", "Z", "B")],
    "ume": [("um", "A", "Z"), ("eq", "Z", "Y")],
    "mue": [("eq", "X", "Z"), ("mu", "Z", "B")],
    "umce": [("um", "A", "W"), ("eq", "W", "Z"), ("mm", "Z", "Y")],
    "muce": [("mm", "X", "Z"), ("eq", "Z", "W"), ("mu", "W", "B")],
    "rdy": [("mm", "Xr", "Yr")],
}
KINDS = ["port", "nb", "plain", "fl"]
ACCESS = ["child", "wrap1", "wrap2", "caller", "user"]
DECLS = ["leaf", "outer", "deep", "via"]


def pair_design(name, shape, rev, kind, access, decl, extra):
    d = CLDesign(name, "pair")
    wrap = {"child": 0, "wrap1": 1, "wrap2": 2, "caller": 1, "user": 2}[access]
    d.leaf("l0", " ".join("m%d:%s" % (i, kind) for i in range(4)), wrap=wrap)
    role = {"X": "l0.m0", "Y": "l0.m1", "Z": "l0.m2", "W": "l0.m3", "Xr": "l0.m0.rdy", "Yr": "l0.m1.rdy"}
    cons = SHAPES[shape]
    ublocks = {c[i] for c in cons for i in (1, 2) if c[i] in ("A", "B")}
    first, second = ("B", "A") if rev else ("A", "B")
    via = "caller" if access == "caller" else "child"
    if access == "caller":
        d.callers["l0.m0"], d.callers["l0.m1"] = "c0", "c1"
    names = {}
    for pos, r in enumerate((first, second)):
        m = role["X"] if r == "A" else role["Y"]
        if access == "user" and r not in ublocks:
            names[r] = d.user("u%d" % pos, [m])
        else:
            names[r] = d.block("b%d" % pos, [(m, via)])["name"]
    if extra:
        d.leaf("l1", "m0:port")
        d.block("b2", ["l1.m0"])
    role.update(names)
    for c in cons:
        k, a, b = c[0], role[c[1]], role[c[2]]
        flip = len(c) > 3
        pure = k in ("mm", "eq")
        if decl == "leaf" and pure:
            d.constrain(k, a, b, site="l0", sa="raw" if kind == "plain" and extra else "outer",
                        sb="outer", flip=flip)
        else:
            st = {"leaf": "outer", "outer": "outer", "deep": "deep",
                  "via": "caller" if access == "caller" else "user" if access == "user" else "outer"}[decl]

            def sty(key):
                base = ".".join(key.split(".")[:2])
                if st == "caller" and base in d.callers:
                    return "caller"
                if st == "user" and base in d.userports:
                    return "user"
                return "deep" if st == "deep" else "outer"
            d.constrain(k, a, b, site="top", sa=sty(a), sb=sty(b), flip=flip)
    return d


def pair_grid(quick):
    R = rng("c02cl-grid")
    out, k = [], 0
    for shape in SHAPES:
        for rev in (False, True):
            combos = [(kd, ac, dc) for kd in KINDS for ac in ACCESS for dc in DECLS
                      if not (shape == "rdy" and kd != "nb")]
            if quick:
                R.shuffle(combos)
                # every kind, access path and declaration site at least once per (shape, orientation)
                pick, seen = [], set()
                for c in combos:
                    new = {("k", c[0]), ("a", c[1]), ("d", c[2])} - seen
                    if new:
                        pick.append(c)
                        seen |= new
                combos = pick
            for kd, ac, dc in combos:
                out.append(pair_design("P%d_%s%s_%s_%s_%s" % (k, shape, "r" if rev else "", kd, ac, dc),
                                       shape, rev, kd, ac, dc, extra=(k % 3 == 0)))
                k += 1
    return out


# ---- greenlet-wrapped blocks (WrapGreenletPass): constraint shapes between block types
#   G  update_once block that calls a blocking method (wrapped into a greenlet ticker)
#   N  update_once block that calls a non-blocking method      O  ... a method port
#   P  plain update block (no calls)
GL_TYPES = {"G": "fl", "N": "nb", "O": "port", "P": None}
GL_SHAPES = {
    # A is the block that has to run first (inv: the signal says A first, the explicit constraint B first)
    "uu":  ("GNOP", "GNOP"),     # U(A) < U(B)
    "sig": ("GNOP", "GNOP"),     # A writes w0, B reads w0
    "net": ("GNOP", "GNOP"),     # A writes w0, net step w0 -> w1, B reads w1
    "inv": ("GNOP", "GNOP"),     # B writes w0, A reads w0, U(A) < U(B) inverts the pair
    "mm":  ("GNO", "GNO"),       # M(x) < M(y), A calls x, B calls y
    "um":  ("GNOP", "GNO"),      # U(A) < M(y), B calls y
    "mu":  ("GNO", "GNOP"),      # M(x) < U(B), A calls x
    "mme": ("GNO", "GNO"),       # M(x) == M(z), M(z) < M(y)
}
GL_ACCESS = ["child", "wrap", "caller"]


def gl_design(name, shape, ta, tb, rev, access, extra):
    d = CLDesign(name, "gl")
    ka, kb = GL_TYPES[ta] or "port", GL_TYPES[tb] or "port"
    d.leaf("l0", "m0:%s m1:%s m2:%s" % (ka, kb, ka), wrap={"child": 0, "wrap": 2, "caller": 1, "user": 1}[access])
    x, y = "l0.m0", "l0.m1"
    via = "caller" if access == "caller" else "child"
    if access == "caller":
        d.callers[x], d.callers[y] = "c0", "c1"
    calls = {"A": [(x, via)] if ta != "P" else [], "B": [(y, via)] if tb != "P" else []}
    rd, wr = {"A": [], "B": []}, {"A": [], "B": []}
    if shape == "sig":
        wr["A"], rd["B"] = [0], [0]
    elif shape == "net":
        wr["A"], rd["B"] = [0], [1]
    elif shape == "inv":
        wr["B"], rd["A"] = [0], [0]
    names = {}
    for pos, r in enumerate(("B", "A") if rev else ("A", "B")):
        t = ta if r == "A" else tb
        if access == "user" and t != "P":
            names[r] = d.user("u%d" % pos, [x if r == "A" else y])
        else:
            names[r] = d.block("b%d" % pos, calls[r], once=t != "P", rd=rd[r], wr=wr[r])["name"]
    if shape == "net":
        d.net(0, 1)
    if extra:                                  # a third wrapped block nobody constrains
        d.leaf("l1", "m0:fl")
        d.block("b2", ["l1.m0"])
    sty = "caller" if access == "caller" and extra else "outer"
    if shape in ("uu", "inv"):
        d.constrain("uu", names["A"], names["B"], flip=extra)
    elif shape == "mm":
        d.constrain("mm", x, y, site="top" if access != "child" else "l0", sa=sty, sb=sty, flip=extra)
    elif shape == "mme":
        d.constrain("eq", x, "l0.m2", site="l0")
        d.constrain("mm", "l0.m2", y, site="l0")
    elif shape == "um":
        d.constrain("um", names["A"], y, sb=sty)
    elif shape == "mu":
        d.constrain("mu", x, names["B"], sa=sty)
    return d


def greenlet_designs(quick):
    """constraint shape x (type of the first block, type of the second) x definition order; at least one of the
    two blocks is greenlet-wrapped (quick: both wrapped for every shape; the mixed pairs are sampled)"""
    R = rng("c02cl-gl")
    out, k = [], 0
    for shape, (tas, tbs) in GL_SHAPES.items():
        pairs = [(a, b) for a in tas for b in tbs if "G" in (a, b)]
        if quick:
            mixed = [p for p in pairs if p != ("G", "G")]
            pairs = [("G", "G")] + R.sample(mixed, 2)
        for ta, tb in pairs:
            for rev in (False, True):
                acc = GL_ACCESS[k % 3]
                if shape in ("mm", "mme") and k % 4 == 3:
                    acc = "user"               # the callers are blocks of child components (CallerIfcFL ports)
                out.append(gl_design("gl%d_%s%s_%s%s_%s" % (k, shape, "r" if rev else "", ta, tb, acc),
                                     shape, ta, tb, rev, acc, extra=(k % 5 == 0)))
                k += 1
    # chains of wrapped blocks: every link is a different kind of constraint, the definition order is permuted
    links = ["uu", "mm", "sig", "net", "um", "mu"]
    for c in range(3 if quick else 12):
        n = 4
        ks = [R.choice(links) for _ in range(n - 1)]
        d = CLDesign("glchain%d_%s" % (c, "_".join(ks)), "glchain")
        d.leaf("l0", " ".join("m%d:fl" % i for i in range(2 * n)), wrap=c % 2)
        order = list(range(n))
        R.shuffle(order)                       # order[i] = definition position of the i-th block of the chain
        nm = ["b%d" % order[i] for i in range(n)]
        spec = {i: {"calls": ["l0.m%d" % (2 * i)], "rd": [], "wr": []} for i in range(n)}
        sig = 0
        for i, kd in enumerate(ks):
            if kd == "sig":
                spec[i]["wr"].append(sig); spec[i + 1]["rd"].append(sig); sig += 1
            elif kd == "net":
                spec[i]["wr"].append(sig); spec[i + 1]["rd"].append(sig + 1); d.net(sig, sig + 1); sig += 2
        for pos in range(n):
            i = order.index(pos)
            d.block(nm[i], spec[i]["calls"], rd=spec[i]["rd"], wr=spec[i]["wr"])
        for i, kd in enumerate(ks):
            a, b = "l0.m%d" % (2 * i), "l0.m%d" % (2 * i + 2)
            if kd == "uu":
                d.constrain("uu", nm[i], nm[i + 1])
            elif kd == "mm":
                d.constrain("mm", a, b, site="l0")
            elif kd == "um":
                d.constrain("um", nm[i], b)
            elif kd == "mu":
                d.constrain("mu", a, nm[i + 1])
        out.append(d)
    return out


def _two(name, family, kind="port", wrap=0, n=4):
    d = CLDesign(name, family)
    d.leaf("l0", " ".join("m%d:%s" % (i, kind) for i in range(n)), wrap=wrap)
    return d


def multi_caller():
    out = []
    for rev in (False, True):
        t = "r" if rev else ""
        # F: b? calls x and y, the other calls x only: the x-only block first
        d = _two("multi_F" + t, "multi")
        a, b = ("b1", "b0") if rev else ("b0", "b1")
        for nm in sorted([a, b]):
            d.block(nm, ["l0.m0"] if nm == a else ["l0.m0", "l0.m1"])
        d.constrain("mm", "l0.m0", "l0.m1", site="l0")
        out.append(d)
        # three callers: x by b0 and b1, y by b2 (or mirrored)
        d = _two("multi_3" + t, "multi", wrap=1)
        if rev:
            d.block("b0", ["l0.m1"]); d.block("b1", ["l0.m0"]); d.block("b2", ["l0.m0", "l0.m2"])
        else:
            d.block("b0", ["l0.m0"]); d.block("b1", ["l0.m0", "l0.m2"]); d.block("b2", ["l0.m1"])
        d.constrain("mm", "l0.m0", "l0.m1", site="top")
        out.append(d)
        # same block calls both ends of a constraint (and of a cyclic pair): no block-level demand
        d = _two("multi_same" + t, "multi")
        d.block("b0", ["l0.m1", "l0.m0"] if rev else ["l0.m0", "l0.m1"])
        d.block("b1", ["l0.m2"])
        d.constrain("mm", "l0.m0", "l0.m1", site="l0")
        d.constrain("mm", "l0.m1", "l0.m0", site="l0")
        out.append(d)
        # diamond: x < y, x < z, y < w, z < w over four blocks
        d = _two("multi_diamond" + t, "multi", kind="nb")
        order = ["l0.m3", "l0.m2", "l0.m1", "l0.m0"] if rev else ["l0.m0", "l0.m1", "l0.m2", "l0.m3"]
        for i, m in enumerate(order):
            d.block("b%d" % i, [m])
        for a_, b_ in (("l0.m0", "l0.m1"), ("l0.m0", "l0.m2"), ("l0.m1", "l0.m3"), ("l0.m2", "l0.m3")):
            d.constrain("mm", a_, b_, site="l0")
        out.append(d)
        # two instances of ONE leaf class (block / method metadata is cached per class)
        d = CLDesign("multi_twin" + t, "multi")
        d.leaf("l0", "m0:port m1:port")
        d.leaf("l1", "m0:port m1:port")
        d.shared["l1"] = d.cls("L0")
        for lf in d.leaves:
            d.constrain("mm", lf["name"] + ".m0", lf["name"] + ".m1", site=lf["name"])
        blocks = [("b0", ["l0.m1"]), ("b1", ["l1.m0"]), ("b2", ["l0.m0"]), ("b3", ["l1.m1"])]
        if rev:
            blocks = [("b0", ["l1.m0"]), ("b1", ["l0.m1"]), ("b2", ["l1.m1"]), ("b3", ["l0.m0"])]
        for nm, c in blocks:
            d.block(nm, c)
        out.append(d)
    return out


def cycle_designs():
    """every scheduler must refuse these: cyclic constraints that carry no signal (or pass through an
    update_once block)"""
    out = []

    def mk(tag, kind="port", wrap=0):
        d = _two("cyc_" + tag, "cyc", kind, wrap)
        out.append(d)
        return d
    d = mk("mm2"); d.block("b0", ["l0.m0"]); d.block("b1", ["l0.m1"])
    d.constrain("mm", "l0.m0", "l0.m1", site="l0"); d.constrain("mm", "l0.m1", "l0.m0", site="l0")
    d = mk("mm3", "nb", 1); d.block("b0", ["l0.m0"]); d.block("b1", ["l0.m1"]); d.block("b2", ["l0.m2"])
    for a, b in (("l0.m0", "l0.m1"), ("l0.m1", "l0.m2"), ("l0.m2", "l0.m0")):
        d.constrain("mm", a, b, site="top")
    d = mk("eq"); d.block("b0", ["l0.m0"]); d.block("b1", ["l0.m1"])
    d.constrain("mm", "l0.m0", "l0.m1", site="l0"); d.constrain("eq", "l0.m1", "l0.m2", site="l0")
    d.constrain("mm", "l0.m2", "l0.m0", site="l0")
    d = mk("chain", "plain", 2); d.block("b0", ["l0.m0"]); d.block("b1", ["l0.m1"])
    d.constrain("mm", "l0.m0", "l0.m2", site="l0"); d.constrain("mm", "l0.m2", "l0.m1", site="l0")
    d.constrain("mm", "l0.m1", "l0.m3", site="top"); d.constrain("mm", "l0.m3", "l0.m0", site="top")
    d = mk("both"); d.block("b0", ["l0.m0", "l0.m1"]); d.block("b1", ["l0.m0", "l0.m1"])
    d.constrain("mm", "l0.m0", "l0.m1", site="l0")
    d = mk("umum"); d.block("b0", ["l0.m0"]); d.block("b1", ["l0.m1"])
    d.constrain("um", "b0", "l0.m1"); d.constrain("um", "b1", "l0.m0")
    d = mk("mumu", "nb"); d.block("b0", ["l0.m0"]); d.block("b1", ["l0.m1"])
    d.constrain("mu", "l0.m0", "b1"); d.constrain("mu", "l0.m1", "b0")
    d = mk("uumm"); d.block("b0", ["l0.m0"]); d.block("b1", ["l0.m1"])
    d.constrain("uu", "b0", "b1"); d.constrain("mm", "l0.m1", "l0.m0", site="l0")
    d = mk("sigonce"); d.block("b0", ["l0.m0"], wr=[0]); d.block("b1", ["l0.m1"], rd=[0])
    d.constrain("mm", "l0.m1", "l0.m0", site="l0")
    d = mk("sigplain"); d.block("b0", [], once=False, wr=[0]); d.block("b1", ["l0.m1"], rd=[0])
    d.constrain("um", "b1", "l0.m0"); d.block("b2", ["l0.m0"]); d.constrain("uu", "b2", "b0")
    d = mk("plainum"); d.block("b0", ["l0.m0"]); d.block("bp", [], once=False)
    d.constrain("um", "bp", "l0.m0"); d.constrain("mu", "l0.m0", "bp")
    d = mk("3mix", "port", 1); d.block("b0", ["l0.m0"]); d.block("b1", ["l0.m1"]); d.block("b2", ["l0.m2"])
    d.constrain("mm", "l0.m0", "l0.m1", site="l0"); d.constrain("um", "b1", "l0.m2"); d.constrain("uu", "b2", "b0")
    return out


def contra_designs():
    """two explicit constraints contradict each other through a method a block invokes: by the statement
    a cycle without a signal (must be refused)"""
    out = []
    d = _two("contra_um", "contra"); d.block("b0", ["l0.m0"]); d.block("b1", ["l0.m1"])
    d.constrain("mm", "l0.m0", "l0.m1", site="l0"); d.constrain("um", "b1", "l0.m0")
    out.append(d)
    d = _two("contra_mu", "contra"); d.block("b0", ["l0.m0"]); d.block("b1", ["l0.m1"])
    d.constrain("mm", "l0.m0", "l0.m1", site="l0"); d.constrain("mu", "l0.m1", "b0")
    out.append(d)
    d = _two("contra_um_rev", "contra"); d.block("b0", ["l0.m1"]); d.block("b1", ["l0.m0"])
    d.constrain("mm", "l0.m0", "l0.m1", site="l0"); d.constrain("um", "b0", "l0.m0")
    out.append(d)
    return out


def eqboth_designs():
    """M(x) < M(y) where the callers reach x and y only through == classes ON BOTH ENDS (x' == x < y == y',
    blocks call x' and y'): declared classes, and the classes pass-through methods create"""
    out = []
    for rev in (False, True):
        t = "_rev" if rev else ""

        def two(d, a, b):
            for nm, c in ([("b0", [b]), ("b1", [a])] if rev else [("b0", [a]), ("b1", [b])]):
                d.block(nm, c)
            out.append(d)
        d = _two("eqboth_decl" + t, "eqboth")
        d.constrain("eq", "l0.m0", "l0.m2", site="l0"); d.constrain("mm", "l0.m2", "l0.m3", site="l0")
        d.constrain("eq", "l0.m3", "l0.m1", site="l0")
        two(d, "l0.m0", "l0.m1")
        for kind in ("port", "nb", "fl"):
            d = CLDesign("eqboth_pt_%s%s" % (kind, t), "eqboth")
            d.leaf("l0", "m0:%s m1:%s" % (kind, kind))
            d.constrain("mm", "l0.m0", "l0.m1", site="l0")
            two(d, d.passthru("p0", "l0.m0"), d.passthru("p1", "l0.m1"))
    return out


def selfref_designs():
    """a block is declared before / after a method it invokes itself (meaning: relative to the OTHER
    callers); further constraints on that method must still hold for it"""
    out = []
    for rev in (False, True):
        t = "_rev" if rev else ""
        d = _two("self_um" + t, "self")
        names = ["b0", "b1", "v"] if not rev else ["v", "b1", "b0"]
        for nm in sorted(names):
            d.block(nm, ["l0.m0"] if nm.startswith("b") else [])
        d.constrain("um", "b0", "l0.m0"); d.constrain("um", "v", "l0.m0")
        out.append(d)
        d = _two("self_mu" + t, "self", kind="nb")
        for nm in sorted(names):
            d.block(nm, ["l0.m0"] if nm.startswith("b") else [])
        d.constrain("mu", "l0.m0", "b0"); d.constrain("mu", "l0.m0", "v")
        out.append(d)
        d = _two("self_chain" + t, "self")
        for nm in sorted(names):
            d.block(nm, ["l0.m1"] if nm.startswith("b") else [])
        d.constrain("mm", "l0.m0", "l0.m1", site="l0")
        d.constrain("um", "b0", "l0.m0"); d.constrain("um", "v", "l0.m0")
        out.append(d)
    return out


def passthru_designs():
    out = []
    for kind in ("port", "nb"):
        for depth in (1, 2, 3):
            for rev in (False, True):
                d = CLDesign("pt_%s_%d%s" % (kind, depth, "r" if rev else ""), "passthru")
                d.leaf("l0", "m0:%s m1:%s" % (kind, kind), wrap=depth - 1)
                tgt = "l0.m1"
                for i in range(depth):
                    tgt = d.passthru("p%d" % i, tgt)
                # pipe behaviour: deq (m0) before enq (m1); the producer pushes through the pass-throughs
                d.constrain("mm", "l0.m0", "l0.m1", site="l0")
                blocks = [("b0", [tgt]), ("b1", ["l0.m0"])]
                if rev:
                    blocks = [("b0", ["l0.m0"]), ("b1", [tgt])]
                for nm, c in blocks:
                    d.block(nm, c)
                out.append(d)
    # constraint declared on the pass-through's own method, against a block
    d = CLDesign("pt_um", "passthru")
    d.leaf("l0", "m0:port m1:port")
    f = d.passthru("p0", "l0.m1")
    d.block("b0", ["l0.m1"]); d.block("b1", []); d.block("b2", [f])
    d.constrain("mu", f, "b1")
    out.append(d)
    return out


def leafblk_designs():
    out = []
    for wrap in (0, 1, 2):
        for once in (True, False):
            for rev in (False, True):
                d = CLDesign("lb_%d%s%s" % (wrap, "o" if once else "p", "r" if rev else ""), "leafblk")
                d.leaf("l0", "m0:nb m1:port", wrap=wrap, blocks=[{"name": "lb0", "once": once}])
                d.block("b0", ["l0.m0"]); d.block("b1", ["l0.m1"])
                if rev:
                    d.constrain("mu", "l0.m0", "l0.lb0", site="l0"); d.constrain("mu", "l0.m0.rdy", "l0.lb0", site="l0")
                    d.constrain("um", "l0.lb0", "l0.m1", site="l0")
                else:
                    d.constrain("um", "l0.lb0", "l0.m0", site="l0"); d.constrain("um", "l0.lb0", "l0.m0.rdy", site="l0")
                    d.constrain("mu", "l0.m1", "l0.lb0", site="l0")
                out.append(d)
    return out


def mixed_designs():
    out = []
    for rev in (False, True):
        t = "r" if rev else ""
        d = _two("mix_a" + t, "mixed")
        d.block("b0", [], once=False, wr=[0])
        d.block("b1", ["l0.m1"] if rev else ["l0.m0"], rd=[0])
        d.block("b2", ["l0.m0"] if rev else ["l0.m1"], wr=[1])
        d.block("b3", [], once=False, rd=[1])
        d.constrain("mm", "l0.m0", "l0.m1", site="l0")
        out.append(d)
        d = _two("mix_inv" + t, "mixed", wrap=1)
        d.block("b0", ["l0.m0"], wr=[0]); d.block("b1", ["l0.m1"], rd=[0])
        d.constrain("uu", "b1", "b0")                      # explicit inversion of the value dependency
        if rev:
            d.constrain("mm", "l0.m1", "l0.m0", site="top")
        out.append(d)
        d = _two("mix_chain" + t, "mixed", kind="nb")
        d.block("b0", ["l0.m0"], wr=[0]); d.block("b1", [], once=False, rd=[0], wr=[1])
        d.block("b2", ["l0.m1"], rd=[1]); d.block("b3", ["l0.m2"])
        d.constrain("mm", "l0.m2", "l0.m0", site="l0") if rev else d.constrain("mm", "l0.m1", "l0.m2", site="l0")
        out.append(d)
    return out


def openloop_designs():
    """designs with top-level callee methods (also run closed loop, where nobody calls them)"""
    out = []
    for kind in KINDS:
        # the repo's own test shape: push before the block, block before pull
        d = CLDesign("ol_own_" + kind, "ol")
        d.topmeths += [{"name": "push", "kind": kind}, {"name": "pull", "kind": kind}]
        d.block("b0", [], wr=[0]); d.block("b1", [], once=False, rd=[0])
        d.constrain("mu", "top.push", "b0"); d.constrain("um", "b1", "top.pull")
        if kind == "nb":
            d.constrain("mu", "top.push.rdy", "b0"); d.constrain("um", "b1", "top.pull.rdy")
        out.append(d)
        for wrap in (0, 2):
            # top-level ports connected to a (grand)child's methods; constraints declared inside the leaf
            d = CLDesign("ol_net_%s%d" % (kind, wrap), "ol")
            d.leaf("l0", "m0:%s m1:%s" % (kind, kind), wrap=wrap, blocks=[{"name": "lb0", "once": True}])
            d.exposed += [("t0", "l0.m0"), ("t1", "l0.m1")]
            d.block("b0", [])
            d.constrain("mu", "l0.m0", "l0.lb0", site="l0"); d.constrain("um", "l0.lb0", "l0.m1", site="l0")
            out.append(d)
        # two top-level methods ordered against each other, and against a method a block invokes
        d = CLDesign("ol_mm_" + kind, "ol")
        d.leaf("l0", "m0:%s m1:%s m2:%s" % (kind, kind, kind), wrap=1)
        d.exposed += [("t0", "l0.m0"), ("t1", "l0.m1")]
        d.block("b0", []); d.block("b1", [])
        d.constrain("mm", "l0.m1", "l0.m0", site="l0")
        d.constrain("um", "b0", "l0.m1"); d.constrain("mu", "l0.m0", "b1")
        out.append(d)
    # the exposed method is ordered against a method an internal block invokes (pipe queue: deq < enq,
    # enq is called by the test bench, deq by a consumer block)
    for rev in (False, True):
        d = CLDesign("ol_inner" + ("_rev" if rev else ""), "olinner")
        d.leaf("l0", "m0:port m1:port")
        d.exposed.append(("t0", "l0.m1"))
        d.block("b0", ["l0.m0"])
        if rev:
            d.constrain("mm", "l0.m1", "l0.m0", site="l0")
        else:
            d.constrain("mm", "l0.m0", "l0.m1", site="l0")
        out.append(d)
    # pass-through at the top (M(push) == M(real_push))
    d = CLDesign("ol_pt", "ol")
    d.leaf("l0", "m0:nb m1:nb", blocks=[{"name": "lb0", "once": False}])
    f = d.passthru("p0", "l0.m0")
    d.exposed += [("t0", f), ("t1", "l0.m1")]
    d.constrain("mu", "l0.m0", "l0.lb0", site="l0"); d.constrain("mu", "l0.m0.rdy", "l0.lb0", site="l0")
    d.constrain("um", "l0.lb0", "l0.m1", site="l0"); d.constrain("um", "l0.lb0", "l0.m1.rdy", site="l0")
    out.append(d)
    # the pass-through is on the right-hand side of the constraint
    d = CLDesign("ol_pt_rhs", "ol")
    d.leaf("l0", "m0:port m1:port", wrap=1, blocks=[{"name": "lb0", "once": True}])
    f = d.passthru("p0", "l0.m1")
    d.exposed += [("t0", "l0.m0"), ("t1", f)]
    d.constrain("mu", "l0.m0", "l0.lb0", site="l0"); d.constrain("um", "l0.lb0", "l0.m1", site="l0")
    out.append(d)
    # a chain through a method nobody calls, between a top-level method and a block / another top-level method
    d = CLDesign("ol_chain", "olchain")
    d.leaf("l0", "m0:port m1:port m2:port", blocks=[{"name": "lb0", "once": True}])
    d.exposed += [("t0", "l0.m0"), ("t1", "l0.m1")]
    d.constrain("mm", "l0.m0", "l0.m2", site="l0"); d.constrain("mu", "l0.m2", "l0.lb0", site="l0")
    d.constrain("um", "l0.lb0", "l0.m1", site="l0")
    out.append(d)
    d = CLDesign("ol_chain_mm", "olchain")
    d.leaf("l0", "m0:port m1:port m2:port")
    d.exposed += [("t0", "l0.m0"), ("t1", "l0.m1")]
    d.block("b0", [])
    d.constrain("mm", "l0.m1", "l0.m2", site="l0"); d.constrain("mm", "l0.m2", "l0.m0", site="l0")
    out.append(d)
    # cyclic only for the open-loop scheduler: the two slots are ordered both ways
    d = CLDesign("ol_cyc", "olcyc")
    d.topmeths += [{"name": "push", "kind": "port"}, {"name": "pull", "kind": "port"}]
    d.block("b0", [])
    d.constrain("mm", "top.push", "top.pull"); d.constrain("mm", "top.pull", "top.push")
    out.append(d)
    d = CLDesign("ol_cyc_inner", "olcyc")                   # cyclic for every scheduler
    d.leaf("l0", "m0:port m1:port m2:port")
    d.exposed.append(("t0", "l0.m2"))
    d.block("b0", ["l0.m0"]); d.block("b1", ["l0.m1"])
    d.constrain("mm", "l0.m0", "l0.m1", site="l0"); d.constrain("mm", "l0.m1", "l0.m0", site="l0")
    out.append(d)
    d = CLDesign("ol_cyc_blk", "olcyc")
    d.topmeths += [{"name": "push", "kind": "port"}]
    d.block("b0", [])
    d.constrain("mu", "top.push", "b0"); d.constrain("um", "b0", "top.push")
    out.append(d)
    # open loop with greenlet-wrapped blocks: the test bench's methods are ordered against blocks that call
    # blocking methods (directly, and through the methods those blocks invoke)
    for kind in ("port", "fl"):
        d = CLDesign("olgl_own_" + kind, "olgl")
        d.leaf("l0", "m0:fl m1:fl")
        d.topmeths += [{"name": "push", "kind": kind}, {"name": "pull", "kind": kind}]
        d.block("b0", ["l0.m0"], wr=[0]); d.block("b1", ["l0.m1"], rd=[0])
        d.constrain("mu", "top.push", "b0"); d.constrain("um", "b1", "top.pull")
        out.append(d)
    for rev in (False, True):
        d = CLDesign("olgl_inner" + ("_rev" if rev else ""), "olgl")
        d.leaf("l0", "m0:fl m1:fl", wrap=1)
        d.exposed.append(("t0", "l0.m1"))
        d.block("b0", ["l0.m0"])
        if rev:
            d.constrain("mm", "l0.m1", "l0.m0", site="top")
        else:
            d.constrain("mm", "l0.m0", "l0.m1", site="top")
        out.append(d)
    # two wrapped blocks ordered against each other, beside a top-level method
    d = CLDesign("olgl_pair", "olgl")
    d.leaf("l0", "m0:fl m1:fl m2:port")
    d.exposed.append(("t0", "l0.m2"))
    d.block("b0", ["l0.m1"]); d.block("b1", ["l0.m0"])
    d.constrain("mm", "l0.m0", "l0.m1", site="l0")
    out.append(d)
    return out


def rand_designs(n, tag="c02cl-rand"):
    R = rng(tag)
    out = []
    for k in range(n):
        d = CLDesign("rand%d" % k, "rand")
        nl = R.choice([1, 1, 2])
        meths = []
        for i in range(nl):
            nm = R.choice([2, 3, 3])
            d.leaf("l%d" % i, " ".join("m%d:%s" % (q, R.choice(KINDS)) for q in range(nm)), wrap=R.choice([0, 0, 1, 2]))
            meths += ["l%d.m%d" % (i, q) for q in range(nm)]
        callable_ = list(meths)
        if R.random() < 0.3:
            callable_.append(d.passthru("p0", R.choice(meths)))
        nb = R.choice([3, 4, 4, 5])
        nsig = R.choice([0, 0, 1, 2])
        nets = nsig and R.random() < 0.4
        writer = {}
        for i in range(nb):
            once = R.random() < 0.75
            calls = R.sample(callable_, R.choice([0, 1, 1, 2])) if once else []
            rd = [s for s in sorted(writer) if R.random() < 0.5]
            wr = [s for s in range(nsig) if s not in writer and R.random() < 0.5]
            for s in wr:
                writer[s] = i
            d.block("b%d" % i, calls, once=once, rd=rd, wr=wr)
            if nets:
                for s in wr:                  # a net step behind the written signal; later blocks may read it
                    if R.random() < 0.6:
                        d.net(s, d.nsig if d.nsig > nsig else nsig)
                        writer[d.nsig - 1] = i
        d.nsig = max(d.nsig, nsig)
        for _ in range(R.choice([1, 2, 2, 3])):
            kind = R.choice(["mm", "mm", "eq", "um", "mu", "uu"])
            if kind in ("mm", "eq"):
                lf = R.choice(d.leaves)
                ms = ["%s.%s" % (lf["name"], m["name"]) for m in lf["meths"]]
                a, b = R.sample(ms, 2)
                if (a, b) in d.mm or (b, a) in d.mm or (a, b) in d.eq or (b, a) in d.eq:
                    continue
                d.constrain(kind, a, b, site=R.choice([lf["name"], "top"]), flip=R.random() < 0.3)
            elif kind == "um":
                d.constrain("um", "b%d" % R.randrange(nb), R.choice(meths))
            elif kind == "mu":
                d.constrain("mu", R.choice(meths), "b%d" % R.randrange(nb))
            else:
                a, b = R.sample(range(nb), 2)
                if ("b%d" % b, "b%d" % a) not in d.uu and ("b%d" % a, "b%d" % b) not in d.uu:
                    d.constrain("uu", "b%d" % a, "b%d" % b)
        out.append(d)
    return out


def corpus(quick):
    out = pair_grid(quick)
    out += multi_caller() + cycle_designs() + contra_designs() + selfref_designs() + eqboth_designs()
    out += passthru_designs() + leafblk_designs() + mixed_designs() + openloop_designs()
    out += greenlet_designs(quick)
    out += rand_designs(40 if quick else 600)
    names = [d.name for d in out]
    if len(set(names)) != len(names):
        raise MachineryError("duplicate design names in the CL corpus")
    return out


# ------------------------------------------------------------------------------------------
# the phase
# ------------------------------------------------------------------------------------------

MC_CFG = ("SPECIFICATION Spec\nINVARIANT Honoured\nINVARIANT DerivedExact\nINVARIANT NoScheduleIfCyclic\n"
          "INVARIANT RejectedOnlyIfMust\nINVARIANT CyclicIsMustReject\n")
CLASSIFY_CFG = "INIT ClassifyInit\nNEXT ClassifyNext\nCHECK_DEADLOCK FALSE\n"
SCHED_CFG = "SPECIFICATION Spec\nINVARIANT Honoured\n"

_W = {}      # data the forked workers read


def _json_file(sdir, name, obj):
    fn = os.path.join(sdir, name)
    with open(fn, "w") as f:
        json.dump(obj, f)
    return fn


def classify(sdir, descs):
    """TLC tells which designs must be refused and the derived relation (the harness never computes it)"""
    fn = _json_file(sdir, "classify.json", {"designs": descs, "modes": ["sched"], "maxcalls": 0})
    r = tlc.run("MethodOrder", cfg_text=CLASSIFY_CFG, env={"VERIF_INPUT": fn}, workers=1, timeout=1200)
    if r.errors or r.violated:
        raise MachineryError("classification run failed: %s\n%s" % (r.errors, r.out[-3000:]))
    info = [None] * len(descs)
    dtc = [dict() for _ in descs]
    for v in r.prints:
        if v[0] == "R":
            info[v[1] - 1] = {"cyc": v[2], "must": v[3], "cyc_ol": v[4], "must_ol": v[5], "selfref": v[6]}
        elif v[0] == "R2":
            dtc[v[1] - 1][v[2]] = set(v[3])
    if any(i is None for i in info):
        raise MachineryError("classification incomplete\n" + r.out[-2000:])
    return r, info, dtc


def spec_extensions(sdir, descs, idxs, limit, R):
    """linear extensions of the SPECIFICATION's relation, read from TLC's dumped state graph (mode sched)"""
    sub = [descs[i] for i in idxs]
    fn = _json_file(sdir, "sched.json", {"designs": sub, "modes": ["sched"], "maxcalls": 0})
    r, states, _init, _edges = tlc.dump_graph("MethodOrder", cfg_text=SCHED_CFG, env={"VERIF_INPUT": fn}, timeout=1800)
    if r.errors or r.violated or not r.ok:
        raise MachineryError("sched-mode dump failed: %s %s\n%s" % (r.errors, r.violated, r.out[-3000:]))
    exts = {i: [] for i in idxs}
    for st in states.values():
        if st["cur"] != 0 or st["mode"] != "sched":
            continue
        k = idxs[st["d"] - 1]
        nreal = sum(1 for b in descs[k]["blocks"] if not b["ext"])
        order = [e[1] for e in st["hist"] if e[0] == "s"]
        if len(order) == nreal and sum(1 for e in st["hist"] if e[0] == "e") == nreal:
            exts[k].append(order)
    for k in idxs:
        exts[k].sort()
        if not exts[k]:
            raise MachineryError("TLC produced no linear extension for acyclic design %s" % descs[k]["name"])
        if len(exts[k]) > limit:
            exts[k] = R.sample(exts[k], limit)
    return r, exts


def _worker(job):
    """one chunk of designs: every pass group, tie-break seeds, open loop, forced schedules"""
    ci, idxs = job
    designs, info, P_ = _W["designs"], _W["info"], _W["params"]
    path = os.path.join(_W["sdir"], "clmod_%d.py" % ci)
    write_module([designs[i] for i in idxs], path)
    mod = load_module(path)
    traces, obs, unforced = [], {}, []
    for i in idxs:
        d = designs[i]
        R = rng("c02cl-run:" + d.name)
        for mode in MODES:
            seeds = P_["seeds"] if mode in ("simple", "unroll") else P_["seeds"][:1]
            for sd in seeds:
                tr, ob = run_closed(mod, d, i + 1, mode, sd, P_["cycles"])
                traces.append(tr)
                if ob and sd == seeds[0]:
                    obs[(i, mode)] = ob
        if d.ext_methods():
            for sd in P_["ol_seeds"]:
                traces.append(run_open(mod, d, i + 1, sd, P_["ol_calls"], rng("c02cl-ol:%s:%d" % (d.name, sd))))
        # pymtl3's own constraint set: each of its linear extensions must satisfy the specification
        top, exc = build(mod, d, "dag")
        if exc is None:
            d.bind(top)
            for k, ext in enumerate(own_extensions(top, d, P_["own_limit"], R)):
                try:
                    tr, _ = run_closed(mod, d, i + 1, "forced", 0, 1, forced=lambda t, e=ext: e)
                except VertexMismatch:
                    unforced.append(d.name)
                    break
                tr["mode"] = "own"
                tr["seed"] = k
                traces.append(tr)
        # the specification's linear extensions forced on the real simulator
        names = [b["name"] for b in _W["descs"][i]["blocks"]]
        for k, ext in enumerate(_W["exts"].get(i, [])):
            try:
                tr, ob = run_closed(mod, d, i + 1, "forced", 0, P_["cycles"],
                                    forced=lambda t, e=ext: [names[b - 1] for b in e])
            except VertexMismatch:
                unforced.append(d.name)
                break
            tr["mode"] = "spec"
            tr["seed"] = k
            traces.append(tr)
            obs[(i, "spec%d" % k)] = ob
    return traces, obs, unforced


def deterministic_observables(d, desc, dtc):
    """observables whose value the constraints fix: every pair of blocks that touch the state behind them
    is ordered by the specification's derived relation"""
    bi = {b["name"]: k + 1 for k, b in enumerate(desc["blocks"])}
    det_st = {}
    for ob, blks in d.touchers().items():
        ids = sorted(bi[b] for b in blks)
        det_st[ob] = all(b in dtc.get(a, ()) or a in dtc.get(b, ()) for a, b in itertools.combinations(ids, 2))
    out = set()
    for key, _once, inv, _rd, _wr in d.all_blocks():
        owners = {"st:" + m.split(".")[0] for m in inv if not m.split(".")[0].startswith("p")}
        if all(det_st.get(o, True) for o in owners):
            out.add("acc:" + key)
        out.add("n:" + key)
    out |= {o for o, v in det_st.items() if v}
    out |= {"w%d" % s for s in range(d.nsig)}
    return out


def _groups(ev):
    """split the first cycle of a closed-loop trace into (prefix, [block groups], suffix)"""
    i0 = next(k for k, e in enumerate(ev) if e["k"] == "bcyc")
    i1 = next(k for k, e in enumerate(ev) if e["k"] == "ecyc")
    groups, cur = [], None
    for e in ev[i0 + 1:i1]:
        if e["k"] == "bs":
            cur = [e]
            groups.append(cur)
        else:
            cur.append(e)
    return ev[:i0 + 1], groups, ev[i1:]


class _NoTrace(Exception):
    pass


def make_canaries(designs, info, traces, verdicts):
    """corrupted copies of accepted real traces; each must be rejected with the named clause.
    -> (canaries, missing): missing = canaries that could not be built because no real trace of the
    needed kind was accepted (legitimate only when the run reports violations)"""
    out, missing = [], []
    byname = {d.name: i for i, d in enumerate(designs)}

    def first(pred):
        for t, v in zip(traces, verdicts):
            if v[0] == "ok" and pred(t):
                return t
        raise _NoTrace()

    def closed(t, ev):
        return {"d": t["d"], "ol": False, "ev": ev}
    okrun = lambda t: not t["ol"] and any(e["k"] == "ecyc" for e in t["ev"])
    builders = []

    def canary(tag):
        def deco(fn):
            builders.append((tag, fn))
            return fn
        return deco
    # 1. two constrained invocations swapped (the pair grid makes A precede B by every shape)
    want = {"mm": "method-order-violated", "eqt": "method-order-violated", "ch2": "method-order-violated",
            "um": "block-after-method", "umc": "block-after-method", "mu": "method-after-block",
            "muc": "method-after-block", "rdy": "method-order-violated"}
    for shape, clause in sorted(want.items()):
        @canary("swapped:" + shape)
        def _(shape=shape, clause=clause):
            t = first(lambda t: okrun(t) and designs[t["d"] - 1].family == "pair" and
                      designs[t["d"] - 1].name.split("_")[1] in (shape, shape + "r") and
                      len(designs[t["d"] - 1].blocks) + len(designs[t["d"] - 1].users) == 2)
            pre, groups, suf = _groups(t["ev"])
            return closed(t, pre + [e for g in reversed(groups) for e in g] + suf), clause

    @canary("swapped:uu")
    def _():
        t = first(lambda t: okrun(t) and designs[t["d"] - 1].name.startswith("mix_inv"))
        pre, groups, suf = _groups(t["ev"])
        return closed(t, pre + [e for g in reversed(groups) for e in g] + suf), "explicit-order-violated"

    @canary("swapped:signal")
    def _():
        t = first(lambda t: okrun(t) and designs[t["d"] - 1].name == "mix_a")
        pre, groups, suf = _groups(t["ev"])
        return closed(t, pre + [e for g in groups if g[0]["b"] != 1 for e in g] +
                      [e for g in groups if g[0]["b"] == 1 for e in g] + suf), "reader-before-writer"
    # 1b. greenlet-wrapped blocks (both blocks of the pair are wrapped): the two tickers swapped, a ticker that
    #     never ran, a body left suspended inside its greenlet
    glwant = {"uu": "explicit-order-violated", "inv": "explicit-order-violated", "mm": "method-order-violated",
              "mme": "method-order-violated", "sig": "reader-before-writer", "net": "reader-before-writer",
              "um": "block-after-method", "mu": "method-after-block"}
    glpair = lambda shape: first(lambda t: okrun(t) and designs[t["d"] - 1].family == "gl" and
                                 designs[t["d"] - 1].name.split("_")[1] in shape and
                                 designs[t["d"] - 1].name.split("_")[2] == "GG")
    for shape, clause in sorted(glwant.items()):
        @canary("gl-swapped:" + shape)
        def _(shape=shape, clause=clause):
            t = glpair((shape, shape + "r"))
            pre, groups, suf = _groups(t["ev"])
            return closed(t, pre + [e for g in reversed(groups) for e in g] + suf), clause

    @canary("gl-ticker-dropped")
    def _():
        t = glpair(("mm", "mmr", "uu", "uur"))
        pre, groups, suf = _groups(t["ev"])
        return closed(t, pre + [e for g in groups[1:] for e in g] + suf), "not-run"

    @canary("gl-body-suspended")
    def _():
        t = glpair(("mm", "mmr", "uu", "uur"))
        pre, groups, suf = _groups(t["ev"])
        return closed(t, pre + groups[0][:1] + [e for g in groups[1:] for e in g] + suf), "protocol"

    @canary("net-step-late")
    def _():
        t = first(lambda t: okrun(t) and designs[t["d"] - 1].family == "gl" and
                  designs[t["d"] - 1].name.split("_")[1] in ("net", "netr"))
        net = next(k + 1 for k, b in enumerate(designs[t["d"] - 1].desc()["blocks"]) if b["net"])
        pre, groups, suf = _groups(t["ev"])
        return closed(t, pre + [e for g in groups if g[0]["b"] != net for e in g] +
                      [e for g in groups if g[0]["b"] == net for e in g] + suf), "reader-before-writer"
    # 2. a dropped block, a block run twice, a call that reached another method, a call that never arrived
    multi = lambda: first(lambda t: okrun(t) and designs[t["d"] - 1].family == "multi")

    @canary("dropped")
    def _():
        t = multi()
        pre, groups, suf = _groups(t["ev"])
        return closed(t, pre + [e for g in groups[:-1] for e in g] + suf), "not-run"

    @canary("twice")
    def _():
        t = multi()
        pre, groups, suf = _groups(t["ev"])
        return closed(t, pre + [e for g in groups + groups[-1:] for e in g] + suf), "ran-twice"

    @canary("misrouted")
    def _():
        t = multi()
        ev = json.loads(json.dumps(t["ev"]))
        k = next(k for k, e in enumerate(ev) if e["k"] == "inv")
        ev[k]["m"] = ev[k]["m"] % len(designs[t["d"] - 1].method_keys()) + 1
        return closed(t, ev), "call-reached-wrong-method"

    @canary("call-dropped")
    def _():
        t = multi()
        k = next(k for k, e in enumerate(t["ev"]) if e["k"] == "inv" and t["ev"][k + 1]["k"] == "be")
        return closed(t, [e for q, e in enumerate(t["ev"]) if q != k]), "call-missing"
    # 3. a cyclic descriptor presented as scheduled; an acyclic one presented as refused
    pair = lambda: first(lambda t: okrun(t) and designs[t["d"] - 1].family == "pair")

    @canary("cyclic-as-scheduled")
    def _():
        return {"d": byname["cyc_mm2"] + 1, "ol": False, "ev": pair()["ev"]}, "scheduled-a-cyclic-design"

    @canary("acyclic-as-refused")
    def _():
        return closed(pair(), [_E("schedraise", "UpblkCyclicError")]), "refused-a-schedulable-design"

    @canary("wrong-exception")
    def _():
        return {"d": byname["cyc_mm2"] + 1, "ol": False, "ev": [_E("schedraise", "KeyError")]}, "unexpected-exception"
    # 4. open loop (ol_own_port: blocks b0 = 1, b1 = 2; methods push = 1, pull = 2; M(push) < U(b0),
    #    U(b1) < M(pull)): a block moved in front of the test bench's push / behind its pull; a cycle that
    #    ends without a block
    def ol_cycles():
        for t, v in zip(traces, verdicts):
            if v[0] == "ok" and t["ol"] and designs[t["d"] - 1].name == "ol_own_port":
                fl = [k for k, e in enumerate(t["ev"]) if e["k"] == "flip"]
                for f0, f1 in zip(fl, fl[1:]):
                    yield t, f0, f1

    def group(ev, lo, hi, b):
        i = next((k for k in range(lo, hi) if ev[k]["k"] == "bs" and ev[k]["b"] == b), None)
        return None if i is None else (i, next(k for k in range(i, hi + 1) if ev[k]["k"] == "be" and ev[k]["b"] == b))

    def ol(kind):
        for t, f0, f1 in ol_cycles():
            ev = t["ev"]
            ip = next((k for k in range(f0, f1) if ev[k]["k"] == "inv" and ev[k]["m"] == 1), None)
            iq = next((k for k in range(f0, f1) if ev[k]["k"] == "inv" and ev[k]["m"] == 2), None)
            g0, g1 = group(ev, f0, f1, 1), group(ev, f0, f1, 2)
            if kind == "late" and ip is not None and g0 and g0[0] > ip:
                return ({"d": t["d"], "ol": True, "ev": ev[:ip] + ev[g0[0]:g0[1] + 1] + ev[ip:g0[0]] + ev[g0[1] + 1:]},
                        "method-after-block")
            if kind == "early" and iq is not None and g1 and g1[1] < iq:
                return ({"d": t["d"], "ol": True,
                         "ev": ev[:g1[0]] + ev[g1[1] + 1:iq + 1] + ev[g1[0]:g1[1] + 1] + ev[iq + 1:]}, "block-after-method")
            if kind == "drop" and g1:
                return {"d": t["d"], "ol": True, "ev": ev[:g1[0]] + ev[g1[1] + 1:]}, "not-run"
        raise _NoTrace()
    canary("ol-push-late")(lambda: ol("late"))
    canary("ol-pull-early")(lambda: ol("early"))
    canary("ol-dropped")(lambda: ol("drop"))
    for tag, fn in builders:
        try:
            tr, clause = fn()
            out.append((tr, clause, tag))
        except _NoTrace:
            missing.append(tag)
    return out, missing


def run_phase(res, tier):
    from concurrent.futures import ThreadPoolExecutor
    import multiprocessing
    quick = tier == "quick"
    t0 = time.time()
    designs = corpus(quick)
    with scratch("c02cl_") as sdir:
        descs = [d.desc() for d in designs]
        rc, info, dtc = classify(sdir, descs)
        res.add_tlc(rc)
        # random designs: keep the acyclic ones that do not constrain a block against a method it invokes
        # itself (both shapes have their own families, with stable names)
        keep = [i for i, d in enumerate(designs)
                if d.family != "rand" or not (info[i]["cyc"] or info[i]["cyc_ol"] or info[i]["selfref"])]
        res.note("cl_rand_dropped", len(designs) - len(keep))
        designs = [designs[i] for i in keep]
        descs = [descs[i] for i in keep]
        info = [info[i] for i in keep]
        dtc = [dtc[i] for i in keep]
        nreal = [sum(1 for b in x["blocks"] if not b["ext"]) for x in descs]

        # ---- TLC: the specification's own scheduler, all interleavings (runs beside the simulations)
        mc_idx = [i for i in range(len(designs)) if nreal[i] <= (4 if quick else 5)
                  and (not quick or designs[i].family != "pair" or i % 4 == 0)]
        ol_idx = [i for i in range(len(designs)) if designs[i].ext_methods() and len(descs[i]["blocks"]) <= 6]
        fmc = _json_file(sdir, "mc.json", {"designs": [descs[i] for i in mc_idx], "modes": ["sched", "free"], "maxcalls": 0})
        fol = _json_file(sdir, "mcol.json", {"designs": [descs[i] for i in ol_idx], "modes": ["ol"],
                                              "maxcalls": 3 if quick else 4})
        pool_t = ThreadPoolExecutor(max_workers=2)
        ncpu = os.cpu_count() or 4
        fut_mc = pool_t.submit(tlc.run, "MethodOrder", cfg_text=MC_CFG, env={"VERIF_INPUT": fmc}, coverage=True,
                               workers=max(2, ncpu // 2), timeout=3000)
        fut_ol = pool_t.submit(tlc.run, "MethodOrder", cfg_text=MC_CFG, env={"VERIF_INPUT": fol}, coverage=True,
                               workers=max(2, ncpu // 4), timeout=3000)

        # ---- spec -> code: TLC's linear extensions of the specification's relation
        f_idx = [i for i in range(len(designs)) if not info[i]["cyc"] and 2 <= nreal[i] <= 5
                 and (not quick or designs[i].family != "pair" or i % 3 == 0)]
        rd, exts = spec_extensions(sdir, descs, f_idx, 4 if quick else 24, rng("c02cl-ext"))
        res.add_tlc(rd)

        # ---- the real simulator
        _W.update(designs=designs, descs=descs, info=info, exts=exts, sdir=sdir,
                  params={"seeds": (0, 1) if quick else (0, 1, 2, 3), "cycles": 2,
                          "ol_seeds": tuple(range(6)) if quick else tuple(range(16)), "ol_calls": 8 if quick else 14,
                          "own_limit": 6 if quick else 24})
        # designs the acyclic-only passes refuse go through dump_dag (one fixed file in /tmp): one process
        cyc_all = [i for i in range(len(designs)) if info[i]["cyc"] or info[i]["cyc_ol"]]
        rest = [i for i in range(len(designs)) if i not in set(cyc_all)]
        nchunk = max(1, min(len(rest), ncpu * 2))
        jobs = [(ci, rest[ci::nchunk]) for ci in range(nchunk)] + [(nchunk, cyc_all)]
        with multiprocessing.get_context("fork").Pool(ncpu) as pool:
            results = pool.map(_worker, jobs)
        traces, obs, unforced = [], {}, set()
        for tr, ob, un in results:
            traces += tr
            obs.update(ob)
            unforced |= set(un)
        t_sim = time.time() - t0

        # ---- code -> spec
        payload = {"designs": descs, "traces": [{"d": t["d"], "ol": t["ol"], "ev": t["ev"]} for t in traces]}

        def only_used(p):
            used = sorted({t["d"] for t in p["traces"]})
            remap = {dd: k + 1 for k, dd in enumerate(used)}
            return {"designs": [p["designs"][dd - 1] for dd in used],
                    "traces": [dict(t, d=remap[t["d"]]) for t in p["traces"]]}
        runs, verdicts = tlc.validate_traces("MethodOrderTrace", payload, payload_fn=only_used)
        for r in runs:
            res.add_tlc(r)
        res.add_traces(len(traces))
        kinds = {}
        for t in traces:
            for e in t["ev"]:
                kinds[e["k"]] = kinds.get(e["k"], 0) + 1
        for k in ("schedok", "schedraise", "bcyc", "bs", "inv", "be", "ecyc", "flip"):
            if not kinds.get(k):
                raise MachineryError("no %r event in any recorded CL trace (vacuous)" % k)
        res.note("cl_events", kinds)
        # greenlet wrapping really happened (evidence from the profile hook: the body ran in a child greenlet)
        ngl, nmis = 0, 0
        for t in traces:
            blocks = descs[t["d"] - 1]["blocks"]
            for e in t["ev"]:
                if e["k"] == "bs":
                    ngl += bool(e["g"])
                    nmis += bool(e["g"]) != blocks[e["b"] - 1]["gl"]
        if ngl == 0:
            raise MachineryError("no block body ever ran inside a greenlet (vacuous for WrapGreenletPass)")
        res.note("cl_block_runs_inside_a_greenlet", ngl)
        res.note("cl_block_runs_wrapped_differently_from_descriptor", nmis)
        netruns = sum(1 for t in traces for e in t["ev"] if e["k"] == "bs" and descs[t["d"] - 1]["blocks"][e["b"] - 1]["net"])
        if netruns == 0:
            raise MachineryError("no net step of a CL design was ever recorded (vacuous)")
        res.note("cl_net_step_runs", netruns)
        olexc = {}
        failed = {}
        crashed = {}
        for t, (err, pos) in zip(traces, verdicts):
            d = designs[t["d"] - 1]
            res.distinct(("cl", d.name, t["mode"]))
            if t["ol"] and t["ev"][0]["k"] == "schedraise":
                olexc[t["ev"][0]["cls"]] = olexc.get(t["ev"][0]["cls"], 0) + 1
            if err == "refused-a-schedulable-design" and not t["ol"] and t["ev"][0]["cls"] != "UpblkCyclicError" \
                    and d.greenlet_blocks():
                # a schedule pass CRASHES on a schedulable design with a greenlet-wrapped block: one input
                # class per (pass group, exception), whatever else the design holds
                crashed.setdefault((t["mode"], t["ev"][0]["cls"]), []).append(t)
            elif err != "ok":
                failed.setdefault((err, d.name), []).append((t, pos))
        for (mode, cls), lst in sorted(crashed.items()):
            t = lst[0]
            d = designs[t["d"] - 1]
            names = sorted({designs[x["d"] - 1].name for x in lst})
            res.violation("cl:sched-crash:%s:%s:greenlet-wrapped-block" % (mode, cls),
                          "pass group %s refuses schedulable CL designs that hold a block calling a blocking method "
                          "(greenlet ticker) with %s (%d designs, e.g. %s)" %
                          (mode, re.sub(r" at 0x[0-9a-f]+", "", t.get("exc") or cls), len(names), names[0]),
                          {"design": descs[t["d"] - 1], "source": d.source(), "exception": t.get("exc"),
                           "designs": names})
        for (err, name), lst in sorted(failed.items()):
            t, pos = lst[0]
            d = designs[t["d"] - 1]
            modes = sorted({"%s/%s" % (x["mode"], x["seed"]) for x, _ in lst})
            res.violation("cl:%s:%s" % (err, name),
                          "CL design %s: %s (event %d of the %s run, seed %s; %d runs in all: %s)" %
                          (name, err, pos, t["mode"], t["seed"], len(lst), " ".join(modes[:12])),
                          {"design": descs[t["d"] - 1], "source": d.source(), "events": t["ev"][:pos + 2],
                           "exception": t.get("exc"), "runs": modes})
        res.note("cl_openloop_refusal_exception_classes", olexc)
        # designs whose forced schedules could not be built because pymtl3's vertex set differs from the design's
        # block set: legitimate only if the ordinary runs of the same design were rejected
        silent = sorted(n for n in unforced if not any(name == n for (_e, name) in failed))
        if silent:
            raise MachineryError("pymtl3 schedules other vertices than the blocks of %s, yet every recorded run of "
                                 "these designs was accepted" % silent[:5])
        res.note("cl_designs_without_forced_schedules", sorted(unforced)[:20])

        # ---- spec -> code: every forced extension of the specification's order gives the same observable
        #      state wherever the constraints order all blocks that touch it; the real schedulers agree
        compared = 0
        for i in f_idx:
            d = designs[i]
            det = deterministic_observables(d, descs[i], dtc[i])
            ref = obs.get((i, "spec0"))
            if not ref:
                continue
            for key, ob in sorted(obs.items(), key=lambda kv: str(kv[0])):
                if key[0] != i or key[1] == "spec0":
                    continue
                for c, (a, b) in enumerate(zip(ref, ob)):
                    diff = sorted(o for o in det if a.get(o) != b.get(o))
                    compared += 1
                    if diff:
                        res.violation("cl:nondeterministic:%s:%s" % (d.name, diff[0]),
                                      "CL design %s: observable %s differs between two schedules that both respect "
                                      "every constraint (%s vs first extension, cycle %d)" % (d.name, diff[0], key[1], c),
                                      {"source": d.source(), "a": a, "b": b, "schedule": key[1]})
                        break
            res.add_evals(len(exts[i]))
        if compared == 0:
            raise MachineryError("no forced-extension comparison was made (vacuous)")
        res.note("cl_forced_comparisons", compared)
        res.note("cl_spec_extensions_forced", sum(len(v) for v in exts.values()))

        # ---- canaries
        cans, missing = make_canaries(designs, info, traces, verdicts)
        if missing and not res.violations:
            raise MachineryError("no accepted real trace to build canaries %s from" % missing)
        res.note("cl_canaries_not_built", missing)
        _cr, cv = tlc.validate_traces("MethodOrderTrace", {"designs": descs, "traces": [c[0] for c in cans]},
                                      payload_fn=only_used)
        other_clause = {}
        for (tr, clause, tag), (err, _pos) in zip(cans, cv):
            if err == "ok":
                raise MachineryError("CL canary %s accepted by MethodOrderTrace (expected %r)" % (tag, clause))
            if err != clause:
                # rejected, but an earlier clause fired first (which one depends on the recorded run the
                # canary was derived from): still a rejection; recorded, not a failure of the machinery
                other_clause[tag] = [clause, err]
        res.note("cl_canaries_rejected_by_another_clause", other_clause)
        res.note("cl_canaries", len(cans))

        # ---- the model check
        for nm, fut, acts in (("closed", fut_mc, ("SomeStart", "Ticker", "NetStep", "Invoke", "End", "Reject", "Done")),
                              ("openloop", fut_ol, ("SomeOLBegin", "OLWrap", "OLCall", "OLStop"))):
            r = fut.result()
            res.add_tlc(r)
            if r.violated:
                res.violation("cl:model:%s:%s" % (nm, r.violated), "MethodOrder.tla violates %s" % r.violated, r.out[-4000:])
            elif not r.ok:
                raise MachineryError("TLC failed on MethodOrder (%s): %s\n%s" % (nm, r.errors, r.out[-3000:]))
            for a in acts:
                if r.coverage.get(a, (0, 0))[1] == 0:
                    raise MachineryError("action %s never taken in the MethodOrder model check (vacuous)" % a)
        pool_t.shutdown()
        res.sample({"design": designs[0].name, "source": designs[0].source(), "descriptor": descs[0],
                    "events": traces[0]["ev"][:14]})
    fam = {}
    for d in designs:
        fam[d.family] = fam.get(d.family, 0) + 1
    res.note("cl_designs", len(designs))
    res.note("cl_families", fam)
    res.note("cl_must_reject", sum(1 for x in info if x["must"]))
    res.note("cl_model_designs", {"closed": len(mc_idx), "openloop": len(ol_idx)})
    res.note("cl_rule", "a CL case = (design, pass group | tie-break seed | forced linear extension | open-loop call "
             "sequence); the pair grid enumerates constraint shape x orientation x method kind (method port, "
             "non-blocking, plain, blocking) x access path x declaration site; the greenlet grid constraint shape "
             "(U<U, WR<RD, WR<net<RD, inverted, M<M, U<M, M<U, M==M<M) x block types (greenlet-wrapped, update_once "
             "calling non-blocking / method port, plain) x definition order; distinct = (design, mode)")
    res.note("cl_greenlet_blocks", sum(len(d.greenlet_blocks()) for d in designs))
    res.note("cl_wall", {"sim_s": round(t_sim, 1), "total_s": round(time.time() - t0, 1)})
