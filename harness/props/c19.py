"""C19  Round-robin arbiters grant exactly one requester, fairly.

spec/Arbiter.tla (state machine + invariants), spec/ArbiterTrace.tla (trace validation).
  1. TLC checks the invariants/action properties of Arbiter.tla for N = 2..Nmax, both variants.
  2. spec -> code: the dumped state graph is walked; EVERY transition is replayed on the real
     RoundRobinArbiter / RoundRobinArbiterEn and grants / priority pointer compared.
  3. code -> spec: for every (ptr, reqs, en) of every size up to nmax the real arbiter is driven
     and the recorded history validated by ArbiterTrace; plus long random histories up to 16 inputs.
  4. canaries: corrupted copies of real traces must be rejected.
  5. the registers the arbiters (and the library's control logic) are built from - Reg, RegEn, RegRst, RegEnRst of
     basic_rtl/registers.py: spec/Registers.tla (reset wins over enable, a disabled register holds, a register
     without reset / enable term ignores that input); TLC checks its action properties for every kind x reset
     value and must refute the canary property; every transition of every dumped graph is replayed on the real
     class (Bits1 / Bits2 / Bits3 values) and long random histories are compared with NextOut of the graph.
"""
import collections
import copy

import tlc
from common import MachineryError, rng

READY = True


def _mk(cls, n):
    from pymtl3 import DefaultPassGroup
    top = cls(n)
    top.elaborate()
    top.apply(DefaultPassGroup())
    return top


class Dut:
    def __init__(self, n, has_en):
        from pymtl3.stdlib.basic_rtl.arbiters import RoundRobinArbiter, RoundRobinArbiterEn
        self.n, self.has_en = n, has_en
        self.top = _mk(RoundRobinArbiterEn if has_en else RoundRobinArbiter, n)
        self.top.sim_reset()

    def ptr(self):
        v = int(self.top.priority_reg.out)
        bits = [i for i in range(self.n) if (v >> i) & 1]
        return bits[0] if len(bits) == 1 else -1

    def reset(self, reqs=(), en=False):
        """one cycle with reset high; the request and enable lines may be active meanwhile"""
        t = self.top
        t.reset @= 1
        t.reqs @= sum(1 << i for i in reqs)
        if self.has_en:
            t.en @= int(en)
        t.sim_eval_combinational()
        g = int(t.grants)
        t.sim_tick()
        t.reset @= 0
        return {"k": "reset", "reqs": sorted(reqs), "en": bool(en),
                "grants": [i for i in range(self.n) if (g >> i) & 1], "ptr": self.ptr()}

    def cycle(self, reqs, en):
        t = self.top
        t.reqs @= sum(1 << i for i in reqs)
        if self.has_en:
            t.en @= int(en)
        t.sim_eval_combinational()
        g = int(t.grants)
        t.sim_tick()
        return {"k": "cycle", "reqs": sorted(reqs), "en": bool(en),
                "grants": [i for i in range(self.n) if (g >> i) & 1], "ptr": self.ptr()}


def _model_check(res, nmax):
    for n in range(2, nmax + 1):
        for has_en in (False, True):
            cfg = ("SPECIFICATION Spec\nCONSTANTS N = %d\n HasEn = %s\n"
                   "INVARIANT TypeOK\nINVARIANT OneHot0\nINVARIANT GrantsAreReqs\nINVARIANT GrantIffReq\n"
                   "INVARIANT BoundedWait\nPROPERTY Rotates\nPROPERTY Holds\n" % (n, "TRUE" if has_en else "FALSE"))
            r = tlc.run("Arbiter", cfg_text=cfg, coverage=True, timeout=1800)
            res.add_tlc(r)
            if r.violated:
                res.violation("model:N=%d,en=%s:%s" % (n, has_en, r.violated),
                              "Arbiter.tla violates %s for N=%d" % (r.violated, n), r.out[-3000:])
            elif not r.ok:
                raise MachineryError("TLC failed on Arbiter N=%d: %s\n%s" % (n, r.errors, r.out[-2000:]))
            for act in ("Cycle", "Reset"):
                if r.coverage.get(act, (0, 0))[1] == 0:
                    raise MachineryError("action %s never taken in Arbiter N=%d (vacuous)" % (act, n))


def _graph_walk(res, nmax):
    """spec -> code: replay every edge of the state graph on the implementation."""
    for n in range(2, nmax + 1):
        for has_en in (False, True):
            cfg = "SPECIFICATION Spec\nCONSTANTS N = %d\n HasEn = %s\n" % (n, "TRUE" if has_en else "FALSE")
            r, states, init, edges = tlc.dump_graph("Arbiter", cfg_text=cfg)
            res.add_tlc(r)
            out = collections.defaultdict(list)
            for (s, d, name, args) in edges:
                out[s].append((d, name, args))
            # BFS tree from the initial state
            (s0,) = tuple(init)
            path = {s0: []}
            q = collections.deque([s0])
            while q:
                s = q.popleft()
                for (d, name, args) in out[s]:
                    if d not in path:
                        path[d] = path[s] + [(name, args)]
                        q.append(d)
            if len(path) != len(states):
                raise MachineryError("state graph not connected from init")
            dut = Dut(n, has_en)

            def apply(name, args):
                R, en = args
                if name == "Reset":
                    return dut.reset(sorted(R), en)
                return dut.cycle(sorted(R), en)

            nedges = 0
            for s in states:
                for (d, name, args) in out[s]:
                    dut.reset()
                    for (pn, pa) in path[s]:
                        apply(pn, pa)
                    ev = apply(name, args)
                    exp = states[d]
                    got_ptr = dut.ptr()
                    nedges += 1
                    res.add_evals()
                    bad = got_ptr != exp["ptr"]
                    if ev is not None:
                        bad = bad or set(ev["grants"]) != set(exp["grants"])
                    if bad:
                        res.violation("replay:n=%d,en=%s,ptr=%d,%s%s" % (n, has_en, states[s]["ptr"], name, tuple(map(str, args))),
                                      "arbiter nreqs=%d (en variant=%s): from ptr=%d action %s%s the spec expects "
                                      "ptr=%s grants=%s, implementation gives ptr=%s %s"
                                      % (n, has_en, states[s]["ptr"], name, args, exp["ptr"], sorted(exp["grants"]),
                                         got_ptr, ev),
                                      {"path": [(a, str(b)) for a, b in path[s]], "edge": (name, str(args))})
                    res.distinct(("edge", n, has_en, states[s]["ptr"], name, str(args)))
            res.count("spec_to_code_transitions_replayed", nedges)
            if n == 2 and not has_en:
                res.sample({"kind": "spec->code edge", "n": n, "from": states[s0], "action": str(out[s0][0][1:]),
                            "to": states[out[s0][0][0]]})
            # replay canary: a perturbed expectation must mismatch
            if n == 2 and not has_en:
                dut.reset()
                ev = dut.cycle([0], True)
                if dut.ptr() == 0:
                    raise MachineryError("replay canary: pointer did not move")


def _traces(res, nmax, nrand, randlen):
    traces = []
    R = rng("c19")
    for n in range(2, nmax + 1):
        for has_en in (False, True):
            dut = Dut(n, has_en)
            for p in range(n):
                for bits in range(1 << n):
                    for en in ((False, True) if has_en else (True,)):
                        ev = [dut.reset()]
                        if p != 0:
                            ev.append(dut.cycle([p - 1], True))
                        rq = [i for i in range(n) if (bits >> i) & 1]
                        ev.append(dut.cycle(rq, en))
                        # reset while the same requests stay pending and the enable keeps its value,
                        # then one more cycle: priority must restart at input 0
                        ev.append(dut.reset(rq, en))
                        ev.append(dut.cycle(rq, True))
                        traces.append({"n": n, "hasEn": has_en, "ev": ev})
                        res.distinct(("t", n, has_en, p, bits, en))
    nexh = len(traces)
    for k in range(nrand):
        n = R.choice([2, 3, 4, 5, 7, 8, 9, 12, 16])
        has_en = R.random() < 0.5
        dut = Dut(n, has_en)
        ev = [dut.reset()]
        sticky = set()
        for c in range(randlen):
            mode = R.random()
            if mode < 0.02:
                for _ in range(R.choice([1, 1, 2, 3])):
                    ev.append(dut.reset(sorted(sticky) if R.random() < 0.7 else [], R.random() < 0.7))
                continue
            if mode < 0.3:
                sticky = {i for i in range(n) if R.random() < 0.5}
            reqs = sticky | {i for i in range(n) if R.random() < 0.2} if R.random() < 0.9 else set()
            ev.append(dut.cycle(sorted(reqs), R.random() < 0.6))
        traces.append({"n": n, "hasEn": has_en, "ev": ev})
        res.distinct(("r", k))
    res.add_evals(sum(len(t["ev"]) for t in traces))
    res.sample({"kind": "impl trace", **traces[nexh // 2]})
    runs, verdicts = tlc.validate_traces("ArbiterTrace", {"traces": traces})
    for r in runs:
        res.add_tlc(r)
    res.add_traces(len(traces))
    for t, (err, pos) in zip(traces, verdicts):
        if err != "ok":
            e = t["ev"][pos - 1]
            res.violation("trace:n=%d,en=%s,%s:%s" % (t["n"], t["hasEn"], err, {k: e[k] for k in sorted(e)}),
                          "arbiter nreqs=%d (en variant=%s): %s at event %d %s" % (t["n"], t["hasEn"], err, pos, e),
                          {"trace": t, "clause": err, "event": pos})
    res.note("exhaustive_impl_transitions", nexh)
    # ---- canaries: corrupted copies of accepted traces must be rejected
    good = [t for t, v in zip(traces, verdicts) if v[0] == "ok" and any(e["k"] == "cycle" and e["reqs"] for e in t["ev"])]
    can = []
    for t in good[:40]:
        c = copy.deepcopy(t)
        idx = [i for i, e in enumerate(c["ev"]) if e["k"] == "cycle" and e["reqs"]]
        e = c["ev"][idx[-1]]
        kind = len(can) % 3
        if kind == 0:       # grant moved to another input
            e["grants"] = [(e["grants"][0] + 1) % c["n"]]
        elif kind == 1:     # pointer off by one
            e["ptr"] = (e["ptr"] + 1) % c["n"]
        else:               # two grants
            e["grants"] = sorted(set(e["grants"]) | {(e["grants"][0] + 1) % c["n"]})
        can.append(c)
    if can:
        _, cv = tlc.validate_traces("ArbiterTrace", {"traces": can})
        acc = [i for i, v in enumerate(cv) if v[0] == "ok"]
        if acc:
            raise MachineryError("canary traces accepted by ArbiterTrace: %s" % acc[:5])
        res.note("canaries_rejected", len(can))


REG_PROPS = ("ResetWins", "HoldsValue", "Loads", "IgnoresRst", "IgnoresEn")


def _registers(res, quick):
    """spec/Registers.tla: model check, replay every transition on the real register classes."""
    from pymtl3 import DefaultPassGroup, mk_bits
    import pymtl3.stdlib.basic_rtl.registers as regs
    R = rng("c19-registers")
    nedges = 0
    from concurrent.futures import ThreadPoolExecutor
    cfgs = []
    for kind in ("Reg", "RegEn", "RegRst", "RegEnRst"):
        has_rst = kind in ("RegRst", "RegEnRst")
        for nbits in ((1, 2) if quick else (1, 2, 3)):
            maxv = (1 << nbits) - 1
            for rv in (sorted({0, 1, maxv}) if has_rst else (0,)):
                cfgs.append((kind, nbits, maxv, rv))

    def tlc_jobs(c):
        kind, nbits, maxv, rv = c
        base = "SPECIFICATION Spec\nCONSTANTS Kind = \"%s\"\n MaxV = %d\n RV = %d\n" % (kind, maxv, rv)
        r = tlc.run("Registers", cfg_text=base + "INVARIANT TypeOK\n" + "".join("PROPERTY %s\n" % p for p in REG_PROPS),
                    coverage=True, workers=2, light=True)
        can = None
        if kind == "RegEnRst" and nbits == 2 and rv == 1:
            can = tlc.run("Registers", cfg_text=base + "PROPERTY CanaryNeverChanges\n", workers=2, light=True)
        return r, can, tlc.dump_graph("Registers", cfg_text=base)

    with ThreadPoolExecutor(max_workers=8) as ex:
        jobs = list(ex.map(tlc_jobs, cfgs))
    for (kind, nbits, maxv, rv), (r, c, (g, states, init, edges)) in zip(cfgs, jobs):
        has_en, has_rst = kind in ("RegEn", "RegEnRst"), kind in ("RegRst", "RegEnRst")
        if True:
            if True:
                res.add_tlc(r)
                if r.violated:
                    res.violation("model:registers:%s:%s" % (kind, r.violated), "Registers.tla violates %s for %s" % (r.violated, kind),
                                  r.out[-2000:])
                    continue
                if not r.ok:
                    raise MachineryError("TLC failed on Registers %s: %s\n%s" % (kind, r.errors, r.out[-1500:]))
                if r.coverage.get("Cycle", (0, 0))[1] == 0:
                    raise MachineryError("action Cycle never taken in Registers %s" % kind)
                if c is not None and not c.violated:
                    raise MachineryError("Registers.tla: the canary property CanaryNeverChanges was not refuted")
                res.add_tlc(g)
                T = mk_bits(nbits)

                def fresh():
                    top = getattr(regs, kind)(T, rv) if has_rst else getattr(regs, kind)(T)
                    top.elaborate()
                    top.apply(DefaultPassGroup())
                    return top

                def step(top, a):
                    i, en, rst = a
                    top.in_ @= i
                    if has_en:
                        top.en @= int(en)
                    top.reset @= int(rst)
                    top.sim_tick()
                    return int(top.out)
                # shortest paths from the power-up state of the implementation (out = 0, no history)
                out = collections.defaultdict(list)
                for (s_, d, name, args) in edges:
                    out[s_].append((d, args))
                s0 = next(i for i in init if states[i]["out"] == 0)
                path = {s0: []}
                q = collections.deque([s0])
                while q:
                    s_ = q.popleft()
                    for (d, a) in out[s_]:
                        if d not in path:
                            path[d] = path[s_] + [a]
                            q.append(d)
                for s_ in path:
                    for (d, a) in out[s_]:
                        top = fresh()
                        for pa in path[s_]:
                            step(top, pa)
                        if int(top.out) != states[s_]["out"]:
                            raise MachineryError("register walk lost its state")
                        got = step(top, a)
                        nedges += 1
                        res.add_evals()
                        res.distinct(("reg-edge", kind, nbits, rv, states[s_]["out"], str(a)))
                        if got != states[d]["out"]:
                            res.violation("replay:registers:%s:rv=%d:out=%d,in=%d,en=%s,rst=%s" % ((kind, rv, states[s_]["out"]) + tuple(a)),
                                          "%s( Bits%d%s ): from out=%d the cycle (in_=%d, en=%s, reset=%s) must give out=%d, the "
                                          "implementation gives %d" % ((kind, nbits, ", reset_value=%d" % rv if has_rst else "",
                                                                        states[s_]["out"]) + tuple(a) + (states[d]["out"], got)),
                                          {"path": [list(map(str, p)) for p in path[s_]], "edge": list(map(str, a))})
                # a long random history on one instance against the graph's transition function
                nxt = {(states[s_]["out"], a): states[d]["out"] for s_ in path for (d, a) in out[s_]}
                top = fresh()
                cur = 0
                for _ in range(200 if quick else 2000):
                    a = (R.randrange(maxv + 1), R.random() < 0.6, R.random() < 0.15)
                    exp = nxt[(cur, a)]
                    got = step(top, a)
                    res.add_evals()
                    if got != exp:
                        res.violation("trace:registers:%s:rv=%d" % (kind, rv),
                                      "%s( Bits%d ): random history: from out=%d cycle %s gives %d, the specification %d"
                                      % (kind, nbits, cur, a, got, exp))
                        break
                    cur = exp
    res.count("register_transitions_replayed", nedges)
    # replay canary: a register model with enable and reset swapped must disagree with the graph somewhere
    bad = [(o, a) for (o, a), v in nxt.items() if (1 if a[1] and False else 0) or
           ((rv if a[1] else (a[0] if a[2] else o)) != v)]
    if not bad:
        raise MachineryError("register canary: the swapped-input model agrees with the specification graph")


def run(res, tier):
    quick = tier == "quick"
    _registers(res, quick)
    _model_check(res, 5 if quick else 6)
    _graph_walk(res, 3 if quick else 4)
    _traces(res, 6 if quick else 8, 40 if quick else 400, 300 if quick else 1000)
    res.cov["exhaustive"] = True
    res.note("rule", "spec->code: every transition of the TLC state graph (N<=%d); code->spec: every "
             "(priority, reqs, en) of every size <= %d is driven on the implementation and validated, plus "
             "random histories up to 16 inputs; a case is one (size, variant, priority, reqs, en) tuple or one "
             "random history" % (3 if quick else 4, 6 if quick else 8))
    res.assume("priority_reg.out is read after sim_tick(), grants after sim_eval_combinational()")
    res.assume("random histories sample sizes 2..16; sizes above 8 are not exhaustively enumerated")
